"""Stand-in for the `prometheus_client` package (which is not installed here), used by the C20 check only.

`/verif/mxv/core._setup_worker` puts `/verif/stubs` on `sys.path` when MXV_METRICS=1 (set by `./check C20`), *before*
`more_executors` is imported, so that `more_executors._impl.metrics` builds its `PrometheusMetrics` on top of
these classes exactly as it would on top of the real client.  For every other property the directory is not on
the path (and MORE_EXECUTORS_PROMETHEUS=0), so the library falls back to its null metrics.

Only what the library uses is provided: `Counter` / `Gauge` taking (name, documentation, labelnames=(),
namespace=""), `.labels(**kw)` giving a child with `.inc(v=1)` / `.dec(v=1)`.  As in the real client,
`labels()` insists on exactly the declared label names and a counter refuses a negative increment.

Values live in the module-level dict REGISTRY, keyed by (metric name, sorted label items) -- the *short* name
the library passes ("retry_queue"), without namespace or "_total" suffix -- so that the harness can snapshot
them.  Everything is lock-free on purpose (plain dict updates): the conformance engine serialises the library's
threads and a real lock held here would never be a scheduling point.  NEGATIVE remembers every gauge child whose
value was ever below zero, also between two snapshots.

`reset()` starts a new epoch: all values and flags are dropped, and children handed out in an earlier epoch
(e.g. captured by a done-callback of a future that belongs to a previous execution in the same worker process)
become inert, so one execution can never disturb the numbers of the next.
"""

REGISTRY = {}     # (name, ((label, value), ...)) -> number
NEGATIVE = set()  # keys of gauge children that were below zero at some point
KINDS = {}        # name -> "counter" | "gauge"
LABELNAMES = {}   # name -> tuple of label names
_EPOCH = [0]
HOOK = [None]     # optional callable run before every update of a gauge: the C20 scenario installs the engine's
                  # scheduling point here, so that interleavings around gauge updates are explored


def reset():
    """Forget all values (the metric objects created by the library at import time stay valid)."""
    _EPOCH[0] += 1
    REGISTRY.clear()
    NEGATIVE.clear()


def snapshot():
    """[(name, kind, {label: value}, number, went_negative)] sorted by name and labels."""
    out = []
    for key in sorted(REGISTRY):
        out.append((key[0], KINDS.get(key[0], "?"), dict(key[1]), REGISTRY[key], key in NEGATIVE))
    return out


def value(name, **labels):
    return REGISTRY.get((name, tuple(sorted(labels.items()))), 0)


class _Child(object):
    __slots__ = ("_key", "_gauge", "_epoch")

    def __init__(self, key, gauge):
        self._key = key
        self._gauge = gauge
        self._epoch = _EPOCH[0]
        if key not in REGISTRY:
            REGISTRY[key] = 0

    def _add(self, amount):
        if self._epoch != _EPOCH[0]:
            return  # stale child of an earlier execution
        if self._gauge and HOOK[0] is not None:
            HOOK[0]()
        v = REGISTRY.get(self._key, 0) + amount
        REGISTRY[self._key] = v
        if self._gauge and v < 0:
            NEGATIVE.add(self._key)

    def inc(self, amount=1):
        if not self._gauge and amount < 0:
            raise ValueError("Counters can only be incremented by non-negative amounts.")
        self._add(amount)

    def dec(self, amount=1):
        if not self._gauge:
            raise AttributeError("'Counter' object has no attribute 'dec'")
        self._add(-amount)

    def set(self, v):
        if not self._gauge:
            raise AttributeError("'Counter' object has no attribute 'set'")
        if self._epoch != _EPOCH[0]:
            return
        REGISTRY[self._key] = v
        if v < 0:
            NEGATIVE.add(self._key)


class _Metric(object):
    _kind = "?"

    def __init__(self, name, documentation, labelnames=(), namespace="", subsystem="", unit="", registry=None,
                 **_kw):
        self._name = name
        self._namespace = namespace
        self._documentation = documentation
        self._labelnames = tuple(labelnames)
        KINDS[name] = self._kind
        LABELNAMES[name] = self._labelnames

    def labels(self, *labelvalues, **labelkwargs):
        if labelvalues and labelkwargs:
            raise ValueError("Can't pass both *args and **kwargs")
        if labelvalues:
            if len(labelvalues) != len(self._labelnames):
                raise ValueError("Incorrect label count")
            labelkwargs = dict(zip(self._labelnames, labelvalues))
        if sorted(labelkwargs) != sorted(self._labelnames):
            raise ValueError("Incorrect label names")
        key = (self._name, tuple(sorted((k, str(v)) for k, v in labelkwargs.items())))
        return _Child(key, self._kind == "gauge")

    # un-labelled use (the library never does this, the real client allows it only without labelnames)
    def _plain(self):
        if self._labelnames:
            raise ValueError("metric is missing label values")
        return _Child((self._name, ()), self._kind == "gauge")

    def inc(self, amount=1):
        self._plain().inc(amount)


class Counter(_Metric):
    _kind = "counter"


class Gauge(_Metric):
    _kind = "gauge"

    def dec(self, amount=1):
        self._plain().dec(amount)

    def set(self, v):
        self._plain().set(v)
