#!/usr/bin/env python3
"""Debug spec->code replay drift: tools/dbg_replay.py <check module e.g. c05> <Module> <sim cfg> [n] [seed]"""
import os, sys, json, importlib
os.environ["MORE_EXECUTORS_VERIF"] = "1"
os.environ.setdefault("MORE_EXECUTORS_PROMETHEUS", "0")
sys.path.insert(0, "/repo"); sys.path.insert(0, os.path.dirname(os.path.dirname(os.path.abspath(__file__))))
from mxv import core, tlc
mod = importlib.import_module("mxv.checks." + sys.argv[1])
behs = tlc.simulate_behaviours(sys.argv[2], sys.argv[3], int(sys.argv[4]) if len(sys.argv) > 4 else 10, 150,
                               int(sys.argv[5]) if len(sys.argv) > 5 else 1, timeout=300)
conv = getattr(mod, "convert", None) or mod.converter(*json.loads(os.environ.get("CONV_ARGS", "[1, true]")))
bad = 0
for b in behs:
    task, exp = conv(b)
    task["opts"] = {"ops_log": True}
    r = core.run_task(task)
    if not r["ok"]:
        print(r["failure"]); break
    got = mod.project(r["trace"])
    if got != exp or r["mismatch"]:
        bad += 1
        if bad > int(os.environ.get("SHOW", "1")):
            continue
        print(json.dumps(task["params"]))
        acts = [(s[0], s[1]["actor"]) for s in b[1:]]
        print("spec acts:", [a for a in acts])
        print("ops:", [(o[0], o[1], o[2]) for o in r["ops"]])
        print("first_mismatch", r["first_mismatch"], "mism", r["mismatch"])
        k = 0
        while k < min(len(got), len(exp)) and got[k] == exp[k]:
            k += 1
        print("diverge at", k, "\n exp", exp[max(0,k-2):k + 6], "\n got", got[max(0,k-2):k + 6])
print("drift", bad, "of", len(behs))
