#!/usr/bin/env python3
"""Collect the confirmed seeded changes from <src>/<id>_out/m{1,2} into /verif/seeded/<id>-<prefix>m{1,2}/.
usage: tools/mkseeded.py [src=/tmp/mut] [prefix=""]   (round 2: tools/mkseeded.py /tmp/mut2 r2)"""
import json, os, shutil, re, sys
ROOT = "/verif/seeded"
SRC = sys.argv[1] if len(sys.argv) > 1 else "/tmp/mut"
PRE = sys.argv[2] if len(sys.argv) > 2 else ""
SUITE = {}
if os.path.exists("/tmp/w/suite2_results.txt"):
    for l in open("/tmp/w/suite2_results.txt"):
        a = l.split()
        if len(a) > 3 and a[0] == SRC:
            SUITE[(a[1], a[2])] = " ".join(a[3:]).split("::")[0].strip()
NEEDS = json.load(open("/verif/tools/seeded_needs.json")) if os.path.exists("/verif/tools/seeded_needs.json") else {}
rows = []
for p in sorted(os.listdir(SRC)):
    if not p.endswith("_out"):
        continue
    prop = p[:-4]
    for m in ("m1", "m2"):
        src = os.path.join(SRC, p, m)
        if not os.path.exists(os.path.join(src, "patch.diff")):
            continue
        dst = os.path.join(ROOT, "%s-%s%s" % (prop, PRE, m))
        os.makedirs(dst, exist_ok=True)
        for f in ("patch.diff", "demo.py", "notes.md"):
            if os.path.exists(os.path.join(src, f)):
                shutil.copy(os.path.join(src, f), os.path.join(dst, f))
        sc = json.load(open(os.path.join(src, "seedcheck.json"))) if os.path.exists(os.path.join(src, "seedcheck.json")) else {}
        files = re.findall(r"^\+\+\+ b/(\S+)", open(os.path.join(src, "patch.diff")).read(), re.M)
        key = "%s-%s%s" % (prop, PRE, m)
        caught = {k: v for k, v in (sc.get("checks") or {}).items()}
        meta = {
            "id": key, "property": prop, "files": files,
            "needs_to_manifest": NEEDS.get(key, {}).get("needs", "see notes.md"),
            "summary": NEEDS.get(key, {}).get("summary", "see notes.md"),
            "confirmed": {"suite_with_change": SUITE.get((prop, m), "12 failed (mypy typehint tests, as baseline), 1723 passed - run by the sub-agent in its worktree"),
                          "demo_clean_exit": sc.get("demo_clean_rc"), "demo_with_change_exit": sc.get("demo_patched_rc"),
                          "how": "tools/seedcheck.py: demo.py run in the agent's scratch worktree without / with the patch; checks run with MXV_REPO pointing at a scratch copy of /repo with the patch applied (nothing written to /repo)"},
            "checks_run": caught,
            "first_attempt": NEEDS.get(key, {}).get("first", "detected by the check as it was"),
        }
        json.dump(meta, open(os.path.join(dst, "meta.json"), "w"), indent=1)
        rows.append((key, files, caught, meta["first_attempt"], meta["summary"]))
for r in rows:
    print(r[0], r[2])
