#!/usr/bin/env python3
"""tools/apicov.py [props...]: run the quick checks with MXV_APICOV and report which parameters of the library's public
callables the scenarios exercised, with which kinds of values (see mxv/apicov.py)."""
import glob, json, os, shutil, subprocess, sys, tempfile
props = sys.argv[1:] or ["C%02d" % i for i in range(1, 21)]
tmp = tempfile.mkdtemp(prefix="mxv-apicov-")
try:
    for p in props:
        env = dict(os.environ, MXV_APICOV=tmp, MXV_EVIDENCE_DIR=os.path.join(tmp, "ev"))
        r = subprocess.run(["./check", p, "--tier", "quick"], cwd=os.path.dirname(os.path.dirname(os.path.abspath(__file__))),
                           env=env, stdout=subprocess.PIPE, stderr=subprocess.STDOUT)
        print(p, "rc", r.returncode, file=sys.stderr)
    tot = {}
    for f in glob.glob(os.path.join(tmp, "apicov-*.json")):
        for name, params in json.load(open(f)).items():
            d = tot.setdefault(name, {})
            for pn, kinds in params.items():
                dd = d.setdefault(pn, {})
                for k, n in kinds.items():
                    dd[k] = dd.get(k, 0) + n
    BOUNDARY = {"0", "None", "False", "True", "empty-list", "empty-tuple", "empty-dict", "empty-str", "neg"}
    for name in sorted(tot):
        print(name)
        for pn, kinds in sorted(tot[name].items()):
            passed = {k: v for k, v in kinds.items() if k != "absent"}
            flag = ""
            if not passed:
                flag = "   <-- never passed"
            elif len(passed) == 1 and not (set(passed) & BOUNDARY) and not pn.startswith("*"):
                flag = "   <-- one kind of value only"
            print("    %-18s %s%s" % (pn, " ".join("%s:%d" % kv for kv in sorted(kinds.items())), flag))
    out = os.path.join(os.path.dirname(os.path.dirname(os.path.abspath(__file__))), "out", "apicov.json")
    os.makedirs(os.path.dirname(out), exist_ok=True)
    json.dump(tot, open(out, "w"), indent=1)
finally:
    shutil.rmtree(tmp, ignore_errors=True)
