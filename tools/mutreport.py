#!/usr/bin/env python3
"""tools/mutreport.py <out.jsonl>: summary of a mutation campaign (tools/mutcampaign.py)."""
import json, sys, collections
recs = [json.loads(l) for l in open(sys.argv[1])]
by = collections.Counter()
surv = []
for r in recs:
    if r["tests"] != "pass":
        by["killed by the repository's tests" if r["tests"] == "fail" else r["tests"]] += 1
        continue
    rcs = [c["rc"] for c in r.get("checks", {}).values()]
    if 1 in rcs:
        by["survived the tests, reported by a check"] += 1
    elif 2 in rcs:
        by["survived the tests, check stopped with a machinery error"] += 1
    else:
        by["survived the tests and the checks"] += 1
        surv.append(r)
print("%d mutants" % len(recs))
for k, v in by.most_common():
    print("  %4d  %s" % (v, k))
print()
for r in surv:
    print("%s:%d %s | %s  ->  %s | checks %s" % (r["file"], r["line"], r["kind"], r["before"][:70], r["after"][:40],
                                              ",".join(r.get("checks", {}))))
