"""Stress run of one scenario family on the unchanged tree (not a registered check): usage  PYTHONHASHSEED=0 /venv/bin/python tools/<this file> <seed>.\nPrints the number of violations; used to look for rare false alarms of newly added clauses / scenario families."""
import os, sys, random
os.environ["MORE_EXECUTORS_VERIF"]="1"; os.environ["MORE_EXECUTORS_PROMETHEUS"]="0"
import tempfile; os.environ.setdefault("MXV_EVIDENCE_DIR", tempfile.mkdtemp(prefix="mxv-stress-ev-"))
sys.path.insert(0,"/repo"); sys.path.insert(0,"/verif")
from mxv import core
seed=int(sys.argv[1])
ck=core.Check("C12","thorough",seed,level="model_checking")
rng=random.Random(seed*104729+7)
tasks=[]
for i in range(4000):
    n = rng.choice([1, 2, 2, 3, 3, 4, 5])
    t0 = rng.choice([0, 100])
    cl = []
    for _ in range(n):
        at = t0 + rng.choice([0, 0, 100, 200, 200, 300])
        T = rng.choice([100, 200, 300])
        cl.append({"at": at, "T": T, "D": rng.choice([0, 0, at, at + 100, at + 100, at + T, at + T + 100])})
    strat = ["random", rng.randrange(10 ** 9), 0.5] if i % 3 else ["pct", rng.randrange(10 ** 9), 3, 400]
    tasks.append({"scen": "reclaim", "params": {"kind": "timeout", "mode": "ftshared", "clients": cl},
                  "strat": strat, "gran": ("sync", "line", "line", "instr")[i % 4],
                  "facts": {"kind": "timeout", "ftshared": True, "clients": n}})
ck.run_and_validate(tasks, "ReclaimObsTrace", nontrivial=lambda t, r: True)
print("violations", len(ck.violations), "machinery", ck.machinery_errors[:3])
for v in ck.violations[:10]: print(v["clause"], v["replay"])
core.close_pool()
