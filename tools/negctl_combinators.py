import os, sys, json, copy
os.environ["MORE_EXECUTORS_VERIF"]="1"; os.environ["MORE_EXECUTORS_PROMETHEUS"]="0"
sys.path.insert(0,"/repo"); sys.path.insert(0,"/verif")
from mxv import core, tlc
def run(p, seed=3, gran="sync"):
    r=core.run_task({"scen":"combinators","params":p,"strat":["random",seed,0.5],"gran":gran})
    assert r["ok"], r["failure"]
    return r["trace"]
cases=[]
def add(name, tr, fn, expect):
    c=copy.deepcopy(tr); fn(c); cases.append((name,c,expect))
# --- C14
t_or=run({"op":"or","inputs":[{"kind":2,"at":100},{"kind":1,"at":200},{"kind":0},{"kind":1,"at":300}]})
cases.append(("or: original",t_or,"ok"))
def chg_val(c):
    for e in c:
        if e["ev"]=="Observed" and e["f"]==0 and e["s"]=="FINISHED": e["b"]=4   # the later truthy input's value
add("or: output holds the value of the second truthy input",t_or,chg_val,"C14_Fold")
def chg_val2(c):
    for e in c:
        if e["ev"]=="Observed" and e["f"]==0 and e["s"]=="FINISHED": e["b"]=1   # the falsy input's value
add("or: output holds the falsy value",t_or,chg_val2,"C14_Fold")
def drop_loser(c):
    for i,e in enumerate(c):
        if e["ev"]=="CancelArrived" and e["f"]==3: del c[i]; break
add("or: never-finishing loser gets no cancel()",t_or,drop_loser,"C14_LosersCancelled")
def late_loser(c):
    i=[k for k,e in enumerate(c) if e["ev"]=="CancelArrived" and e["f"]==3][0]
    e=c.pop(i)
    j=[k for k,x in enumerate(c) if x["ev"]=="InputSetRet" and x["f"]==2][0]
    c.insert(j+1,e)
add("or: loser cancelled only after the deciding call returned",t_or,late_loser,"C14_LosersCancelled")
def pend(c):
    c[:]=[e for e in c if not (e["ev"]=="Observed" and e["f"]==0)]
add("or: output never resolves",t_or,pend,"C14_Fold")
t_and=run({"op":"and","inputs":[{"kind":1,"at":100},{"kind":1,"at":200},{"kind":1,"at":300}]})
cases.append(("and: original (all truthy)",t_and,"ok"))
def first(c):
    for e in c:
        if e["ev"]=="Observed" and e["f"]==0 and e["s"]=="FINISHED": e["b"]=1
add("and: output holds the first instead of the last value",t_and,first,"C14_Fold")
t_can=run({"op":"and","inputs":[{"kind":0},{"kind":0},{"kind":1,"at":300}],"cancel_at":100})
cases.append(("and + output cancel: original",t_can,"ok"))
def nofan(c):
    c[:]=[e for e in c if not (e["ev"]=="CancelArrived" and e["f"]==2)]
add("output cancel does not reach input 2",t_can,nofan,"C14_OutputCancelFansOut")
t_one=run({"op":"or","inputs":[{"kind":1,"at":100}]})
def notsame(c):
    for e in c:
        if e["ev"]=="CombRet": e["c"]=0
add("single input not returned as is",t_one,notsame,"C14_SingleInputIdentity")
t_sh=run({"op":"or","inputs":[{"kind":1,"at":100},{"kind":0,"shield":True}]})
cases.append(("or + f_nocancel: original",t_sh,"ok"))
def pierce(c):
    for i,e in enumerate(c):
        if e["ev"]=="CancelArrived" and e["f"]==2:
            x=dict(e); x["s"]="inner"; c.insert(i+1,x); break
add("cancel() reaches the future behind f_nocancel",t_sh,pierce,"C14_NoCancelShield")
# --- C15
t_zip=run({"op":"zip","inputs":[{"kind":1,"at":100},{"kind":2,"at":100},{"kind":1,"at":50}],"pos":[1,2,3,1]})
cases.append(("zip: original",t_zip,"ok"))
def swap(c):
    for e in c:
        if e["ev"]=="OutShape": e["xs"][0],e["xs"][1]=e["xs"][1],e["xs"][0]
add("zip: two positions swapped",t_zip,swap,"C15_Positions")
def dupslot(c):
    for e in c:
        if e["ev"]=="OutShape": e["xs"][3]=e["xs"][2]
add("zip: repeated input's second position holds another value",t_zip,dupslot,"C15_Positions")
def aslist(c):
    for e in c:
        if e["ev"]=="OutShape": e["s"]="list"
add("zip: a list instead of a tuple",t_zip,aslist,"C15_Type")
t_seq=run({"op":"sequence","inputs":[{"kind":1,"at":100},{"kind":2,"at":100}]})
def astuple(c):
    for e in c:
        if e["ev"]=="OutShape": e["s"]="tuple"
add("sequence: a tuple instead of a list",t_seq,astuple,"C15_Type")
t_fail=run({"op":"zip","inputs":[{"kind":3,"at":100},{"kind":1,"at":50},{"kind":3,"at":300}]})
cases.append(("zip first failure: original",t_fail,"ok"))
def second(c):
    for e in c:
        if e["ev"]=="Observed" and e["f"]==0 and e["s"]=="FINISHED": e["b"]=[x["b"] for x in c if x["ev"]=="InputSetCall" and x["f"]==3][0]
add("zip: the later failure wins",t_fail,second,"C15_FirstFailure")
add("zip: output pending although an input failed",t_fail,pend,"C15_FirstFailure")
t_zc=run({"op":"zip","inputs":[{"kind":4,"at":100},{"kind":0}]})
cases.append(("zip input cancelled: original",t_zc,"ok"))
add("zip: output pending although an input was cancelled",t_zc,pend,"C15_CancelledIfInputCancelledFirst")
def nofan2(c):
    c[:]=[e for e in c if not (e["ev"]=="CancelArrived" and e["f"]==2)]
add("zip: cancelled output does not cancel the pending input",t_zc,nofan2,"C15_OutputCancelFansOut")
t_tr=run({"op":"traverse","inputs":[{"kind":1,"at":100},{"kind":2,"at":100},{"kind":1,"at":100}]})
cases.append(("traverse: original",t_tr,"ok"))
def twice(c):
    for i,e in enumerate(c):
        if e["ev"]=="FnCall" and e["k"]==2: c.insert(i,dict(e)); break
add("traverse: fn called twice for element 2",t_tr,twice,"C15_TraverseOncePerElementInOrder")
def skip(c):
    c[:]=[e for e in c if not (e["ev"] in ("FnCall","FnRet") and e["k"]==3)]
add("traverse: fn not called for element 3",t_tr,skip,"C15_TraverseOncePerElementInOrder")
def order(c):
    ks=[i for i,e in enumerate(c) if e["ev"]=="FnCall"]
    c[ks[0]]["k"],c[ks[1]]["k"]=2,1
add("traverse: fn called out of order",t_tr,order,"C15_TraverseOncePerElementInOrder")
t_fr=run({"op":"traverse","inputs":[{"kind":1,"at":100},{"kind":1,"at":100}],"fn_raise":2})
cases.append(("traverse fn raises: original",t_fr,"ok"))
def otherexc(c):
    for e in c:
        if e["ev"]=="Observed" and e["f"]==0: e["b"]+=7
add("traverse: output fails with another exception than fn's",t_fr,otherexc,"C15_TraverseFnException")
v,w=tlc.validate_traces("CombinatorObsTrace",[c for _,c,_ in cases])
bad=0
for (name,c,exp),(vv,st) in zip(cases,v):
    ok = vv==exp
    bad += not ok
    print("%-4s %-62s -> %s (step %d)%s"%("ok" if ok else "MISS",name,vv,st,"" if ok else "   expected "+exp))
print("mismatches:",bad)
