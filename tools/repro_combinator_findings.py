#!/usr/bin/env python3
"""Plain reproductions (no engine, no threads) of the two candidate findings met by the C14 / C15 checks.
Run with the library on sys.path:  /venv/bin/python tools/repro_combinator_findings.py"""
import logging
import sys

sys.path.insert(0, "/repo")
logging.disable(logging.CRITICAL)
from concurrent.futures import Future                                            # noqa: E402
from more_executors.futures import f_or, f_and, f_zip, f_sequence, f_traverse   # noqa: E402
from more_executors.futures import f_nocancel, f_map, f_return                   # noqa: E402

print("N1 (C14): a repeated, already-finished library future makes f_or / f_and raise KeyError")
for label, make in (("f_nocancel(f_return(0))", lambda: f_nocancel(f_return(0))),
                    ("f_map(f_return(0), id) ", lambda: f_map(f_return(0), lambda x: x)),
                    ("plain done Future      ", lambda: f_return(0))):
    d = make()
    try:
        out = f_or(Future(), d, d)
        print("   f_or(pending, d, d)  with d = %s -> returned a future (%s)" % (label, out._state))
    except KeyError as e:
        print("   f_or(pending, d, d)  with d = %s -> KeyError" % label)
t = f_nocancel(f_return(1))
try:
    f_and(Future(), t, t)
    print("   f_and(pending, t, t) with t = f_nocancel(f_return(1)) -> returned a future")
except KeyError:
    print("   f_and(pending, t, t) with t = f_nocancel(f_return(1)) -> KeyError")

print("N2 (C15): an input cancelled first leaves f_sequence / f_traverse pending for ever")
for name, mk in (("f_zip", lambda a, b: f_zip(a, b)), ("f_sequence", lambda a, b: f_sequence([a, b])),
                 ("f_traverse", lambda a, b: f_traverse(lambda x: x, [a, b]))):
    a, b = Future(), Future()
    out = mk(a, b)
    a.cancel()
    print("   %-10s input cancelled -> output state %-10s other input %-10s out.cancel() -> %s, then %s" % (
        name, out._state, b._state, out.cancel(), out._state))
