#!/bin/sh
# usage: tools/seedsweep.sh "<seeds>" [tier]   - run every claimed check for each seed, print one line per run
cd "$(dirname "$0")/.."
TIER=${2:-quick}
for s in $1; do
  for c in C01 C02 C03 C04 C05 C06 C07 C08 C09 C10 C11 C12 C13 C14 C15 C16 C17 C18 C19 C20; do
    out=$(VERIF_SEED=$s MXV_EVIDENCE_DIR=/tmp/mxv-sweep-ev ./check $c --tier $TIER 2>&1)
    rc=$?
    echo "seed=$s $c rc=$rc $(echo "$out" | grep -E '^(OK|VIOLATION|MACHINERY)' | head -2 | cut -c1-220 | tr '\n' ' ')"
  done
done
rm -rf /tmp/mxv-sweep-ev
