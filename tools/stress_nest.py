"""Stress run of one scenario family on the unchanged tree (not a registered check): usage  PYTHONHASHSEED=0 /venv/bin/python tools/<this file> <seed>.\nPrints the number of violations; used to look for rare false alarms of newly added clauses / scenario families."""
import os, sys, random
os.environ["MORE_EXECUTORS_VERIF"]="1"; os.environ["MORE_EXECUTORS_PROMETHEUS"]="0"
import tempfile; os.environ.setdefault("MXV_EVIDENCE_DIR", tempfile.mkdtemp(prefix="mxv-stress-ev-"))
sys.path.insert(0,"/repo"); sys.path.insert(0,"/verif")
from mxv import core
from mxv.checks import c14
seed=int(sys.argv[1])
ck=core.Check("C14","thorough",seed,level="model_checking")
ck.findings = ck.findings + c14.extra_findings()
rng=random.Random(seed*7919+13)
def gen(rng):
    while True:
        p=c14.gen(rng)
        if p.get("nest"):
            # more same-instant completions
            for d in p["inputs"]:
                if rng.random()<0.5: d["at"]=100
            return p
tasks=c14.make_tasks(rng, 6000, gen)
c14.require_complete(ck, ck.run_and_validate(tasks, c14.TRACE))
print("violations", len(ck.violations), "machinery", ck.machinery_errors[:3])
for v in ck.violations[:10]: print(v["clause"], v["replay"])
core.close_pool()
