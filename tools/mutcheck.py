#!/usr/bin/env python3
"""tools/mutcheck.py <prop> <file relative to repo> <old> <new> [tier]: run a check against a scratch copy of /repo
with one textual mutation (negative control; nothing is written to /repo)."""
import os, shutil, subprocess, sys, tempfile
prop, rel, old, new = sys.argv[1:5]
tier = sys.argv[5] if len(sys.argv) > 5 else "quick"
tmp = tempfile.mkdtemp(prefix="mxv-mut-")
try:
    dst = os.path.join(tmp, "repo")
    shutil.copytree("/repo", dst, ignore=shutil.ignore_patterns(".git", "__pycache__", "docs", "tests"))
    p = os.path.join(dst, rel)
    s = open(p).read()
    if old not in s:
        print("PATTERN NOT FOUND"); sys.exit(3)
    open(p, "w").write(s.replace(old, new, 1))
    env = dict(os.environ, MXV_REPO=dst, MXV_EVIDENCE_DIR=os.path.join(tmp, "ev"))
    r = subprocess.run(["./check", prop, "--tier", tier], cwd="/verif", env=env, stdout=subprocess.PIPE, stderr=subprocess.STDOUT)
    out = r.stdout.decode()
    lines = [l for l in out.split("\n") if l.startswith(("VIOLATION", "  clause", "OK ", "MACHINERY", "KNOWN", "("))]
    print("exit", r.returncode)
    print("\n".join(lines[:8]))
finally:
    shutil.rmtree(tmp, ignore_errors=True)
