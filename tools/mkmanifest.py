#!/usr/bin/env python3
"""Regenerate MANIFEST.json from tools/claims.json (claimed checks) and properties.jsonl."""
import json, os
R = os.path.dirname(os.path.dirname(os.path.abspath(__file__)))
props = [json.loads(l) for l in open(os.path.join(R, "properties.jsonl"))]
claims = json.load(open(os.path.join(R, "tools", "claims.json")))
import glob
for fn in sorted(glob.glob(os.path.join(R, "tools", "claims.d", "*.json"))):
    claims.update(json.load(open(fn)))
checks, na = [], []
for p in props:
    c = claims.get(p["id"])
    if c and c.get("claimed"):
        checks.append({
            "property_id": p["id"],
            "quick_cmd": "./check %s --tier quick" % p["id"],
            "thorough_cmd": "./check %s --tier thorough" % p["id"],
            "evidence_file": "/verif/evidence/%s.json" % p["id"],
            "replay_cmd_template": "./check %s --replay {path}" % p["id"],
            "engine": "mxv",
            "level_claimed": {"category": c.get("level", "model_checking"), "text": c["text"], "design_ref": c.get("design_ref", "DESIGN.md section 6")},
            "level_note": c["note"],
            "technique": c["technique"],
        })
    else:
        na.append({"property_id": p["id"], "reason": (c or {}).get("reason", "check not built yet (work in progress; see DESIGN.md section 11)")})
m = {
    "version": 1,
    "setup_cmd": "./setup.sh",
    "hooks": {
        "guard": "MORE_EXECUTORS_VERIF",
        "enable": "no source hooks in /repo: ./check sets MORE_EXECUTORS_VERIF=1 in its own process and mxv.engine.install() substitutes controlled threading/time primitives into the imported library by module-attribute substitution",
        "baseline_off_cmd": "cd /repo && env -u MORE_EXECUTORS_VERIF /venv/bin/python -m pytest -ra -q -p no:cacheprovider --timeout=900 --continue-on-collection-errors",
        "source_commits": [],
        "add_only": True,
    },
    "engines": [{"name": "mxv", "path": "/verif/mxv", "serves_properties": [c["property_id"] for c in checks],
                 "kind_free_text": "explicit TLA+ specifications (spec/*.tla) checked by TLC; conformance engine = deterministic cooperative scheduler + virtual clock driving the unmodified library; recorded executions validated by TLC against the contract modules; TLC behaviours replayed as schedules"}],
    "checks": checks,
    "not_applicable": na,
    "notes": "See DESIGN.md.  Exit codes: 0 property held on everything explored, 1 VIOLATION, 2 machinery failure.",
}
json.dump(m, open(os.path.join(R, "MANIFEST.json"), "w"), indent=1)
print("claimed:", [c["property_id"] for c in checks])
