#!/usr/bin/env python3
"""tools/mutcampaign.py <out.jsonl> [files...]   - systematic syntactic mutation campaign (negative controls at scale).

For every selected source file of the library: generate one-statement mutants (delete a call statement, drop a
`with <lock>:`, negate an `if`, flip a returned boolean), run the repository's RELEVANT tests on a scratch copy, and for
the mutants those tests do not notice run the quick checks of the properties anchored in that file against the copy
(MXV_REPO).  Nothing is written to /repo.  One JSON line per mutant: {file, line, kind, before, tests, checks}.
Survivors of both are either equivalent mutants or gaps of the checks; they are listed by tools/mutreport.py.
"""
import ast
import json
import os
import shutil
import subprocess
import sys
import tempfile
from concurrent.futures import ThreadPoolExecutor

REPO = "/repo"
IMPL = "more_executors/_impl/"
MAP = {
    "retry.py": (["tests/retry", "tests/test_executor.py"], ["C05", "C06", "C03", "C12", "C18"]),
    "poll.py": (["tests/test_poll.py", "tests/test_executor.py"], ["C08", "C03", "C06", "C18"]),
    "throttle.py": (["tests/test_throttle.py", "tests/test_throttle_dynamic.py", "tests/test_executor.py"],
                    ["C07", "C03", "C06"]),
    "timeout.py": (["tests/test_timeout.py", "tests/test_executor.py"], ["C09", "C03", "C11"]),
    "cancel_on_shutdown.py": (["tests/test_cancel_on_shutdown.py", "tests/test_executor.py"], ["C10", "C11", "C04"]),
    "common.py": (["tests/test_executor.py", "tests/futures", "tests/test_map.py"], ["C02", "C03", "C06", "C13", "C04"]),
    "map.py": (["tests/test_map.py", "tests/futures/test_map.py", "tests/test_executor.py"], ["C13", "C02", "C06", "C03"]),
    "flat_map.py": (["tests/test_flat_map.py", "tests/futures/test_flat_map.py", "tests/test_executor.py"], ["C13", "C06"]),
    "helpers.py": (["tests/test_helpers.py", "tests/test_executor.py", "tests/test_executor_threadleak.py"],
                   ["C11", "C12", "C10", "C04"]),
    "event.py": (["tests/test_executor_threadleak.py", "tests/test_executor.py"], ["C12"]),
    "futures/bool.py": (["tests/futures/test_and.py", "tests/futures/test_or.py"], ["C14", "C02"]),
    "futures/zip.py": (["tests/futures/test_zip.py", "tests/futures/test_traverse.py"], ["C15", "C02"]),
    "futures/base.py": (["tests/futures"], ["C14", "C15", "C02"]),
    "futures/apply.py": (["tests/futures/test_apply.py"], ["C16"]),
    "futures/proxy.py": (["tests/futures/test_proxy.py"], ["C17"]),
    "futures/nocancel.py": (["tests/futures/test_nocancel.py"], ["C17"]),
    "futures/sequence.py": (["tests/futures/test_traverse.py"], ["C15"]),
    "bind.py": (["tests/test_bind.py", "tests/test_executors.py"], ["C19"]),
}
SKIP_CALLS = ("_log.", "LOG.", "log.debug", "log.info", "logging.", "super(", "warnings.")


def mutants_of(rel, cap=int(os.environ.get("MXV_CAMP_CAP", "30"))):
    path = os.path.join(REPO, IMPL, rel)
    src = open(path).read()
    lines = src.split("\n")
    tree = ast.parse(src)
    out = []
    for node in ast.walk(tree):
        ln = getattr(node, "lineno", None)
        if ln is None or getattr(node, "end_lineno", ln) != ln:
            continue
        text = lines[ln - 1]
        indent = text[:len(text) - len(text.lstrip())]
        body = text.strip()
        if isinstance(node, ast.Expr) and isinstance(node.value, ast.Call):
            if any(s in body for s in SKIP_CALLS) or body.startswith(('"', "'")):
                continue
            out.append((ln, "delete", indent + "pass"))
        elif isinstance(node, ast.Return) and isinstance(node.value, ast.Constant) and isinstance(node.value.value, bool):
            out.append((ln, "flip", indent + "return " + str(not node.value.value)))
    for node in ast.walk(tree):
        if isinstance(node, ast.With):
            ln = node.lineno
            text = lines[ln - 1]
            if text.rstrip().endswith(":") and ("lock" in text.lower()) and "ensure_alive" not in text:
                indent = text[:len(text) - len(text.lstrip())]
                out.append((ln, "nolock", indent + "if True:"))
        elif isinstance(node, ast.If):
            ln = node.lineno
            text = lines[ln - 1]
            body = text.strip()
            if body.startswith("if ") and body.endswith(":") and getattr(node.test, "end_lineno", ln) == ln:
                indent = text[:len(text) - len(text.lstrip())]
                out.append((ln, "negate", indent + "if not (" + body[3:-1] + "):"))
    out = sorted(set(out))
    if len(out) > cap:      # spread evenly, deterministically
        step = len(out) / float(cap)
        out = [out[int(i * step)] for i in range(cap)]
    return [(ln, kind, new, lines[ln - 1]) for (ln, kind, new) in out]


def run_one(job):
    rel, ln, kind, new, before = job
    tests, props = MAP[rel]
    metrics_only = "metrics." in before or "track_future" in before
    if metrics_only:
        props = ["C20"]
    tmp = tempfile.mkdtemp(prefix="mxv-camp-")
    rec = {"file": rel, "line": ln, "kind": kind, "before": before.strip(), "after": new.strip()}
    try:
        dst = os.path.join(tmp, "repo")
        shutil.copytree(REPO, dst, ignore=shutil.ignore_patterns(".git", "__pycache__", "docs"))
        p = os.path.join(dst, IMPL, rel)
        lines = open(p).read().split("\n")
        lines[ln - 1] = new
        open(p, "w").write("\n".join(lines))
        c = subprocess.run(["/venv/bin/python", "-c", "import ast,sys; ast.parse(open(sys.argv[1]).read())", p],
                           stdout=subprocess.PIPE, stderr=subprocess.STDOUT)
        if c.returncode != 0:
            rec["tests"] = "syntax"
            return rec
        env = dict(os.environ, PYTHONDONTWRITEBYTECODE="1")
        try:
            t = subprocess.run(["/venv/bin/python", "-m", "pytest", "-q", "-x", "-p", "no:cacheprovider", "--timeout=120"]
                               + tests, cwd=dst, env=env, stdout=subprocess.PIPE, stderr=subprocess.STDOUT, timeout=900)
            tail = t.stdout.decode("utf-8", "replace").strip().split("\n")[-1]
            rec["tests"] = "pass" if t.returncode == 0 else "fail"
            rec["tests_tail"] = tail[:120]
        except subprocess.TimeoutExpired:
            rec["tests"] = "fail"
            rec["tests_tail"] = "timeout"
        if rec["tests"] != "pass":
            return rec
        rec["checks"] = {}
        for prop in props:
            env2 = dict(os.environ, MXV_REPO=dst, MXV_EVIDENCE_DIR=os.path.join(tmp, "ev"), VERIF_SEED="0")
            try:
                r = subprocess.run(["./check", prop, "--tier", "quick"], cwd=os.environ.get("MXV_VERIF_ROOT", "/verif"), env=env2, stdout=subprocess.PIPE,
                                   stderr=subprocess.STDOUT, timeout=1500)
                out = r.stdout.decode("utf-8", "replace")
                clauses = sorted(set(l.split("clause=")[1].split()[0] for l in out.split("\n") if "clause=" in l))
                rec["checks"][prop] = {"rc": r.returncode, "clauses": clauses[:4]}
                if r.returncode == 2:
                    rec["checks"][prop]["err"] = [l for l in out.split("\n") if l.startswith("MACHINERY")][:1]
            except subprocess.TimeoutExpired:
                rec["checks"][prop] = {"rc": -1, "clauses": ["timeout"]}
            if rec["checks"][prop]["rc"] in (1, 2):
                break       # detected (2 = the mutant broke the machinery's own expectations: also noticed)
        return rec
    finally:
        shutil.rmtree(tmp, ignore_errors=True)


def main():
    outp = sys.argv[1]
    files = sys.argv[2:] or sorted(MAP)
    jobs = []
    for rel in files:
        for (ln, kind, new, before) in mutants_of(rel):
            jobs.append((rel, ln, kind, new, before))
    done = set()
    if os.path.exists(outp):
        for l in open(outp):
            d = json.loads(l)
            done.add((d["file"], d["line"], d["kind"]))
    jobs = [j for j in jobs if (j[0], j[1], j[2]) not in done]
    print("%d mutants to run" % len(jobs), flush=True)
    with open(outp, "a") as fh, ThreadPoolExecutor(int(os.environ.get("MXV_CAMP_PAR", "3"))) as ex:
        for rec in ex.map(run_one, jobs):
            fh.write(json.dumps(rec) + "\n")
            fh.flush()


if __name__ == "__main__":
    main()
