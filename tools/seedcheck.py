#!/usr/bin/env python3
"""tools/seedcheck.py <mutation dir with patch.diff, demo.py> <worktree> <props comma-separated> [tier] [seeds]
Confirm a seeded change (demo passes without / fails with it, in the given scratch worktree) and run the listed
checks against a scratch copy of /repo with the change applied (nothing is written to /repo)."""
import os, shutil, subprocess, sys, tempfile, json
mdir, wt, props = sys.argv[1], sys.argv[2], sys.argv[3].split(",")
tier = sys.argv[4] if len(sys.argv) > 4 else "quick"
seeds = [int(x) for x in (sys.argv[5].split(",") if len(sys.argv) > 5 else ["0"])]
VROOT = os.environ.get("MXV_VERIF_ROOT", "/verif")     # a snapshot of /verif may be used for long background sweeps
patch = os.path.join(mdir, "patch.diff")
demo = os.path.join(mdir, "demo.py")
res = {"dir": mdir}


def run(cmd, **kw):
    return subprocess.run(cmd, stdout=subprocess.PIPE, stderr=subprocess.STDOUT, **kw)


run(["git", "-C", wt, "checkout", "--", "."])
r0 = run(["timeout", "120", "/venv/bin/python", demo], cwd=mdir)
a = run(["git", "-C", wt, "apply", patch])
r1 = run(["timeout", "120", "/venv/bin/python", demo], cwd=mdir)
run(["git", "-C", wt, "checkout", "--", "."])
res["demo_clean_rc"], res["demo_patched_rc"], res["apply_rc"] = r0.returncode, r1.returncode, a.returncode
print("demo: clean rc=%d, patched rc=%d (apply rc=%d) %s" % (r0.returncode, r1.returncode, a.returncode,
                                                            r1.stdout.decode()[-150:].strip().replace("\n", " | ")))
tmp = tempfile.mkdtemp(prefix="mxv-seed-")
try:
    dst = os.path.join(tmp, "repo")
    shutil.copytree("/repo", dst, ignore=shutil.ignore_patterns(".git", "__pycache__", "docs", "tests"))
    p = run(["patch", "-p1", "-i", patch], cwd=dst)
    if p.returncode != 0:
        print("PATCH FAILED on /repo copy:", p.stdout.decode()[-300:])
    res["checks"] = {}
    for prop in props:
        for seed in seeds:
            env = dict(os.environ, MXV_REPO=dst, MXV_EVIDENCE_DIR=os.path.join(tmp, "ev"), VERIF_SEED=str(seed))
            r = run(["./check", prop, "--tier", tier], cwd=VROOT, env=env)
            out = r.stdout.decode()
            clauses = sorted(set(l.split("clause=")[1].split()[0] for l in out.split("\n") if "clause=" in l))
            tot = [l for l in out.split("\n") if "violating executions" in l]
            print("  %s seed=%d tier=%s -> exit %d %s %s" % (prop, seed, tier, r.returncode, clauses, tot[:1]))
            res["checks"]["%s/%d" % (prop, seed)] = {"rc": r.returncode, "clauses": clauses}
            if r.returncode == 2:
                print("\n".join(l for l in out.split("\n") if l.startswith("MACHINERY"))[:600])
finally:
    shutil.rmtree(tmp, ignore_errors=True)
json.dump(res, open(os.path.join(mdir, "seedcheck.json"), "w"), indent=1)
