#!/usr/bin/env python3
"""Regenerate the table of seeded changes in DESIGN.md (between the SEEDED-TABLE markers) from seeded/*/meta.json."""
import json, os, re
ROOT = os.path.dirname(os.path.dirname(os.path.abspath(__file__)))
rows = []
for d in sorted(os.listdir(os.path.join(ROOT, "seeded"))):
    mp = os.path.join(ROOT, "seeded", d, "meta.json")
    if not os.path.exists(mp):
        continue
    m = json.load(open(mp))
    caught = []
    for k, v in sorted((m.get("checks_run") or {}).items()):
        if v.get("rc") == 1:
            caught.append("%s `%s`" % (k.split("/")[0], ", ".join(v.get("clauses") or [])))
    first = m.get("first_attempt", "")
    first = "as built" if first.startswith("detected by the check as it was") else first[len("as built"):].strip(": ") and "as built - " + first[len("as built"):].strip(": ") if first.startswith("as built") else first if first.startswith(("detected", "NOT DETECTED", "as ")) else "**missed at first** - " + first.replace("missed; ", "").replace("missed ", "", 1)
    rows.append("| %s | %s | %s | %s | %s |" % (m["id"], m.get("summary", "").replace("|", "/"), m.get("needs_to_manifest", "").replace("|", "/"),
                                             "; ".join(caught) or "-", first.replace("|", "/")))
table = "| change | what it does | needs | caught by (quick) | first attempt |\n| --- | --- | --- | --- | --- |\n" + "\n".join(rows)
p = os.path.join(ROOT, "DESIGN.md")
s = open(p).read()
b, e = "<!-- SEEDED-TABLE-BEGIN -->", "<!-- SEEDED-TABLE-END -->"
if b in s:
    s = s[:s.index(b) + len(b)] + "\n" + table + "\n" + s[s.index(e):]
    open(p, "w").write(s)
    print("table regenerated: %d rows" % len(rows))
else:
    print("markers not found")
