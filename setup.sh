#!/bin/sh
# Offline setup: verify tools, parse every spec with SANY, byte-compile the engine.  No installs.
set -e
cd "$(dirname "$0")"
command -v java >/dev/null
test -f /opt/veriftools/tla/tla2tools.jar
test -x /venv/bin/python
/venv/bin/python -m compileall -q mxv >/dev/null
cd spec
for f in *.tla; do
  out=$(java -cp /opt/veriftools/tla/tla2tools.jar:/opt/veriftools/tla/CommunityModules-deps.jar tla2sany.SANY "$f" 2>&1) || { echo "$out" | tail -20; echo "SANY failed on $f"; exit 1; }
  if echo "$out" | grep -q -E "Semantic errors|Parse Error|Fatal"; then echo "$out" | tail -20; echo "SANY failed on $f"; exit 1; fi
done
echo "setup ok"
