---------------------------- MODULE MetricsObs ----------------------------
(* Contract of C20: "Metrics: gauges return to reality at quiescence, counters match events".

   The library runs on top of a stand-in prometheus_client whose registry the harness can read.  The harness
   puts a transparent tap executor under the client and between any two layers of every executor stack, so
   that *every* future a layer creates and every submit / shutdown a layer performs on its delegate is seen
   at the API boundary.  Label sets are encoded as small integers:

       k = type id    1 sync  2 threadpool  3 map  4 flat_map  5 retry  6 poll  7 throttle  8 timeout
                      9 cancel_on_shutdown  10 zip  11 or  12 and   (0 = a delegate the library does not label)
       c = executor id  (1.. = the scenario's own executors, every one has its own name;
                         90 = "default", the label of the outputs of f_zip / f_or / f_and / f_map)

   Events (fixed record, see ObsKit):
     ExecCreated(k, c)                  the constructor of executor (k, c) returned
     ExecShutdownCall(k, c) / ExecShutdownRet(k, c)     shutdown() of executor (k, c) was entered / returned
     FutCreated(f, k, c, b)             layer (k, c) returned the new future f; b = the future of the layer above
                                        on whose behalf it was created (0: a client submission / combinator call)
     FutState(f, s, a)                  future f was seen in a new state s (a = 1: finished with an exception)
     LowerSubmit(f)                     the layer owning future f called submit() on its delegate for it
     FnCall(s = "poll", c, a)           the poll function of poll executor c was called (a = 1: it will raise)
     CancelArrivedRet(f, k, c, a, b, r) a cancel() call on future f of layer (k, c) returned a (1 = True); only calls
                                        that are not made from inside another cancel() are reported under this
                                        name (nested ones come from done-callbacks, e.g. f_or cancelling its inputs);
                                        r = role of the calling thread ("timeout": a TimeoutExecutor's thread);
                                        b = id of the CancelOnShutdownExecutor whose shutdown() is making the
                                        call on one of the futures it returned, else -1
     Metric(s, k, c, a)                 value a of the metric child s{type k, executor c} read from the registry
                                        at a QUIESCENT point: the main thread waited until no other thread can
                                        run without the clock advancing, then read the whole registry
     MetricNegative(s, k, c)            gauge child s{k, c} was below zero at some moment since the last reset

   The clauses constrain Metric / MetricNegative events only.  Where the order of the harness' own events is
   not determined by the calls (a layer's thread may use a future before the submit() that created it has
   returned to the tap) the contract only accumulates and judges at the quiescent point.

   Reading of the three queue-like gauges, never stricter than the statement / the user guide:
     exec_inprogress  "created and shutdown() not yet called": between created - #ShutdownCall and
                      created - #ShutdownRet (equal at quiescence unless a shutdown() is still blocked)
     retry_queue      the code counts every job of a pending future, in flight or waiting; the user guide says
                      "waiting to retry".  Accepted: anything between the number of pending retry futures with
                      no attempt in flight and the number of pending retry futures.  Both are 0 once every
                      future is terminal.
     throttle_queue   futures accepted, not terminal and not yet handed to the delegate.
*)
EXTENDS ObsKit

T_RETRY == 5
T_THROTTLE == 7
T_TIMEOUT == 8

Key(k, c) == k * 100 + c

ObsInit == [fkey |-> EmptyMap,     \* future -> Key(type, executor)
            fpar |-> EmptyMap,     \* future -> parent future (0 = none)
            term |-> {},           \* futures seen in a terminal state
            canc |-> {},           \* ... whose terminal state is cancelled
            fail |-> {},           \* ... finished with an exception
            nlow |-> EmptyMap,     \* future -> number of submit() calls made to the delegate on its behalf
            execs |-> {},          \* <<Key, instance>> of executors created (several objects may share a name = a label)
            shc |-> {}, shr |-> {},\* <<Key, instance>> of executors whose shutdown() was entered / has returned
            polls |-> EmptyMap, pollerr |-> EmptyMap,   \* executor id -> calls / raising calls of the poll fn
            wasdone |-> EmptyMap,  \* <<thread, f>> -> was f already done when that thread's pending cancel() of it arrived
            shterm |-> EmptyMap,   \* executor id of a CancelOnShutdownExecutor -> the futures that were already terminal when its
                                   \* shutdown() was called
            cdepth |-> EmptyMap,   \* <<thread, f>> -> cancel() calls of f that thread is inside of (a done-callback of the
                                   \* future being cancelled may cancel the same future again: only the outermost counts)
            tmo |-> EmptyMap,      \* executor id -> cancels by the timeout thread that returned True
            scan |-> EmptyMap]     \* executor id -> cancels by CancelOnShutdown.shutdown() that returned True

Bump(m, key) == Put(m, key, Get(m, key, 0) + 1)

ObsNext(st, e) ==
  CASE e.ev = "FutCreated" -> [st EXCEPT !.fkey = Put(@, e.f, Key(e.k, e.c)), !.fpar = Put(@, e.f, e.b)]
    [] e.ev = "FutState" /\ e.s \in Terminal /\ e.f \notin st.term ->
          [st EXCEPT !.term = @ \cup {e.f},
                     !.canc = IF e.s \in CancelledStates THEN @ \cup {e.f} ELSE @,
                     !.fail = IF e.s = "FINISHED" /\ e.a = 1 THEN @ \cup {e.f} ELSE @]
    [] e.ev = "LowerSubmit" -> [st EXCEPT !.nlow = Bump(@, e.f)]
    [] e.ev = "ExecCreated" -> [st EXCEPT !.execs = @ \cup {<<Key(e.k, e.c), e.b>>}]
    [] e.ev = "ExecShutdownCall" ->
          [st EXCEPT !.shc = @ \cup {<<Key(e.k, e.c), e.b>>},
                     !.shterm = IF e.k = 9 /\ ~Has(@, e.c) THEN Put(@, e.c, st.term) ELSE @]
    \* (a shutdown() that raised - called from one of the executor's own threads, which cannot join itself - has ended too)
    [] e.ev \in {"ExecShutdownRet", "ExecShutdownRaise"} -> [st EXCEPT !.shr = @ \cup {<<Key(e.k, e.c), e.b>>}]
    [] e.ev = "FnCall" /\ e.s = "poll" ->
          [st EXCEPT !.polls = Bump(@, e.c), !.pollerr = IF e.a = 1 THEN Bump(@, e.c) ELSE @]
    [] e.ev = "CancelArrived" ->
          [st EXCEPT !.wasdone = IF Get(st.cdepth, <<e.thr, e.f>>, 0) = 0 THEN Put(@, <<e.thr, e.f>>, e.a = 1) ELSE @,
                     !.cdepth = Put(@, <<e.thr, e.f>>, Get(st.cdepth, <<e.thr, e.f>>, 0) + 1)]
    [] e.ev = "NestedCancelRet" \/ (e.ev = "CancelArrivedRet" /\ e.a # 1) ->
          [st EXCEPT !.cdepth = Put(@, <<e.thr, e.f>>, Max(Get(st.cdepth, <<e.thr, e.f>>, 0) - 1, 0))]
    \* a timeout "succeeded" when the timeout thread's cancel() cancelled a future that was not done yet (cancel() also
    \* answers True on a future somebody else had cancelled already: that is not a timeout)
    [] e.ev = "CancelArrivedRet" /\ e.a = 1 ->
          [st EXCEPT !.tmo = IF e.r = "timeout" /\ e.k = T_TIMEOUT /\ ~Get(st.wasdone, <<e.thr, e.f>>, FALSE) THEN Bump(@, e.c) ELSE @,
                     \* (a shutdown-cancel is a True from the sweep's cancel() on a future that was still alive when shutdown()
                     \*  was called - whether this call cancelled it or the sweep's earlier cancels did, through a combinator
                     \*  that propagates.  A future the user had cancelled BEFORE the shutdown is not one, although cancel()
                     \*  answers True for it)
                     !.scan = IF e.b >= 0 /\ e.f \notin Get(st.shterm, e.b, {}) THEN Bump(@, e.b) ELSE @,
                     !.cdepth = Put(@, <<e.thr, e.f>>, Max(Get(st.cdepth, <<e.thr, e.f>>, 0) - 1, 0))]
    [] OTHER -> st

\* ------------------------------------------------------------------ what the events say the numbers must be
FutsOf(st, key) == {f \in DOMAIN st.fkey : st.fkey[f] = key}
Pending(st, key) == FutsOf(st, key) \ st.term
Children(st, p) == {f \in DOMAIN st.fpar : st.fpar[f] = p}
B(x) == IF x THEN 1 ELSE 0
NOf(S, key) == Cardinality({x \in S : x[1] = key})     \* executor objects with that label in S

RECURSIVE SumRetries(_, _)
SumRetries(st, S) ==       \* every submit to the delegate after the first one of a future is a retry
  IF S = {} THEN 0
  ELSE LET x == CHOOSE y \in S : TRUE
       IN (IF Get(st.nlow, x, 0) > 1 THEN Get(st.nlow, x, 0) - 1 ELSE 0) + SumRetries(st, S \ {x})

\* pending retry futures with no attempt in flight: every submit made for them produced a future and that future
\* has finished.  A future one of whose attempts was *cancelled* is not counted: the executor never retries a
\* cancelled attempt, so such a future waits for nothing (if somebody else cancelled the attempt it is simply
\* lost, defect D3) and the gauge may or may not still include its job.
RetryWaiting(st, c) ==
  {f \in Pending(st, Key(T_RETRY, c)) :
      /\ Get(st.nlow, f, 0) = Cardinality(Children(st, f))
      /\ \A ch \in Children(st, f) : ch \in st.term /\ ch \notin st.canc}
\* accepted by the throttle executor, not terminal, not handed over
ThrottleQueued(st, c) == {f \in Pending(st, Key(T_THROTTLE, c)) : Get(st.nlow, f, 0) = 0}

Gauges == {"future_inprogress", "exec_inprogress", "retry_queue", "throttle_queue"}

GaugeOK(st, e) ==
  LET key == Key(e.k, e.c) IN
  CASE e.s = "future_inprogress" -> e.a = Cardinality(Pending(st, key))
    [] e.s = "exec_inprogress" -> /\ e.a >= NOf(st.execs, key) - NOf(st.shc, key)
                                  /\ e.a <= NOf(st.execs, key) - NOf(st.shr, key)
    [] e.s = "retry_queue" -> /\ e.a >= Cardinality(RetryWaiting(st, e.c))
                              /\ e.a <= Cardinality(Pending(st, Key(T_RETRY, e.c)))
    [] e.s = "throttle_queue" -> e.a = Cardinality(ThrottleQueued(st, e.c))
    [] OTHER -> TRUE

CounterOK(st, e) ==
  LET key == Key(e.k, e.c) IN
  CASE e.s = "future_total" -> e.a = Cardinality(FutsOf(st, key))
    [] e.s = "future_cancel" -> e.a = Cardinality(FutsOf(st, key) \cap st.canc)
    [] e.s = "future_error" -> e.a = Cardinality(FutsOf(st, key) \cap st.fail)
    [] e.s = "exec_total" -> e.a = NOf(st.execs, key)
    [] e.s = "retry_total" -> e.a = SumRetries(st, FutsOf(st, Key(T_RETRY, e.c)))
    [] e.s = "poll_total" -> e.a = Get(st.polls, e.c, 0)
    [] e.s = "poll_error" -> e.a = Get(st.pollerr, e.c, 0)
    [] e.s = "timeout" -> e.a = Get(st.tmo, e.c, 0)
    [] e.s = "shutdown_cancel" -> e.a = Get(st.scan, e.c, 0)
    [] OTHER -> TRUE

Clauses(st, e) ==
  << <<"C20_GaugeNonNegative",
        /\ e.ev # "MetricNegative"
        /\ (e.ev = "Metric" /\ e.s \in Gauges) => e.a >= 0>>,
     <<"C20_GaugeMatchesAtQuiescence",
        (e.ev = "Metric" /\ e.s \in Gauges) => GaugeOK(st, e)>>,
     <<"C20_CounterMatchesEvents",
        (e.ev = "Metric" /\ e.s \notin Gauges) => CounterOK(st, e)>> >>
=============================================================================
