---------------------------- MODULE Timeout ----------------------------
(* Implementation-shaped specification of TimeoutExecutor (more_executors/_impl/timeout.py) at the
   granularity of the conformance engine's *visible* synchronisation operations:

       visible primitives = the shutdown gate (ShutdownHelper._lock, held for the whole of submit()),
                            executor._jobs_lock (Lock), executor._jobs_write (Event),
                            plus the virtual-time sleeps of the driver threads.

   One action = "thread t performs its pending visible operation and runs up to (not including) its
   next one".  Lock releases happen inside the step that reaches them.  Future-level locking
   (_me_lock, the stdlib condition) is not visible here: cancel() and set_result() of one future
   exclude each other in the code, so each is atomic in this model.

   Threads:   <<"sub", j>>   client submitting job j at virtual time cfgS[j] with timeout cfgT[j]
              <<"env", j>>   the delegate's work for job j: finishes cfgD[j] ticks after submission
                             (0 = never); cfgC[j] says whether the delegate future can be cancelled
              LOOP           TimeoutExecutor._job_loop
              OBS            the harness' observer that ends the execution at Horizon
   The scenario (cfgT, cfgS, cfgD, cfgC) is chosen in Init, so one TLC run covers a family of
   deadline sets / submit times / completion times.

   Time: `now` in ticks; a timed wait of d ticks gets the deadline now + d + 1 (never early, one tick
   late); Tick is enabled only when nothing else is (maximal progress) and jumps to the earliest
   pending deadline.  Event semantics are CPython's, two-phase: wait() first looks at the flag
   (l_wait: not yet a waiter); only if it is clear does the thread register and block (l_blocked);
   set() wakes a registered waiter even if a clear() follows before it runs (`woken`).

   Ghost state: obs/viol are the contract TimeoutObs fed with the events the actions generate;
   TLC checks  viol = "ok"  on every reachable state, i.e. every clause of C09 on every interleaving.
*)
EXTENDS TimeoutObs

CONSTANTS Jobs,          \* e.g. 1..3
          TimeoutVals,   \* candidate timeouts (ticks)
          SubmitTimes,   \* candidate submit times
          Durs,          \* candidate work durations (0 = never finishes)
          CancelVals,    \* subset of BOOLEAN: may the delegate future be cancelled
          SubmitDelays,  \* candidate durations of the delegate's own submit() (virtual time spent inside
                         \* submit_timeout before the returned future exists; 0 = none)
          CancelDurs,    \* candidate durations of the delegate future's cancel() (0 = instant; > 0: it takes that
                         \* long and refuses in the end - a remote cancel that is turned down)
          Horizon,       \* the observer ends the run here
          KeepHist,      \* keep the event history (simulation / replay only)
          Bug            \* "none" or the name of a seeded model bug (negative controls)

NoOne == <<"none", 0>>
LOOP == <<"loop", 0>>
OBS  == <<"obs", 0>>
Sub(j) == <<"sub", j>>
Env(j) == <<"env", j>>
Threads == {LOOP, OBS} \cup {Sub(j) : j \in Jobs} \cup {Env(j) : j \in Jobs}

VARIABLES cfgT, cfgS, cfgD, cfgC, cfgSD, cfgCD, sdl,
          pc, jobs, dl, lock, gate, evt, woken, jst, overdue, lpend, wt, wdl, edl, now,
          cur, cdl,      \* the job whose slow cancel() the loop thread is inside, and when that call returns
          pnow,          \* the clock reading of the latest partition (Bug = "stale_now" computes the sleep from it)
          obs, viol, hist, actor

cfg  == <<cfgT, cfgS, cfgD, cfgC, cfgSD, cfgCD>>
slow == <<cur, cdl, pnow>>
vars == <<cfgT, cfgS, cfgD, cfgC, cfgSD, cfgCD, sdl, pc, jobs, dl, lock, gate, evt, woken, jst, overdue, lpend, wt, wdl, edl, now,
          cur, cdl, pnow, obs, viol, hist, actor>>

RECURSIVE Feed(_, _, _)
Feed(o, v, evs) ==
  IF evs = <<>> THEN <<o, v>>
  ELSE LET e == Head(evs)
           ff == FirstFailed(Clauses(o, e))
       IN Feed(ObsNext(o, e), IF v = "ok" THEN ff ELSE v, Tail(evs))
Emit(evs) ==
  LET r == Feed(obs, viol, evs) IN
    /\ obs' = r[1] /\ viol' = r[2]
    /\ hist' = IF KeepHist THEN hist \o [i \in 1..Len(evs) |-> <<evs[i].ev, evs[i].f, evs[i].t>>] ELSE hist

Init ==
  /\ cfgT \in [Jobs -> TimeoutVals] /\ cfgS \in [Jobs -> SubmitTimes]
  /\ cfgD \in [Jobs -> Durs] /\ cfgC \in [Jobs -> CancelVals]
  /\ cfgSD \in [Jobs -> SubmitDelays] /\ sdl = [j \in Jobs |-> -1]
  /\ cfgCD \in [Jobs -> CancelDurs] /\ cur = 0 /\ cdl = -1 /\ pnow = 0
  /\ pc = [t \in Threads |-> IF t = LOOP THEN "l_top" ELSE IF t = OBS THEN "o_sleep"
                              ELSE IF t[1] = "sub" THEN "s_sleep" ELSE "e_idle"]
  /\ jobs = <<>> /\ dl = [j \in Jobs |-> 0] /\ lock = "none" /\ gate = NoOne /\ evt = FALSE /\ woken = FALSE
  /\ jst = [j \in Jobs |-> "new"] /\ overdue = <<>> /\ lpend = <<>> /\ wt = -1 /\ wdl = -1
  /\ edl = [j \in Jobs |-> -1] /\ now = 0
  /\ obs = ObsInit /\ viol = "ok" /\ hist = <<>> /\ actor = <<"-", 0>>

LoopWaiting == pc[LOOP] = "l_blocked"
SetEvent == evt' = TRUE /\ woken' = (woken \/ LoopWaiting)

\* ------------------------------------------------------------------ submit_timeout()
G_SSleep(j) == pc[Sub(j)] = "s_sleep" /\ now >= cfgS[j]
SSleep(j) ==   \* the client wakes up and calls submit_timeout(); next visible op: the gate
  /\ G_SSleep(j)
  /\ pc' = [pc EXCEPT ![Sub(j)] = "s_gate"]
  /\ Emit(<<E2("SubmitCall", "client", now, j, cfgT[j])>>)
  /\ actor' = Sub(j)
  /\ UNCHANGED <<slow, cfg, sdl, jobs, dl, lock, gate, evt, woken, jst, overdue, lpend, wt, wdl, edl, now>>

G_SGate(j) == pc[Sub(j)] = "s_gate" /\ gate = NoOne
\* the rest of the gate step: the delegate's submit has returned; MapFuture is created, add_done_callback,
\* deadline = monotonic() + timeout
Created(j) ==
  /\ dl' = [dl EXCEPT ![j] = IF Bug = "deadline_first" /\ cfgSD[j] > 0 THEN @ ELSE now + cfgT[j]]
  /\ jst' = [jst EXCEPT ![j] = "pending"]
  /\ edl' = [edl EXCEPT ![j] = IF cfgD[j] > 0 THEN now + cfgD[j] ELSE -1]
  /\ pc' = [pc EXCEPT ![Sub(j)] = "s_lock", ![Env(j)] = IF cfgD[j] > 0 THEN "e_sleep" ELSE "e_never"]
  /\ Emit(<<E1("FutureCreated", "client", now, j)>>)
SGate(j) ==    \* with ensure_alive(): delegate.submit ... (which may itself take time, the gate being held)
  /\ G_SGate(j)
  /\ gate' = Sub(j)
  /\ IF cfgSD[j] = 0
       THEN Created(j) /\ UNCHANGED sdl
       ELSE /\ sdl' = [sdl EXCEPT ![j] = now + cfgSD[j]]
            /\ pc' = [pc EXCEPT ![Sub(j)] = "s_dsub"]
            \* seeded model bug: the deadline is taken before the delegate's submit
            /\ dl' = [dl EXCEPT ![j] = IF Bug = "deadline_first" THEN now + cfgT[j] ELSE @]
            /\ UNCHANGED <<jst, edl, obs, viol, hist>>
  /\ actor' = Sub(j)
  /\ UNCHANGED <<slow, cfg, jobs, lock, evt, woken, overdue, lpend, wt, wdl, now>>

G_SDSub(j) == pc[Sub(j)] = "s_dsub" /\ now >= sdl[j]
SDSub(j) ==    \* the delegate's submit returns
  /\ G_SDSub(j)
  /\ Created(j)
  /\ actor' = Sub(j)
  /\ UNCHANGED <<slow, cfg, sdl, jobs, lock, gate, evt, woken, overdue, lpend, wt, wdl, now>>

G_SLock(j) == pc[Sub(j)] = "s_lock" /\ lock = "none"
SLock(j) ==    \* with self._jobs_lock: self._jobs.append(job)
  /\ G_SLock(j)
  /\ jobs' = Append(jobs, j)
  \* seeded model bug (change C03-r3m2): "the thread is already waiting for an earlier deadline" - wake it only if
  \* the list was empty
  /\ pc' = [pc EXCEPT ![Sub(j)] = IF Bug = "wake_only_if_empty" /\ jobs # <<>> THEN "s_noset" ELSE "s_set"]
  /\ actor' = Sub(j)
  /\ UNCHANGED <<slow, cfg, sdl, dl, lock, gate, evt, woken, jst, overdue, lpend, wt, wdl, edl, now, obs, viol, hist>>

G_SSet(j) == pc[Sub(j)] \in {"s_set", "s_noset"}
SSet(j) ==     \* self._jobs_write.set(); return future
  /\ G_SSet(j)
  /\ IF Bug = "no_set_on_submit" \/ pc[Sub(j)] = "s_noset" THEN UNCHANGED <<evt, woken>> ELSE SetEvent
  /\ pc' = [pc EXCEPT ![Sub(j)] = "done"]
  /\ gate' = NoOne
  /\ Emit(<<E1("SubmitRet", "client", now, j)>>)
  /\ actor' = Sub(j)
  /\ UNCHANGED <<slow, cfg, sdl, jobs, dl, lock, jst, overdue, lpend, wt, wdl, edl, now>>

\* ------------------------------------------------------------------ the job loop
IsOverdue(j) == IF Bug = "early" THEN dl[j] <= now + 1 ELSE dl[j] < now

\* cancel() of an overdue job either succeeds at once, or takes cfgCD ticks and is refused, or is refused at once
Stops(j) == jst[j] = "pending" /\ (cfgCD[j] > 0 \/ cfgC[j])
\* index of the first overdue job whose cancel() succeeds or takes time (0 if none)
RECURSIVE FirstStop(_, _)
FirstStop(ov, i) ==
  IF i > Len(ov) THEN 0
  ELSE IF Stops(ov[i]) THEN i ELSE FirstStop(ov, i + 1)

WaitTime(pend, clock) ==      \* wait_time = max(earliest - monotonic(), 0), or None (-1)
  IF pend = <<>> THEN -1
  ELSE LET earliest == CHOOSE d \in {dl[pend[i]] : i \in DOMAIN pend} :
                          \A x \in {dl[pend[i]] : i \in DOMAIN pend} : d <= x
       IN Max(earliest - clock, 0)
\* seeded model bug (change C09-r3m1): the clock reading of the partition is re-used instead of reading the clock again
\* after the overdue cancels
ClockAfterCancels == IF Bug = "stale_now" THEN pnow ELSE now

\* run _do_cancel over `ov` until one cancel succeeds (next visible op: the event.set() of its done-callback), one
\* takes time (next visible op: the end of that sleep) or the list is exhausted (next visible op: event.wait);
\* `pre` = events of the step that precede the attempts
ProcessOverdue(ov, pend, pre, clock) ==
  LET i == FirstStop(ov, 1)
      n == IF i = 0 THEN Len(ov) ELSE i
      attempts == [x \in 1..n |-> ES("CancelArrived", "timeout", now, ov[x], "outer")]
  IN IF i = 0
       THEN /\ overdue' = <<>> /\ lpend' = pend
            /\ wt' = WaitTime(pend, clock)
            /\ pc' = [pc EXCEPT ![LOOP] = "l_wait"]
            /\ UNCHANGED <<jst, cur, cdl>>
            /\ Emit(pre \o attempts)
       ELSE IF cfgCD[ov[i]] > 0
       THEN /\ overdue' = SubSeq(ov, i + 1, Len(ov)) /\ lpend' = pend
            /\ cur' = ov[i] /\ cdl' = now + cfgCD[ov[i]]
            /\ pc' = [pc EXCEPT ![LOOP] = "l_cbusy"]
            /\ UNCHANGED <<jst, wt>>
            /\ Emit(pre \o attempts)
       ELSE /\ overdue' = SubSeq(ov, i + 1, Len(ov)) /\ lpend' = pend
            /\ jst' = [jst EXCEPT ![ov[i]] = "cancelled"]
            /\ pc' = [pc EXCEPT ![LOOP] = "l_cset"]
            /\ UNCHANGED <<wt, cur, cdl>>
            /\ Emit(pre \o attempts \o <<ESA("Observed", "timeout", now, ov[i], "CANCELLED_AND_NOTIFIED", -1, -1)>>)

G_LTop == pc[LOOP] = "l_top" /\ lock = "none"
LTop ==        \* with _jobs_lock: partition; then cancel overdue jobs
  /\ G_LTop
  /\ LET live == SelectSeq(jobs, LAMBDA j : jst[j] = "pending")
         \* seeded model bug two_clock_reads (change C09-r5m1): the pending test reads the clock again, and the clock has
         \* moved by a tick: a deadline between the two readings is neither overdue nor pending
         pend == IF Bug = "two_clock_reads" THEN SelectSeq(live, LAMBDA j : dl[j] >= now + 1)
                 ELSE SelectSeq(live, LAMBDA j : ~IsOverdue(j))
         ov   == SelectSeq(live, LAMBDA j : IsOverdue(j))
     IN IF Bug = "partition_unlocked"
          \* seeded model bug (change C09-r4m1): the list is only COPIED under the lock, partitioned outside it, and the
          \* pending part assigned back under the lock later: a job appended in between is overwritten
          THEN /\ lpend' = pend /\ overdue' = ov /\ pc' = [pc EXCEPT ![LOOP] = "l_assign"]
               /\ UNCHANGED <<jobs, jst, wt, cur, cdl, obs, viol, hist>>
          ELSE /\ jobs' = (IF Bug = "drop_pending" /\ ov # <<>> THEN <<>> ELSE pend)
               /\ ProcessOverdue(ov, IF Bug = "drop_pending" /\ ov # <<>> THEN <<>> ELSE pend, <<>>, now)
  /\ pnow' = now
  /\ actor' = LOOP
  /\ UNCHANGED <<cfg, sdl, dl, lock, gate, evt, woken, wdl, edl, now>>

G_LAssign == pc[LOOP] = "l_assign" /\ lock = "none"
LAssign ==     \* (model bug only) with _jobs_lock: self._jobs = pending; then cancel the overdue jobs
  /\ G_LAssign
  /\ jobs' = lpend
  /\ ProcessOverdue(overdue, lpend, <<>>, now)
  /\ actor' = LOOP
  /\ UNCHANGED <<pnow, cfg, sdl, dl, lock, gate, evt, woken, wdl, edl, now>>

G_LCSet == pc[LOOP] = "l_cset"
LCSet ==       \* the cancelled future's done-callback: self._jobs_write.set(); continue cancelling
  /\ G_LCSet
  /\ evt' = TRUE /\ UNCHANGED woken
  /\ ProcessOverdue(overdue, lpend, <<>>, ClockAfterCancels)
  /\ actor' = LOOP
  /\ UNCHANGED <<pnow, cfg, sdl, jobs, dl, lock, gate, wdl, edl, now>>

G_LCBusy == pc[LOOP] = "l_cbusy" /\ now >= cdl
LCBusy ==      \* the slow cancel() returns False; continue cancelling
  /\ G_LCBusy
  /\ ProcessOverdue(overdue, lpend, <<ES("CancelArrivedRet", "timeout", now, cur, "outer")>>, ClockAfterCancels)
  /\ actor' = LOOP
  /\ UNCHANGED <<pnow, cfg, sdl, jobs, dl, lock, gate, evt, woken, wdl, edl, now>>

G_LEnter == pc[LOOP] = "l_wait"
LEnter ==      \* event.wait(wait_time): look at the flag; block only if it is clear
  /\ G_LEnter
  /\ IF evt THEN /\ pc' = [pc EXCEPT ![LOOP] = "l_clear"] /\ UNCHANGED wdl
            ELSE /\ pc' = [pc EXCEPT ![LOOP] = "l_blocked"]
                 /\ wdl' = IF wt >= 0 THEN now + wt + 1 ELSE -1
  /\ actor' = LOOP
  /\ UNCHANGED <<slow, cfg, sdl, jobs, dl, lock, gate, evt, woken, jst, overdue, lpend, wt, edl, now, obs, viol, hist>>

G_LWake == pc[LOOP] = "l_blocked" /\ (woken \/ (wdl >= 0 /\ now >= wdl))
LWake ==       \* the blocked wait returns (notified by set(), or timed out)
  /\ G_LWake
  /\ woken' = FALSE
  /\ pc' = [pc EXCEPT ![LOOP] = "l_clear"]
  /\ actor' = LOOP
  /\ UNCHANGED <<slow, cfg, sdl, jobs, dl, lock, gate, evt, jst, overdue, lpend, wt, wdl, edl, now, obs, viol, hist>>

G_LClear == pc[LOOP] = "l_clear"
LClear ==      \* event.clear()
  /\ G_LClear
  /\ evt' = FALSE
  /\ pc' = [pc EXCEPT ![LOOP] = "l_top"]
  /\ actor' = LOOP
  /\ UNCHANGED <<slow, cfg, sdl, jobs, dl, lock, gate, woken, jst, overdue, lpend, wt, wdl, edl, now, obs, viol, hist>>

\* ------------------------------------------------------------------ the delegate's work
\* cancel() holds the returned future's own lock for its whole duration: a completion of that future waits for it
CancelInProgress(j) == pc[LOOP] = "l_cbusy" /\ cur = j
G_EFinish(j) == pc[Env(j)] = "e_sleep" /\ now >= edl[j]
Resolve(j, pre) ==   \* delegate future resolved, outer future resolved by the callback chain
  IF jst[j] = "pending"
    THEN /\ jst' = [jst EXCEPT ![j] = "done"]
         /\ pc' = [pc EXCEPT ![Env(j)] = "e_set"]
         /\ Emit(pre \o <<ESA("Observed", "env", now, j, "FINISHED", 0, j)>>)
    ELSE /\ pc' = [pc EXCEPT ![Env(j)] = "done"]
         /\ UNCHANGED jst
         /\ IF pre = <<>> THEN UNCHANGED <<obs, viol, hist>> ELSE Emit(pre)
EFinish(j) ==  \* work ends
  /\ G_EFinish(j)
  /\ IF jst[j] = "pending" /\ CancelInProgress(j)
       THEN /\ pc' = [pc EXCEPT ![Env(j)] = "e_blocked"] /\ UNCHANGED jst
            /\ Emit(<<E3("InvokeEnd", "env", now, j, 0, j)>>)
       ELSE Resolve(j, IF jst[j] = "pending" THEN <<E3("InvokeEnd", "env", now, j, 0, j)>> ELSE <<>>)
  /\ actor' = Env(j)
  /\ UNCHANGED <<slow, cfg, sdl, jobs, dl, lock, gate, evt, woken, overdue, lpend, wt, wdl, edl, now>>

G_EResume(j) == pc[Env(j)] = "e_blocked" /\ ~CancelInProgress(j)
EResume(j) ==  \* the slow cancel() has let go of the future's lock.  Urgent and silent: the future's own lock is not one
               \* of the visible primitives, the engine resumes its waiter eagerly (as in Retry.tla)
  /\ G_EResume(j)
  /\ Resolve(j, <<>>)
  /\ actor' = <<"-", 0>>
  /\ UNCHANGED <<slow, cfg, sdl, jobs, dl, lock, gate, evt, woken, overdue, lpend, wt, wdl, edl, now>>

G_ESet(j) == pc[Env(j)] = "e_set"
ESet(j) ==     \* _on_future_done: self._jobs_write.set()
  /\ G_ESet(j)
  /\ SetEvent
  /\ pc' = [pc EXCEPT ![Env(j)] = "done"]
  /\ actor' = Env(j)
  /\ UNCHANGED <<slow, cfg, sdl, jobs, dl, lock, gate, jst, overdue, lpend, wt, wdl, edl, now, obs, viol, hist>>

\* ------------------------------------------------------------------ observer
G_OEnd == pc[OBS] = "o_sleep" /\ now >= Horizon
OEnd ==
  /\ G_OEnd
  /\ pc' = [pc EXCEPT ![OBS] = "done"]
  /\ Emit(<<E0("End", "main", now)>>)
  /\ actor' = OBS
  /\ UNCHANGED <<slow, cfg, sdl, jobs, dl, lock, gate, evt, woken, jst, overdue, lpend, wt, wdl, edl, now>>

\* ------------------------------------------------------------------ time
AnyEnabled ==
  \/ \E j \in Jobs : G_SSleep(j) \/ G_SGate(j) \/ G_SDSub(j) \/ G_SLock(j) \/ G_SSet(j) \/ G_EFinish(j) \/ G_EResume(j) \/ G_ESet(j)
  \/ G_LTop \/ G_LAssign \/ G_LCSet \/ G_LCBusy \/ G_LEnter \/ G_LWake \/ G_LClear \/ G_OEnd

AllDeadlines ==
  {cfgS[j] : j \in {x \in Jobs : pc[Sub(x)] = "s_sleep"}}
  \cup {sdl[j] : j \in {x \in Jobs : pc[Sub(x)] = "s_dsub"}}
  \cup {edl[j] : j \in {x \in Jobs : pc[Env(x)] = "e_sleep"}}
  \cup (IF pc[LOOP] = "l_blocked" /\ wdl >= 0 THEN {wdl} ELSE {})
  \cup (IF pc[LOOP] = "l_cbusy" THEN {cdl} ELSE {})
  \cup (IF pc[OBS] = "o_sleep" THEN {Horizon} ELSE {})
\* (a deadline that has passed while its thread waits for something else - a completion waiting for a slow cancel()
\*  of the same future - is no longer something time has to advance to)
Deadlines == {d \in AllDeadlines : d > now}

Tick ==
  /\ ~AnyEnabled /\ Deadlines # {}
  /\ now' = CHOOSE d \in Deadlines : \A x \in Deadlines : d <= x
  /\ actor' = <<"tick", 0>>
  /\ UNCHANGED <<slow, cfg, sdl, pc, jobs, dl, lock, gate, evt, woken, jst, overdue, lpend, wt, wdl, edl, obs, viol, hist>>

UrgentEnabled == \E j \in Jobs : G_EResume(j)
Normal ==
  \/ \E j \in Jobs : SSleep(j) \/ SGate(j) \/ SDSub(j) \/ SLock(j) \/ SSet(j) \/ EFinish(j) \/ ESet(j)
  \/ LTop \/ LAssign \/ LCSet \/ LCBusy \/ LEnter \/ LWake \/ LClear \/ OEnd \/ Tick
Next == IF UrgentEnabled THEN \E j \in Jobs : EResume(j) ELSE Normal

Spec == Init /\ [][Next]_vars

\* ------------------------------------------------------------------ properties
ContractHolds == viol = "ok"                       \* every clause of TimeoutObs (C09), always
TypeOK == /\ lock = "none" /\ now \in Nat /\ \A j \in Jobs : jst[j] \in {"new", "pending", "done", "cancelled"}
\* lost wake-up (C03): the loop sleeps without a timer although a pending job is in the list
NoTimerlessSleepWithWork ==
  ~(pc[LOOP] = "l_blocked" /\ wdl = -1 /\ ~woken /\ ~AnyEnabled
      /\ \E i \in DOMAIN jobs : jst[jobs[i]] = "pending")
\* a job the executor accepted stays in the list (or is being handled) until it is done or attempted
NoJobLost ==
  \A j \in Jobs : (jst[j] = "pending" /\ pc[Sub(j)] = "done" /\ Get(obs.att, j, 0) = 0) =>
      (\E i \in DOMAIN jobs : jobs[i] = j) \/ (\E i \in DOMAIN overdue : overdue[i] = j)
\* the model itself never gets stuck before the observer has ended the run (a stuck model explores nothing beyond)
ModelLive == pc[OBS] = "done" \/ AnyEnabled \/ Deadlines # {}
View == <<cfg, sdl, pc, jobs, dl, lock, gate, evt, woken, jst, overdue, lpend, wt, wdl, edl, now, obs, viol, cur, cdl,
          IF Bug = "stale_now" THEN pnow ELSE 0>>
=============================================================================
