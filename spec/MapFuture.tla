---------------------------- MODULE MapFuture ----------------------------
(* Implementation-shaped specification of MapFuture / FlatMapFuture (more_executors/_impl/map.py,
   flat_map.py, common.py _Future.cancel) for ONE stage, at the granularity

       visible operations = acquisitions of the output future's _me_lock, the boundaries of user code
                            (fn / error_fn), completion of the input / inner stdlib futures, and the
                            add_done_callback that attaches the output to the inner future.

   One action = "thread t performs its pending visible operation and runs up to (not including) its next
   one".  _me_lock is released inside the step that took it, so it is never held across steps of this model;
   operations of the stdlib futures (set_result / cancel / add_done_callback, each under the future's own
   condition) are atomic.  cancel() of the output runs entirely under _me_lock (re-entrant), including the
   delegate's done-callbacks that delegate.cancel() runs inline.

   The two-stage delegate:
       stage 1   delegate = the input future;        _delegate_resolved(input)  -> fn / error_fn -> _on_mapped
       stage 2   (flat only) delegate = the future returned by fn / error_fn ("inner");
                 _on_mapped: __flattened = True, _map_fn = identity, _set_delegate(inner);
                 _delegate_resolved(inner) -> result / exception copied to the output

   Threads:   <<"comp", 1>>  completes the input future (value or exception) and runs its callbacks
              <<"comp", 2>>  completes the inner future returned as *pending* by fn / error_fn
              <<"can", 1>>   calls cancel() on the output
              <<"obs", 0>>   the harness: reads the outcome when everybody is finished
   Whoever finds the inner future already done when attaching (add_done_callback) runs stage 2 inline.

   AsShipped_D12 = TRUE models the code as shipped upstream: FlatMapFuture._on_mapped reset _map_fn but kept
   _error_fn, so a failing inner future was passed to error_fn again and whatever that returned became the
   *value* of the output (defect D12, found by this check, repaired in /repo by 0d7ede8).  MapFuture.mc.cfg
   checks the repaired design (FALSE); MapFuture.d12.cfg (TRUE) is the negative control that must fail with
   C13_AtMostOnceOwnCase.  Bug = "swallow_efn_exc" / "drop_result" are further seeded model bugs.
   Ghost state obs / viol: the contract MapLawsObs fed with the events the actions generate.
*)
EXTENDS MapLawsObs

CONSTANTS FnBs, EfnBs,     \* behaviours drawn for fn / error_fn
          Flats,           \* subset of BOOLEAN
          CanVals,         \* subset of BOOLEAN: is there a canceller thread
          AsShipped_D12,   \* TRUE: error_fn survives the flattening (shipped code)
          KeepHist,
          Bug              \* "none" or a seeded model bug (negative controls)

NoOne == <<"none", 0>>
COMP1 == <<"comp", 1>>
COMP2 == <<"comp", 2>>
CAN   == <<"can", 1>>
OBS   == <<"obs", 0>>
Threads == {COMP1, COMP2, CAN, OBS}
Resolvers == {COMP1, COMP2}

VARIABLES cfgFlat, cfgInp, cfgFb, cfgEb, cfgCan,
          pc, stg, loc, inS, innS, innOut, innCb, dlg, flattened, outS, outVal,
          obs, viol, hist, actor

cfg  == <<cfgFlat, cfgInp, cfgFb, cfgEb, cfgCan>>
vars == <<cfgFlat, cfgInp, cfgFb, cfgEb, cfgCan, pc, stg, loc, inS, innS, innOut, innCb, dlg, flattened,
          outS, outVal, obs, viol, hist, actor>>

RECURSIVE Feed(_, _, _)
Feed(o, v, evs) ==
  IF evs = <<>> THEN <<o, v>>
  ELSE LET e == Head(evs)
           ff == FirstFailed(Clauses(o, e))
       IN Feed(ObsNext(o, e), IF v = "ok" THEN ff ELSE v, Tail(evs))
Emit(evs) ==
  LET r == Feed(obs, viol, evs) IN
    /\ obs' = r[1] /\ viol' = r[2]
    /\ hist' = IF KeepHist THEN hist \o [i \in 1..Len(evs) |-> <<evs[i].ev, evs[i].k, evs[i].a>>] ELSE hist
NoEmit == UNCHANGED <<obs, viol, hist>>

NoVal == Out("NONE", <<>>, FALSE)
FutObj == Out("FUT", <<>>, FALSE)          \* "the future returned by the function" as a local value
CfgEv(fl, inp, fb, eb) ==
  Ev("Cfg", "-", "main", 0, -1, 1, inp, 1, 1, "", <<IF fl THEN 1 ELSE 0, fb, eb>>)
FnCallEv(which, arg) == Ev("FnCall", "-", "env", 0, 0, 1, which, -1, -1, "", arg)

Init ==
  /\ cfgFlat \in Flats /\ cfgInp \in {0, 1} /\ cfgFb \in FnBs /\ cfgEb \in EfnBs /\ cfgCan \in CanVals
  /\ WellFormed([flat |-> cfgFlat, fb |-> cfgFb, eb |-> cfgEb])
  /\ pc = [t \in Threads |-> CASE t = COMP1 -> "c_set" [] t = COMP2 -> "idle"
                               [] t = CAN -> (IF cfgCan THEN "k_call" ELSE "done") [] OTHER -> "o_end"]
  /\ stg = [t \in Resolvers |-> 1] /\ loc = [t \in Resolvers |-> NoVal]
  /\ inS = "P" /\ innS = "none" /\ innOut = NoVal /\ innCb = FALSE
  /\ dlg = "input" /\ flattened = FALSE /\ outS = "P" /\ outVal = NoVal
  /\ obs = ObsNext(ObsInit, CfgEv(cfgFlat, cfgInp, cfgFb, cfgEb)) /\ viol = "ok"
  /\ hist = <<>> /\ actor = <<"-", 0>>

\* ------------------------------------------------------------------ completing the input future
G_CSet == pc[COMP1] = "c_set"
CSet ==        \* input.set_result / set_exception (skipped if the input was cancelled); callbacks follow
  /\ G_CSet
  /\ IF inS = "P" THEN /\ inS' = "F" /\ pc' = [pc EXCEPT ![COMP1] = "r_lock"]
                  ELSE /\ pc' = [pc EXCEPT ![COMP1] = "done"] /\ UNCHANGED inS
  /\ actor' = COMP1
  /\ UNCHANGED <<cfg, stg, loc, innS, innOut, innCb, dlg, flattened, outS, outVal>> /\ NoEmit

\* ------------------------------------------------------------------ _delegate_resolved, both stages
\* the future a function returns, by behaviour
InnerState(b) == CASE b \in {FUT_V, FUT_E} -> "F" [] b \in {FUT_PV, FUT_PE} -> "P" [] OTHER -> "C"
InnerOut(b, tagV, idE, arg) ==
  CASE b \in {FUT_V, FUT_PV} -> Out("V", <<tagV>> \o arg, FALSE)
    [] b \in {FUT_E, FUT_PE} -> Out("E", <<idE>>, FALSE)
    [] OTHER -> NoVal

G_RLock(t) == pc[t] = "r_lock"
RLock(t) ==    \* _set_delegate(None) under _me_lock; then up to the call of fn / error_fn or to the setter
  /\ G_RLock(t)
  /\ dlg' = "none"
  /\ LET dState == IF stg[t] = 1 THEN inS ELSE innS
         dOut == IF stg[t] = 1 THEN InputOut(cfgInp) ELSE innOut
         efnLive == cfgEb # ABSENT /\ (stg[t] = 1 \/ AsShipped_D12)
     IN IF dState = "C"
          THEN /\ pc' = [pc EXCEPT ![t] = "done"] /\ UNCHANGED <<loc, innS, innOut>> /\ NoEmit
        ELSE IF dOut.kind = "E"
          THEN IF efnLive
                 THEN /\ loc' = [loc EXCEPT ![t] = dOut] /\ pc' = [pc EXCEPT ![t] = "r_efn"]
                      /\ Emit(<<FnCallEv(1, dOut.term)>>) /\ UNCHANGED <<innS, innOut>>
                 ELSE /\ loc' = [loc EXCEPT ![t] = dOut] /\ pc' = [pc EXCEPT ![t] = "r_setexc"]
                      /\ UNCHANGED <<innS, innOut>> /\ NoEmit
        ELSE IF stg[t] = 1 /\ cfgFb # ABSENT
          THEN /\ loc' = [loc EXCEPT ![t] = dOut] /\ pc' = [pc EXCEPT ![t] = "r_fn"]
               /\ Emit(<<FnCallEv(0, dOut.term)>>) /\ UNCHANGED <<innS, innOut>>
        ELSE IF stg[t] = 1 /\ cfgFlat            \* fn omitted on a flat map: f_return(result)
          THEN /\ innS' = "F" /\ innOut' = Out("V", dOut.term, FALSE)
               /\ loc' = [loc EXCEPT ![t] = FutObj] /\ pc' = [pc EXCEPT ![t] = "r_mapped"] /\ NoEmit
        ELSE /\ loc' = [loc EXCEPT ![t] = Out("V", dOut.term, FALSE)] /\ pc' = [pc EXCEPT ![t] = "r_mapped"]
             /\ UNCHANGED <<innS, innOut>> /\ NoEmit
  /\ actor' = t
  /\ UNCHANGED <<cfg, stg, inS, innCb, flattened, outS, outVal>>

\* a function returns a future: create it, start its completer if it is pending
ReturnFuture(t, b, tagV, idE, arg) ==
  /\ innS' = InnerState(b) /\ innOut' = InnerOut(b, tagV, idE, arg)
  /\ loc' = [loc EXCEPT ![t] = FutObj]
  /\ pc' = [pc EXCEPT ![t] = "r_mapped", ![COMP2] = IF InnerState(b) = "P" THEN "e_set" ELSE @]

G_RFn(t) == pc[t] = "r_fn"
RFn(t) ==      \* the body of fn; next visible op: _me_lock (set_result / set_exception / _set_delegate)
  /\ G_RFn(t)
  /\ LET arg == loc[t].term IN
     CASE cfgFb = RET -> /\ loc' = [loc EXCEPT ![t] = Out("V", <<TagFn(1)>> \o arg, FALSE)]
                         /\ pc' = [pc EXCEPT ![t] = "r_mapped"] /\ UNCHANGED <<innS, innOut>>
       [] cfgFb = RAISE -> /\ loc' = [loc EXCEPT ![t] = Out("E", <<ExcFn(1)>>, FALSE)]
                           /\ pc' = [pc EXCEPT ![t] = "r_setexc"] /\ UNCHANGED <<innS, innOut>>
       [] cfgFb = NONFUT -> /\ loc' = [loc EXCEPT ![t] = Out("E", <<TYPEERR>>, FALSE)]   \* _on_mapped raises
                            /\ pc' = [pc EXCEPT ![t] = "r_setexc"] /\ UNCHANGED <<innS, innOut>>
       [] OTHER -> ReturnFuture(t, cfgFb, TagInFn(1), ExcInFn(1), arg)
  /\ actor' = t
  /\ UNCHANGED <<cfg, stg, inS, innCb, dlg, flattened, outS, outVal>> /\ NoEmit

G_REfn(t) == pc[t] = "r_efn"
REfn(t) ==     \* the body of error_fn (_delegate_failed)
  /\ G_REfn(t)
  /\ LET x == loc[t].term IN
     CASE cfgEb = RAISE ->
            /\ loc' = [loc EXCEPT ![t] = IF Bug = "swallow_efn_exc" THEN Out("E", x, FALSE)
                                         ELSE Out("E", <<ExcEfn(1)>>, FALSE)]
            /\ pc' = [pc EXCEPT ![t] = "r_setexc"] /\ UNCHANGED <<innS, innOut>>
       [] cfgEb = RERAISE ->
            /\ loc' = [loc EXCEPT ![t] = Out("E", x, TRUE)]
            /\ pc' = [pc EXCEPT ![t] = "r_setexc"] /\ UNCHANGED <<innS, innOut>>
       [] stg[t] = 2 ->     \* only as shipped: whatever error_fn returns now becomes the *value* (flattened)
            /\ loc' = [loc EXCEPT ![t] = Out("V", <<997>>, FALSE)]
            /\ pc' = [pc EXCEPT ![t] = "r_mapped"] /\ UNCHANGED <<innS, innOut>>
       [] cfgEb = RET /\ stg[t] = 1 ->
            /\ loc' = [loc EXCEPT ![t] = Out("V", <<TagEfn(1)>> \o x, FALSE)]
            /\ pc' = [pc EXCEPT ![t] = "r_mapped"] /\ UNCHANGED <<innS, innOut>>
       [] cfgEb = NONFUT /\ stg[t] = 1 ->
            /\ loc' = [loc EXCEPT ![t] = Out("E", <<TYPEERR>>, FALSE)]
            /\ pc' = [pc EXCEPT ![t] = "r_setexc"] /\ UNCHANGED <<innS, innOut>>
       [] OTHER -> ReturnFuture(t, cfgEb, TagInEfn(1), ExcInEfn(1), x)
  /\ actor' = t
  /\ UNCHANGED <<cfg, stg, inS, innCb, dlg, flattened, outS, outVal>> /\ NoEmit

G_RMapped(t) == pc[t] = "r_mapped"
RMapped(t) ==  \* _on_mapped: set_result under _me_lock, or (flat, first time) _set_delegate(inner)
  /\ G_RMapped(t)
  /\ IF loc[t].kind = "FUT"
       THEN /\ flattened' = TRUE /\ dlg' = "inner" /\ pc' = [pc EXCEPT ![t] = "r_adcb"]
            /\ UNCHANGED <<outS, outVal>>
       ELSE /\ IF outS = "P" /\ Bug # "drop_result" THEN outS' = "F" /\ outVal' = loc[t]
                                                    ELSE UNCHANGED <<outS, outVal>>     \* InvalidStateError tolerated
            /\ pc' = [pc EXCEPT ![t] = "done"] /\ UNCHANGED <<flattened, dlg>>
  /\ actor' = t
  /\ UNCHANGED <<cfg, stg, loc, inS, innS, innOut, innCb>> /\ NoEmit

G_RAdcb(t) == pc[t] = "r_adcb"
RAdcb(t) ==    \* inner.add_done_callback(self._delegate_resolved): inline if the inner future is done
  /\ G_RAdcb(t)
  /\ IF innS \in {"F", "C"}
       THEN /\ stg' = [stg EXCEPT ![t] = 2] /\ pc' = [pc EXCEPT ![t] = "r_lock"] /\ UNCHANGED innCb
       ELSE /\ innCb' = TRUE /\ pc' = [pc EXCEPT ![t] = "done"] /\ UNCHANGED stg
  /\ actor' = t
  /\ UNCHANGED <<cfg, loc, inS, innS, innOut, dlg, flattened, outS, outVal>> /\ NoEmit

G_RSetExc(t) == pc[t] = "r_setexc"
RSetExc(t) ==  \* copy_exception / copy_future_exception -> set_exception under _me_lock
  /\ G_RSetExc(t)
  /\ IF outS = "P" THEN outS' = "F" /\ outVal' = loc[t] ELSE UNCHANGED <<outS, outVal>>
  /\ pc' = [pc EXCEPT ![t] = "done"]
  /\ actor' = t
  /\ UNCHANGED <<cfg, stg, loc, inS, innS, innOut, innCb, dlg, flattened>> /\ NoEmit

\* ------------------------------------------------------------------ completing the inner future
G_ESet == pc[COMP2] = "e_set"
ESet ==
  /\ G_ESet
  /\ IF innS = "P"
       THEN /\ innS' = "F"
            /\ IF innCb THEN /\ stg' = [stg EXCEPT ![COMP2] = 2] /\ pc' = [pc EXCEPT ![COMP2] = "r_lock"]
                        ELSE /\ pc' = [pc EXCEPT ![COMP2] = "done"] /\ UNCHANGED stg
       ELSE /\ pc' = [pc EXCEPT ![COMP2] = "done"] /\ UNCHANGED <<innS, stg>>
  /\ actor' = COMP2
  /\ UNCHANGED <<cfg, loc, inS, innOut, innCb, dlg, flattened, outS, outVal>> /\ NoEmit

\* ------------------------------------------------------------------ cancel() of the output
G_KCall == pc[CAN] = "k_call"
KCall ==
  /\ G_KCall
  /\ pc' = [pc EXCEPT ![CAN] = "k_lock"]
  /\ Emit(<<E1("CancelCall", "canceller", 0, 0)>>)
  /\ actor' = CAN
  /\ UNCHANGED <<cfg, stg, loc, inS, innS, innOut, innCb, dlg, flattened, outS, outVal>>

G_KLock == pc[CAN] = "k_lock"
KLock ==       \* _Future.cancel under _me_lock: _me_cancel -> delegate.cancel() (its callbacks run inline)
  /\ G_KLock
  /\ LET r == CASE outS = "C" -> "already"
                [] outS = "F" -> "no"
                [] dlg = "input" /\ inS = "P" -> "input"
                [] dlg = "inner" /\ innS = "P" -> "inner"
                [] OTHER -> "no"
     IN /\ inS' = IF r = "input" THEN "C" ELSE inS
        /\ innS' = IF r = "inner" THEN "C" ELSE innS
        /\ dlg' = IF r = "input" \/ (r = "inner" /\ innCb) THEN "none" ELSE dlg    \* inline _delegate_resolved
        /\ outS' = IF r \in {"input", "inner"} THEN "C" ELSE outS
        /\ Emit(<<E2("CancelRet", "canceller", 0, 0, IF r = "no" THEN 0 ELSE 1)>>)
  /\ pc' = [pc EXCEPT ![CAN] = "done"]
  /\ actor' = CAN
  /\ UNCHANGED <<cfg, stg, loc, innOut, innCb, flattened, outVal>>

\* ------------------------------------------------------------------ the harness reads the outcome
G_OEnd == pc[OBS] = "o_end" /\ pc[COMP1] = "done" /\ pc[COMP2] \in {"idle", "done"} /\ pc[CAN] = "done"
OEnd ==
  /\ G_OEnd
  /\ pc' = [pc EXCEPT ![OBS] = "done"]
  /\ Emit(<<IF outS = "F"
              THEN Ev("Result", "-", "main", 0, 0, -1, IF outVal.kind = "V" THEN 0 ELSE 1,
                      IF outVal.kind = "E" THEN 1 ELSE 0, -1, "FINISHED", outVal.term)
              ELSE Ev("Result", "-", "main", 0, 0, -1, -1, -1, -1,
                      IF outS = "C" THEN "CANCELLED_AND_NOTIFIED" ELSE "PENDING", <<>>),
            E0("End", "main", 0)>>)
  /\ actor' = OBS
  /\ UNCHANGED <<cfg, stg, loc, inS, innS, innOut, innCb, dlg, flattened, outS, outVal>>

Next ==
  \/ CSet \/ ESet \/ KCall \/ KLock \/ OEnd
  \/ \E t \in Resolvers : RLock(t) \/ RFn(t) \/ REfn(t) \/ RMapped(t) \/ RAdcb(t) \/ RSetExc(t)

Spec == Init /\ [][Next]_vars

\* ------------------------------------------------------------------ properties
ContractHolds == viol = "ok"                         \* every clause of MapLawsObs (C13), always
\* the cases the shipped defect D12 touches: a flat map with an error_fn whose attached inner future fails
D12Case == cfgFlat /\ cfgEb # ABSENT
             /\ \/ cfgInp = 0 /\ cfgFb \in {FUT_E, FUT_PE}
                \/ cfgInp = 1 /\ cfgEb \in {FUT_E, FUT_PE}
ContractHoldsButD12 == viol = "ok" \/ (AsShipped_D12 /\ D12Case)
D12Visible ==                                         \* negative control: as shipped, D12 must be reachable
  ~(AsShipped_D12 /\ D12Case /\ viol # "ok")
TypeOK ==
  /\ inS \in {"P", "F", "C"} /\ innS \in {"none", "P", "F", "C"} /\ outS \in {"P", "F", "C"}
  /\ dlg \in {"input", "inner", "none"}
  /\ outS = "F" <=> outVal # NoVal
\* the assertion at the top of _delegate_resolved: "called with the current delegate"
DelegateAssert ==
  \A t \in Resolvers : pc[t] = "r_lock" => dlg = (IF stg[t] = 1 THEN "input" ELSE "inner")
\* a future that nobody cancelled is resolved when everybody is finished (C03 flavour), unless the
\* function handed back a cancelled future
ResolvedAtEnd ==
  (pc[OBS] = "done" /\ outS = "P") => (innS = "C" \/ Bug # "none")
View == <<cfg, pc, stg, loc, inS, innS, innOut, innCb, dlg, flattened, outS, outVal, obs, viol>>
=============================================================================
