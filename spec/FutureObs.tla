---------------------------- MODULE FutureObs ----------------------------
(* Contract of C02: "Every returned future obeys the concurrent.futures.Future protocol".

   Events about a future f handed out by an executor or an f_* function:
     Observed(f, s, a, b)                   f was seen in a new state s (a, b = outcome when FINISHED)
     CancelCall(f) / CancelRet(f, a) / CancelRaise(f)
     AddCbCall(f, k) / AddCbRet(f, k) / AddCbRaise(f, k)   add_done_callback of callback k
     Callback(f, k, a)                      callback k runs; a = 1 iff f.done() is true inside it
     WaitCall(f, k, s) / WaitRet(f, k)      client k blocks in s = "result" | "exception" | "wait" | "as_completed"
     End
*)
EXTENDS ObsKit

ObsInit == [state |-> EmptyMap,     \* f -> last observed state
            out |-> EmptyMap,       \* f -> <<a, b>> outcome when first seen FINISHED
            ctrue |-> {},           \* cancel() returned True
            fin_before |-> EmptyMap,\* thr -> TRUE if f was already seen FINISHED when this thread's cancel() began
            added |-> {},           \* <<f, k>> add_done_callback returned
            ran |-> EmptyMap,       \* <<f, k>> -> number of runs
            waiting |-> {},         \* <<f, k>> blocked waiters
            sawdone |-> {}]         \* futures for which some done() query answered True

IsTerm(s) == s \in Terminal

ObsNext(st, e) ==
  CASE e.ev = "Observed" ->
          [st EXCEPT !.state = Put(@, e.f, e.s),
                     !.out = IF e.s = "FINISHED" /\ ~Has(@, e.f) THEN Put(@, e.f, <<e.a, e.b>>) ELSE @]
    [] e.ev = "CancelCall" -> [st EXCEPT !.fin_before = Put(@, e.thr, Get(st.state, e.f, "PENDING") = "FINISHED")]
    [] e.ev = "CancelRet" /\ e.a = 1 -> [st EXCEPT !.ctrue = @ \cup {e.f}]
    [] e.ev = "AddCbRet" -> [st EXCEPT !.added = @ \cup {<<e.f, e.k>>}]
    [] e.ev = "Callback" -> [st EXCEPT !.ran = Put(@, <<e.f, e.k>>, Get(@, <<e.f, e.k>>, 0) + 1)]
    [] e.ev = "WaitCall" -> [st EXCEPT !.waiting = @ \cup {<<e.f, e.k>>}]
    [] e.ev = "WaitRet" -> [st EXCEPT !.waiting = @ \ {<<e.f, e.k>>}]
    [] e.ev = "ProbeRet" /\ e.s = "done" /\ e.a = 1 -> [st EXCEPT !.sawdone = @ \cup {e.f}]
    [] OTHER -> st

Clauses(st, e) ==
  << <<"C02_TerminalOnce",
        (e.ev = "Observed" /\ Has(st.state, e.f) /\ IsTerm(st.state[e.f])) =>
            \/ (st.state[e.f] = "CANCELLED" /\ e.s = "CANCELLED_AND_NOTIFIED")
            \/ (st.state[e.f] = e.s /\ e.s = "FINISHED" /\ st.out[e.f] = <<e.a, e.b>>)>>,
     <<"C02_QueriesNeverRaise",      \* running() / done() / cancelled() never raise (a = truth value of the answer);
        \* done() does not go back to False, and a future that has answered done() is not running()
        /\ e.ev = "ProbeRaise" => FALSE
        /\ (e.ev = "ProbeRet" /\ e.s = "done" /\ e.f \in st.sawdone) => e.a = 1
        /\ (e.ev = "ProbeRet" /\ e.s = "running" /\ e.f \in st.sawdone) => e.a = 0>>,
     <<"C02_CancelNeverRaises",
        e.ev = "CancelRaise" => FALSE>>,
     <<"C02_CancelTrueSticks",
        (e.ev = "Observed" /\ e.f \in st.ctrue) => e.s \in CancelledStates>>,
     <<"C02_CancelTrueMeansCancelled",
        (e.ev = "End") => \A f \in st.ctrue : Get(st.state, f, "PENDING") \in CancelledStates>>,
     <<"C02_CancelFalseAfterFinish",
        (e.ev = "CancelRet" /\ Get(st.fin_before, e.thr, FALSE)) => e.a = 0>>,
     <<"C02_CallbackAtMostOnce",
        e.ev = "Callback" => Get(st.ran, <<e.f, e.k>>, 0) = 0>>,
     <<"C02_CallbackOnlyWhenDone",
        e.ev = "Callback" => e.a = 1>>,
     <<"C02_CallbackRuns",
        e.ev = "End" => \A p \in st.added : IsTerm(Get(st.state, p[1], "PENDING")) => Get(st.ran, p, 0) = 1>>,
     <<"C02_WaitersReleased",
        e.ev = "End" => \A p \in st.waiting : ~IsTerm(Get(st.state, p[1], "PENDING"))>> >>
=============================================================================
