---------------------------- MODULE LockProg ----------------------------
(* Generic interleaver of lock programs (C04).  A lock program is the nesting sequence of lock roles a thread
   acquires and releases during one API call or one worker-loop iteration, as recorded by the conformance engine
   (held -> acquired edges between lock roles seen in real executions).  TLC interleaves a handful of programs
   exhaustively; a reachable state in which every unfinished thread waits for a lock another one holds is a
   deadlock schedule, which the checker then tries to realise in the real code (only a realised deadlock is ever
   reported).  The instance checked with the framework encodes the lock orders observed on the repaired tree:

     submit() of a layered executor      gate(top) -> gate(below) -> ... -> executor lock -> future lock
     CancelOnShutdownExecutor.shutdown   gate -> lock            (as shipped: lock -> gate, ABBA with submit)
     RetryExecutor._submit_now           future lock -> executor lock -> [delegate.submit: gate(below) ...]
     RetryFuture.cancel                  future lock -> executor lock
   Progs is a tuple of sequences over <<"a", lock>> / <<"r", lock>>; Reentrant is the set of re-entrant locks.
*)
EXTENDS LockKit, TLC

CONSTANTS Variant

\* observed programs (lock roles: g2 upper gate, g1 lower gate, xl executor lock, fl future lock, cl cos lock)
Submit      == << <<"a", "g2">>, <<"a", "g1">>, <<"a", "xl">>, <<"r", "xl">>, <<"r", "g1">>, <<"r", "g2">> >>
SubmitNow   == << <<"a", "fl">>, <<"a", "xl">>, <<"r", "xl">>, <<"r", "fl">> >>
Cancel      == << <<"a", "fl">>, <<"a", "xl">>, <<"r", "xl">>, <<"r", "fl">> >>
CosSubmit   == << <<"a", "g2">>, <<"a", "cl">>, <<"r", "cl">>, <<"r", "g2">> >>
CosShutFix  == << <<"a", "g2">>, <<"r", "g2">>, <<"a", "cl">>, <<"r", "cl">> >>
CosShutShip == << <<"a", "cl">>, <<"a", "g2">>, <<"r", "g2">>, <<"r", "cl">> >>
\* D14: _submit_now over a synchronous delegate runs the callable, which submits to the executor above
SubmitNowNested == << <<"a", "fl">>, <<"a", "xl">>, <<"a", "g2">>, <<"r", "g2">>, <<"r", "xl">>, <<"r", "fl">> >>

Progs == CASE Variant = "repaired" -> <<Submit, SubmitNow, Cancel, CosSubmit, CosShutFix>>
           [] Variant = "cos_as_shipped" -> <<CosSubmit, CosShutShip>>
           [] Variant = "retry_sync_nested" -> <<Submit, SubmitNowNested>>
Reentrant == {"xl", "fl", "cl", "g1", "g2"}

VARIABLES pos, held
vars == <<pos, held>>
T == DOMAIN Progs
Init == pos = [t \in T |-> 1] /\ held = [t \in T |-> <<>>]
Step(t) ==
  /\ CanStep(Progs, Reentrant, pos, held, t)
  /\ held' = [held EXCEPT ![t] = HeldAfter(Progs, pos, held, t)]
  /\ pos' = [pos EXCEPT ![t] = @ + 1]
Done == AllDone(Progs, pos)
Next == (\E t \in T : Step(t)) \/ (Done /\ UNCHANGED vars)
Spec == Init /\ [][Next]_vars
\* deadlock = TLC's own deadlock detection (Done stutters, so only real deadlocks are reported)
=============================================================================
