---------------------------- MODULE CombinatorObs ----------------------------
(* Contract of C14 (f_or / f_and are `or` / `and` folds over the order in which inputs finish) and of
   C15 (f_zip / f_sequence / f_traverse keep positions and propagate the first failure), over
   API-observable events only.

   Events (fixed record, see ObsKit):
     Cfg(s = "or"|"and"|"zip"|"sequence"|"traverse", a = number of positions, xs = input id per position)
                                     repeated inputs share an id (f_or(a, a, b): xs = <<1, 1, 2>>)
     CombCall / CombRet(c)           the combinator is about to be called / has returned its output
                                     (c = 1 iff the returned object *is* the first input, computed by the harness)
     CombRaise(s = exception class)  ... or the call raised instead of returning a future
     InputSetCall(f, a, b)           a thread is about to complete input f: a = 1 truthy value, 2 falsy value,
                                     3 exception, 4 cancellation; b = id of the value / exception object
     InputSetRet(f, a)               ... the call returned; a = 1 it completed the input, a = 0 it did not
                                     (the input had already been cancelled: InvalidStateError / no-op cancel)
     CancelArrived(f, s)             cancel() called on input f (s = "input": the future handed to the
                                     combinator; s = "inner": the future behind an f_nocancel wrapper)
     Observed(f = 0, s, a, b)        the output future was seen in a new state (a = 1 exception, b = object id)
     OutShape(s, a, xs)              the value held by a finished output of f_zip/f_sequence/f_traverse:
                                     s = "tuple" | "list" | other type name, a = length, xs = element ids
     CancelCall(f = 0) / CancelRet(f = 0, a)   a client cancels the output
     FnCall(k) / FnRet(k) / FnRaise(k, b)      f_traverse's fn is called with element k (1-based) / raised b
     End                             end of the execution: the clauses about the final outcome hang here

   Linearisation.  Completions performed by different threads overlap, so "the order in which inputs
   finish" is only known up to the real-time order of the calls: a completion takes effect somewhere
   between its InputSetCall and its InputSetRet - and, for the combinator, not before the combinator was
   called nor (for an input that was already done) after it returned, hence the *effective interval*
       [ max(call, CombCall) , max(ret, CombRet) ]      (positions in the total event order).
   The fold clauses say: the output equals the fold over SOME linearisation consistent with these
   intervals.  No permutation has to be enumerated: intervals form an interval order, so
       "i can be the first member of S in some consistent linearisation"  <=>  no j in S ends before i begins
       "i can be the last completion of all"                              <=>  no j begins after i ended
   (if an edge i -> s is added for every s in S, a cycle would need s <* i, and in an interval order
   s < x < i implies s < i).  These closed forms also keep the 200-input sequential cases cheap.

   Deliberately not demanded (the statement does not): anything about waiters of a cancelled output
   (CANCELLED and CANCELLED_AND_NOTIFIED both count as cancelled: C02/D4); cancellation of the other
   inputs of f_zip when one input fails; a deadline for the fan-out of an output cancel other than the end
   of the execution; a cancel() request for a loser whose own completion was already under way.
*)
EXTENDS ObsKit

BIG == 1000000000
\* eager finite-map update (ObsKit's Put builds a lazily evaluated function, which TLC cannot spill to disk
\* when an implementation spec's state queue grows)
PutE(m, key, v) == (key :> v) @@ m
BoolOps == {"or", "and"}
ZipOps  == {"zip", "sequence", "traverse"}

ObsInit == [op |-> "", n |-> 0, pos |-> <<>>, k |-> 0,
            nested |-> FALSE,      \* op(op(some inputs), other inputs): two combinators, judged as one fold
            ccall |-> 0, cret |-> 0,
            tent |-> <<>>,         \* f -> <<index of InputSetCall, kind, id, 1>> while the call has not returned
            call |-> <<>>,         \* f -> index of the InputSetCall that completed f
            ret  |-> <<>>,         \* f -> index of its InputSetRet
            kind |-> <<>>, val |-> <<>>,
            carr |-> <<>>,         \* f -> index of the first cancel() request that arrived at input f
            ost |-> "PENDING", oa |-> -1, ob |-> -1,
            shape |-> <<"", -1, <<>>>>,
            ucall |-> FALSE,       \* a client called cancel() on the output
            ufail |-> FALSE,       \* ... and it returned False
            ucret |-> 0,           \* index of the client's cancel() of the output that returned True (0: none)
            fncalls |-> 0, fnraise |-> 0, fnexc |-> -1]

InCall(st, f) == Has(st.tent, f) /\ st.tent[f][4] = 1
ObsNext(st0, e) ==
  LET st == [st0 EXCEPT !.k = @ + 1]
      i  == st0.k + 1
  IN CASE e.ev = "Cfg" -> [st EXCEPT !.op = e.s, !.n = e.a, !.pos = e.xs, !.nested = (e.b = 1)]
       [] e.ev = "CombCall" -> [st EXCEPT !.ccall = i]
       [] e.ev = "CombRet" -> [st EXCEPT !.cret = i]
       [] e.ev = "InputSetCall" -> [st EXCEPT !.tent = PutE(@, e.f, <<i, e.a, e.b, 1>>)]
       [] e.ev = "InputSetRet" /\ InCall(st, e.f) ->
            IF e.a = 1 /\ ~Has(st.call, e.f)
              THEN [st EXCEPT !.call = PutE(@, e.f, st.tent[e.f][1]), !.ret = PutE(@, e.f, i),
                              !.kind = PutE(@, e.f, st.tent[e.f][2]), !.val = PutE(@, e.f, st.tent[e.f][3]),
                              !.tent = PutE(@, e.f, <<0, 0, 0, 0>>)]
              ELSE [st EXCEPT !.tent = PutE(@, e.f, <<0, 0, 0, 0>>)]
       [] e.ev = "CancelArrived" /\ e.s = "input" /\ ~Has(st.carr, e.f) -> [st EXCEPT !.carr = PutE(@, e.f, i)]
       [] e.ev = "Observed" /\ e.f = 0 -> [st EXCEPT !.ost = e.s, !.oa = e.a, !.ob = e.b]
       [] e.ev = "OutShape" -> [st EXCEPT !.shape = <<e.s, e.a, e.xs>>]
       [] e.ev = "CancelCall" /\ e.f = 0 -> [st EXCEPT !.ucall = TRUE]
       [] e.ev = "CancelRet" /\ e.f = 0 /\ e.a = 0 -> [st EXCEPT !.ufail = TRUE]
       [] e.ev = "CancelRet" /\ e.f = 0 /\ e.a = 1 /\ st0.ucret = 0 -> [st EXCEPT !.ucret = i]
       [] e.ev = "FnCall" -> [st EXCEPT !.fncalls = @ + 1]
       [] e.ev = "FnRaise" -> [st EXCEPT !.fnraise = e.k, !.fnexc = e.b]
       [] OTHER -> st

\* The clauses only compare positions in the event order, never their values, and a future event is later
\* than every recorded one: two observable states whose recorded positions are order-isomorphic have the
\* same future.  The implementation specs use this rank-compressed form of `st` in their VIEW.
IdxSet(st) == ({st.ccall, st.cret, st.ucret} \cup {st.call[i] : i \in DOMAIN st.call} \cup {st.ret[i] : i \in DOMAIN st.ret}
               \cup {st.tent[i][1] : i \in DOMAIN st.tent} \cup {st.carr[i] : i \in DOMAIN st.carr}) \ {0}
RankOf(st, v) == IF v = 0 THEN 0 ELSE Cardinality({u \in IdxSet(st) : u <= v})
RankView(st) ==
  [st EXCEPT !.k = 0, !.ccall = RankOf(st, @), !.cret = RankOf(st, @), !.ucret = RankOf(st, @),
             !.call = [i \in DOMAIN @ |-> RankOf(st, @[i])], !.ret = [i \in DOMAIN @ |-> RankOf(st, @[i])],
             !.tent = [i \in DOMAIN @ |-> <<RankOf(st, @[i][1]), @[i][2], @[i][3], @[i][4]>>],
             !.carr = [i \in DOMAIN @ |-> RankOf(st, @[i])]]

\* ------------------------------------------------------------------ derived notions (used at End)
Inputs(st) == {st.pos[p] : p \in DOMAIN st.pos}
\* a completion whose call never returned (only if the execution was cut short) may have taken effect
Completed(st) == DOMAIN st.call \cup {f \in DOMAIN st.tent : st.tent[f][4] = 1}
CallOf(st, i) == IF Has(st.call, i) THEN st.call[i] ELSE st.tent[i][1]
RetOf(st, i)  == IF Has(st.ret, i) THEN st.ret[i] ELSE BIG
KindOf(st, i) == IF Has(st.kind, i) THEN st.kind[i] ELSE st.tent[i][2]
ValOf(st, i)  == IF Has(st.val, i) THEN st.val[i] ELSE st.tent[i][3]
ECall(st, i) == Max(CallOf(st, i), st.ccall)
ERet(st, i)  == Max(RetOf(st, i), IF st.cret = 0 THEN BIG ELSE st.cret)

OutcomeOf(st, i) ==
  LET kd == KindOf(st, i) IN
    IF kd \in {1, 2} THEN <<"value", ValOf(st, i)>> ELSE IF kd = 3 THEN <<"exc", ValOf(st, i)>> ELSE <<"cancelled", 0>>

ObservedOutcome(st) ==
  IF st.ost \in CancelledStates THEN <<"cancelled", 0>>
  ELSE IF st.ost = "FINISHED"
         THEN (IF st.oa = 1 THEN <<"exc", st.ob>> ELSE IF st.op \in ZipOps THEN <<"tuple", 0>> ELSE <<"value", st.ob>>)
         ELSE <<"pending", 0>>

\* the kinds of completion that decide the output on their own
TriggerKinds(st) == IF st.op = "or" THEN {1} ELSE IF st.op = "and" THEN {2, 3, 4} ELSE {3, 4}
Trig(st) == {i \in Completed(st) \cap Inputs(st) : KindOf(st, i) \in TriggerKinds(st)}
FirstCands(st, S) == {i \in S : \A j \in S \ {i} : ~(ERet(st, j) < ECall(st, i))}
LastCands(st) == LET C == Completed(st) \cap Inputs(st) IN {i \in C : \A j \in C \ {i} : ~(ERet(st, i) < ECall(st, j))}
AllDone(st) == Inputs(st) \subseteq Completed(st)

\* inputs that can have decided the output in some consistent linearisation
Deciders(st) ==
  IF Trig(st) # {} THEN FirstCands(st, Trig(st))
  ELSE IF AllDone(st) /\ st.op \in BoolOps THEN LastCands(st) ELSE {}

\* the outcomes the output may have, over all consistent linearisations
Expected(st) ==
  IF st.fnraise > 0 THEN {<<"exc", st.fnexc>>}
  ELSE IF Trig(st) # {} THEN {OutcomeOf(st, d) : d \in FirstCands(st, Trig(st))}
  ELSE IF AllDone(st) THEN (IF st.op \in ZipOps THEN {<<"tuple", 0>>} ELSE {OutcomeOf(st, d) : d \in LastCands(st)})
  ELSE {<<"pending", 0>>}

\* a client's cancel() of the output that did not return False overrides the fold (the output is then cancelled)
Waived(st) == st.ucall /\ ~st.ufail /\ ObservedOutcome(st) = <<"cancelled", 0>>

\* inputs whose own completion had not even begun when the deciding call returned
PendingAt(st, d) == {j \in Inputs(st) \ {d} : j \notin Completed(st) \/ CallOf(st, j) > ERet(st, d)}
LosersCancelledBy(st, d) == \A j \in PendingAt(st, d) : Has(st.carr, j) /\ st.carr[j] < ERet(st, d)

\* Two nested combinators op(op(..), ..) are judged as ONE fold - sound as long as the completions of the inputs do not
\* overlap: the fold is associative and idempotent over a sequence.  When two completion calls overlap, the inner
\* operation may be decided (under its lock) by a call that publishes the inner output only later: a third input that
\* completes in between is absorbed by the already decided inner operation, the outer one is decided by a later input,
\* and the inner losers get their cancel() within the inner decider's call - every one of the two operations behaves
\* as the property says, their composition is not the flat fold over the real-time order.  Not judged then.
NestedRace(st) ==
  /\ st.nested
  /\ \E i, j \in Completed(st) \cap Inputs(st) :
        i # j /\ ~(RetOf(st, i) < CallOf(st, j)) /\ ~(RetOf(st, j) < CallOf(st, i))

\* every input still pending when the output was cancelled got a cancel() request: an input whose own completion only
\* began after the client's cancel() of the output had returned True must have received one (completing later by
\* itself is no excuse); for a cancellation that came from an input, having completed by the end is enough
FansOut(st) == \A j \in Inputs(st) :
                  \/ Has(st.carr, j)
                  \/ (j \in Completed(st) /\ (st.ucret = 0 \/ CallOf(st, j) < st.ucret))

AtEnd(st, e, ops) == e.ev = "End" /\ st.op \in ops /\ st.cret > 0

ExcOutcomes(S) == \A x \in S : x[1] = "exc"

Clauses(st, e) ==
  << <<"C14_CallReturnsOutput",
        (e.ev = "CombRaise" /\ st.op \in BoolOps) => FALSE>>,
     <<"C15_CallReturnsOutput",
        (e.ev = "CombRaise" /\ st.op \in ZipOps) => FALSE>>,
     <<"C14_CompletionUndisturbed",   \* completing an input never raises on behalf of the combinator watching it
        (e.ev = "InputSetRaise" /\ st.op \in BoolOps) => FALSE>>,
     <<"C15_CompletionUndisturbed",
        (e.ev = "InputSetRaise" /\ st.op \in ZipOps) => FALSE>>,
     <<"C14_CompletionReturns",       \* ... and returns: no thread is left waiting for a lock when everything is over
        (e.ev = "BlockedAtEnd" /\ st.op \in BoolOps) => e.s # "acquire">>,
     <<"C15_CompletionReturns",
        (e.ev = "BlockedAtEnd" /\ st.op \in ZipOps) => e.s # "acquire">>,
     <<"C14_Fold",
        AtEnd(st, e, BoolOps) => (Waived(st) \/ NestedRace(st) \/ ObservedOutcome(st) \in Expected(st))>>,
     <<"C14_LosersCancelled",
        (AtEnd(st, e, BoolOps) /\ ~Waived(st) /\ ~NestedRace(st) /\ ObservedOutcome(st) \in Expected(st)
            /\ ObservedOutcome(st) # <<"pending", 0>>) =>
          \E d \in Deciders(st) : OutcomeOf(st, d) = ObservedOutcome(st) /\ LosersCancelledBy(st, d)>>,
     <<"C14_OutputCancelFansOut",
        (AtEnd(st, e, BoolOps) /\ ObservedOutcome(st) = <<"cancelled", 0>>) => FansOut(st)>>,
     <<"C14_SingleInputIdentity",
        (e.ev = "CombRet" /\ st.op \in BoolOps /\ st.n = 1) => e.c = 1>>,
     <<"C14_NoCancelShield",
        (e.ev = "CancelArrived" /\ st.op \in BoolOps) => e.s # "inner">>,
     <<"C15_Positions",
        (AtEnd(st, e, ZipOps) /\ ObservedOutcome(st) = <<"tuple", 0>>) =>
          /\ st.fnraise = 0
          /\ \A i \in Inputs(st) : i \in Completed(st) /\ KindOf(st, i) \in {1, 2}
          /\ st.shape[2] = st.n /\ Len(st.shape[3]) = st.n
          /\ \A p \in 1..st.n : st.shape[3][p] = ValOf(st, st.pos[p])>>,
     <<"C15_Type",
        (AtEnd(st, e, ZipOps) /\ ObservedOutcome(st) = <<"tuple", 0>>) =>
          st.shape[1] = (IF st.op = "zip" THEN "tuple" ELSE "list")>>,
     <<"C15_TraverseFnException",
        (AtEnd(st, e, {"traverse"}) /\ st.fnraise > 0) => ObservedOutcome(st) = <<"exc", st.fnexc>>>>,
     <<"C15_FirstFailure",
        AtEnd(st, e, ZipOps) =>
          /\ ObservedOutcome(st)[1] = "exc" => ObservedOutcome(st) \in Expected(st)
          /\ ~(ObservedOutcome(st) = <<"pending", 0>> /\ ExcOutcomes(Expected(st)))>>,
     <<"C15_CancelledIfInputCancelledFirst",
        (AtEnd(st, e, ZipOps) /\ ~Waived(st)) =>
          /\ ObservedOutcome(st) = <<"cancelled", 0>> => <<"cancelled", 0>> \in Expected(st)
          /\ ~(ObservedOutcome(st) = <<"pending", 0>> /\ <<"cancelled", 0>> \in Expected(st))>>,
     <<"C15_Outcome",
        AtEnd(st, e, ZipOps) => (Waived(st) \/ ObservedOutcome(st) \in Expected(st))>>,
     <<"C15_OutputCancelFansOut",
        (AtEnd(st, e, ZipOps) /\ ObservedOutcome(st) = <<"cancelled", 0>>) => FansOut(st)>>,
     <<"C15_TraverseOncePerElementInOrder",
        /\ e.ev = "FnCall" => (e.k = st.fncalls + 1 /\ e.k <= st.n /\ st.fnraise = 0)
        /\ AtEnd(st, e, {"traverse"}) => st.fncalls = (IF st.fnraise > 0 THEN st.fnraise ELSE st.n)>> >>
=============================================================================
