---------------------------- MODULE BindObs ----------------------------
(* Contract of C19: "bind / flat_bind chains are equivalent to the executor chain; names propagate",
   over paired programs.  One trace = one generated program

       base executor (sync / thread pool, optionally named)  +  chain of with_* layers L1 .. Ld
       +  bind position p in 0..d  +  a callable fn  +  submissions (argument lists)

   executed by the harness in up to three forms, each on freshly built executors and a fresh copy of fn:
       form 1   base.with_L1()...with_Ld()                                 and  executor.submit(fn, args...)
                (flat programs: the identity flat_map layer is inserted at position p of the executor chain)
       form 2   base.with_L1()...with_Lp().bind(fn).with_L(p+1)()...with_Ld()         and  bound(args...)
                (flat programs: ...bind(fn).with_flat_map(identity).with_L(p+1)...)
       form 3   (flat programs only) base.with_L1()...with_Lp().flat_bind(fn).with_L(p+1)...with_Ld()

   Events (fixed record, see ObsKit):
     Cfg(a = depth d, b = bind position p, c = 1 iff flat program, k = callable kind, s = base kind)
     Layer(k = position 0..d (0 = the base executor), s = layer type,
           a = id of the name given explicitly to this layer (1 = the base's name, 2.. = others), 0 = none given)
     FormOutcome(a = form, f = submission, b = outcome code, c = number of invocations of fn)
           outcome code = the term of the final outcome in a canonical integer encoding (which value object /
           which exception, through which tagging layers, nested in a future or not), computed by the harness
     Flattened(a = form, f = submission, b)    flat programs with a future-returning fn: b = 1 iff the bound
           callable's future resolved with the inner future's own outcome and no future nested in it
     FormsDone                                  all forms have run
     ThreadNamed(f = form, k = layer position, s = layer type, a = id of the name that appears in the name of a
           thread created by that layer (0 = "default", 9 = none of the names of the program),
           b = 1 iff the layer was created by a with_* call AFTER bind()/flat_bind() in this form, c = class prefix ok)
     End
   The oracle for names is ExpName: the name given explicitly to the nearest layer at or below the position,
   which for a chain without mid-chain names is "the name given to the base executor".  Nothing is demanded of
   layers for which no name was given anywhere below (their default name is not part of the statement).
*)
EXTENDS ObsKit

ObsInit == [layers |-> EmptyMap,   \* position -> <<type, explicit name id or 0>>
            out |-> EmptyMap,      \* <<form, submission>> -> <<outcome code, invocations>>
            flat |-> FALSE]

ObsNext(st, e) ==
  CASE e.ev = "Cfg" -> [st EXCEPT !.flat = (e.c = 1)]
    [] e.ev = "Layer" -> [st EXCEPT !.layers = Put(@, e.k, <<e.s, e.a>>)]
    [] e.ev = "FormOutcome" -> [st EXCEPT !.out = Put(@, <<e.a, e.f>>, <<e.b, e.c>>)]
    [] OTHER -> st

MaxOf(S) == CHOOSE x \in S : \A y \in S : y <= x
\* the name a layer at position k has to carry: explicit names override from their position onward
ExpName(st, k) ==
  LET named == {i \in DOMAIN st.layers : i <= k /\ st.layers[i][2] > 0}
  IN IF named = {} THEN 0 ELSE st.layers[MaxOf(named)][2]

Subs(st, form) == {key[2] : key \in {x \in DOMAIN st.out : x[1] = form}}
Judged(st, e) == e.ev = "ThreadNamed" /\ Has(st.layers, e.k) /\ ExpName(st, e.k) # 0

Clauses(st, e) ==
  << \* "behaves exactly like the executor with the same chain applied and fn submitted - same outcomes"
     <<"C19_SameOutcome",
        /\ (e.ev = "FormOutcome" /\ e.a = 2 /\ Has(st.out, <<1, e.f>>)) => st.out[<<1, e.f>>][1] = e.b
        /\ e.ev = "FormsDone" => Subs(st, 1) = Subs(st, 2)>>,
     \* "same number of invocations"
     <<"C19_SameInvocations",
        (e.ev = "FormOutcome" /\ e.a = 2 /\ Has(st.out, <<1, e.f>>)) => st.out[<<1, e.f>>][2] = e.c>>,
     \* "so a future returned by fn is flattened rather than nested"
     <<"C19_Flattened",
        (e.ev = "Flattened" /\ e.a = 3) => e.b = 1>>,
     \* "flat_bind(fn) equals bind(fn).with_flat_map(identity)"
     <<"C19_FlatBindEqualsBindFlatMap",
        /\ (e.ev = "FormOutcome" /\ e.a = 3 /\ Has(st.out, <<2, e.f>>)) => st.out[<<2, e.f>>] = <<e.b, e.c>>
        /\ (e.ev = "FormsDone" /\ st.flat) => Subs(st, 3) = Subs(st, 2)>>,
     \* "a name given to the base executor is inherited by every layer created by chaining and appears in the
     \*  names of the threads those layers create" - layers created before bind (and the plain executor chain) ...
     <<"C19_NameInThreadNamesBeforeBind",
        (Judged(st, e) /\ e.b = 0) => e.a = ExpName(st, e.k)>>,
     \* ... and every layer, wherever it was created (bound callables alike)
     <<"C19_NameInThreadNames",
        Judged(st, e) => e.a = ExpName(st, e.k)>> >>
=============================================================================
