---------------------------- MODULE Retry ----------------------------
(* Implementation-shaped specification of RetryExecutor (more_executors/_impl/retry.py) with
   ExceptionRetryPolicy, at the granularity of the engine's visible synchronisation operations:

       visible primitives = the shutdown gate, executor._lock (RLock over _jobs), executor._submit_event,
                            virtual-time sleeps of the driver threads.

   The per-future lock (_me_lock) is not a scheduling point, but it is modelled (`melock`) because two code
   paths hold it ACROSS visible operations - cancel() (from its start to its end) and _submit_now (while
   it waits for executor._lock) - and four paths may have to wait for it.  A thread that has to wait for it
   parks (pc "*_me") and resumes *urgently* as soon as it is free: the engine does exactly that with
   threads parked on un-modelled primitives, so those resume steps carry the silent actor <<"-", 0>>.

   Threads:  Sub(j)   client submitting callable j at time cfgS[j]
             Env(j)   the delegate's work for the current attempt of j (cfgD ticks per attempt; outcome of
                      attempt k = cfgScript[j][k], last entry repeating: "V" value, "E" retryable exception,
                      "F" exception outside exception_base)
             Can(j), Can2(j)  clients calling cancel() on future j at times cfgK[j], cfgK2[j] (>= 90000: never)
             LOOP     _submit_loop,  OBS the harness observer
   _jobs is a sequence of records [f, d (has a delegate future), att, when, stop].

   AsShipped_D9 = TRUE models upstream 2.11.4: (D9) a cancel() that finds no job for a future that is not done -
   it landed between the loop's "discard job due to cancel" _pop_job and the copy_future that follows -
   fails the "Cancel called on orphan" assertion (clause C02_CancelNeverRaises); (D9b) copy_future sets a
   successful result with the raising setter, so if the future was cancelled after the loop selected the
   stopped job, InvalidStateError kills the loop thread (clause C18_WorkerSurvives; only reachable with a policy
   that retries successful results: RetryOnValue).  FALSE models the repaired code (commits c0cff41, b8699f2):
   such a cancel() returns False and the setter is tolerant.
   AsShipped_D8 = TRUE: the done-callback of a delegate that cancel() cancelled returns without removing the job,
   which therefore stays in _jobs for ever (invariant NoStaleJobAtEnd); FALSE: it pops it (commit 4328398).
*)
EXTENDS RetryObs

CONSTANTS Jobs, Scripts, SubmitTimes, Dur, CancelTimes, CancelTimes2, CancelVals,
          MaxAttempts, Sleep, Expo, MaxSleep, RetryOnValue, Horizon, KeepHist, AsShipped_D9, AsShipped_D8, Bug

\* script families for the configs (cfg files cannot contain tuples)
ScriptsSmall == {<<"V">>, <<"E", "V">>, <<"E", "E", "E">>, <<"E", "F">>, <<"F">>}
ScriptsRetry == {<<"E", "V">>, <<"E", "E", "V">>}
ScriptsValue == {<<"V", "V">>, <<"V", "E", "V">>}

NoOne == <<"none", 0>>
Silent == <<"-", 0>>
LOOP == <<"loop", 0>>
OBS  == <<"obs", 0>>
Sub(j) == <<"sub", j>>
Env(j) == <<"env", j>>
Can(j) == <<"can", j>>
Can2(j) == <<"cab", j>>
Threads == {LOOP, OBS} \cup UNION {{Sub(j), Env(j), Can(j), Can2(j)} : j \in Jobs}

VARIABLES cfgScript, cfgS, cfgK, cfgK2, cfgC,
          pc, jobs, gate, evt, woken, melock, fst, dst, att, ljob, wt, wdl, edl, esleep, now,
          lchk,      \* Bug = "done_check_before_locks" only: what future.done() answered BEFORE the locks were taken
          obs, viol, hist, actor

cfg  == <<cfgScript, cfgS, cfgK, cfgK2, cfgC>>
vars == <<cfgScript, cfgS, cfgK, cfgK2, cfgC, pc, jobs, gate, evt, woken, melock, fst, dst, att, ljob, wt, wdl,
          edl, esleep, now, lchk, obs, viol, hist, actor>>

RECURSIVE Feed(_, _, _)
Feed(o, v, evs) ==
  IF evs = <<>> THEN <<o, v>>
  ELSE LET e == Head(evs)
           ff == FirstFailed(Clauses(o, e))
       IN Feed(ObsNext(o, e), IF v = "ok" THEN ff ELSE v, Tail(evs))
Emit(evs) ==
  LET r == Feed(obs, viol, evs) IN
    /\ obs' = r[1] /\ viol' = r[2]
    /\ hist' = IF KeepHist THEN hist \o [i \in 1..Len(evs) |-> <<evs[i].ev, evs[i].f, evs[i].t>>] ELSE hist
NoEmit == UNCHANGED <<obs, viol, hist>>

NoJob == [f |-> 0, d |-> FALSE, att |-> 0, when |-> 0, stop |-> FALSE]

Init ==
  /\ cfgScript \in [Jobs -> Scripts] /\ cfgS \in [Jobs -> SubmitTimes]
  /\ cfgK \in [Jobs -> CancelTimes] /\ cfgK2 \in [Jobs -> CancelTimes2] /\ cfgC \in [Jobs -> CancelVals]
  /\ pc = [t \in Threads |-> IF t = LOOP THEN "l_top" ELSE IF t = OBS THEN "o_sleep"
                              ELSE IF t[1] = "sub" THEN "s_sleep" ELSE IF t[1] = "env" THEN "e_idle" ELSE "c_idle"]
  /\ jobs = <<>> /\ gate = NoOne /\ evt = FALSE /\ woken = FALSE
  /\ melock = [j \in Jobs |-> NoOne]
  /\ fst = [j \in Jobs |-> "new"] /\ dst = [j \in Jobs |-> "none"] /\ att = [j \in Jobs |-> 0]
  /\ lchk = FALSE /\ ljob = NoJob /\ wt = -1 /\ wdl = -1
  /\ edl = [j \in Jobs |-> -1] /\ esleep = [j \in Jobs |-> 0] /\ now = 0
  /\ obs = ObsNext(ObsInit, Ev("Cfg", "-", "main", 0, -1, MaxSleep, MaxAttempts, Sleep, Expo,
                              IF RetryOnValue THEN "custom" ELSE "exc", <<>>))
  /\ viol = "ok" /\ hist = <<>> /\ actor = Silent

SetEvent == evt' = TRUE /\ woken' = (woken \/ pc[LOOP] = "l_blocked")

\* ------------------------------------------------------------------ urgent (silent) resumptions
G_LMe == pc[LOOP] = "l_sn_me" /\ melock[ljob.f] = NoOne
G_LTermMe == pc[LOOP] = "l_term_me" /\ melock[ljob.f] = NoOne
G_ETermMe(j) == pc[Env(j)] = "e_term_me" /\ melock[j] = NoOne
G_CMe(c) == pc[c] = "c_me" /\ melock[c[2]] = NoOne
Cans == UNION {{Can(j), Can2(j)} : j \in Jobs}
UrgentEnabled == G_LMe \/ G_LTermMe \/ (\E j \in Jobs : G_ETermMe(j)) \/ (\E c \in Cans : G_CMe(c))
NU == ~UrgentEnabled     \* ordinary steps wait while a silent resumption is possible (the engine resumes eagerly)

\* ------------------------------------------------------------------ helpers on _jobs
IdxOf(f, d) == IF \E i \in DOMAIN jobs : jobs[i].f = f /\ jobs[i].d = d
                 THEN CHOOSE i \in DOMAIN jobs : jobs[i].f = f /\ jobs[i].d = d /\
                          \A k \in DOMAIN jobs : (jobs[k].f = f /\ jobs[k].d = d) => i <= k
                 ELSE 0
IdxOfF(f) == IF \E i \in DOMAIN jobs : jobs[i].f = f
               THEN CHOOSE i \in DOMAIN jobs : jobs[i].f = f /\ \A k \in DOMAIN jobs : jobs[k].f = f => i <= k
               ELSE 0
IdxOfRec(r) == IF \E i \in DOMAIN jobs : jobs[i] = r
                 THEN CHOOSE i \in DOMAIN jobs : jobs[i] = r /\ \A k \in DOMAIN jobs : jobs[k] = r => i <= k
                 ELSE 0
Remove(s, i) == IF i = 0 THEN s ELSE SubSeq(s, 1, i - 1) \o SubSeq(s, i + 1, Len(s))

\* _get_next_job: first job without delegate that is stopped or due, else the one with the least `when`
Cand == SelectSeq(jobs, LAMBDA r : ~r.d)
\* seeded model bug stop_priority_lost (change C03-r4m1): a job whose retries were stopped is no longer taken at once
Prio(r) == (r.stop /\ Bug # "stop_priority_lost") \/ r.when <= now
NextJob ==
  IF Cand = <<>> THEN NoJob
  ELSE IF \E i \in DOMAIN Cand : Prio(Cand[i])
         THEN Cand[CHOOSE i \in DOMAIN Cand : Prio(Cand[i]) /\ \A k \in DOMAIN Cand : Prio(Cand[k]) => i <= k]
         ELSE Cand[CHOOSE i \in DOMAIN Cand : (\A k \in DOMAIN Cand : Cand[i].when <= Cand[k].when) /\
                      \A k \in DOMAIN Cand : (\A m \in DOMAIN Cand : Cand[k].when <= Cand[m].when) => i <= k]

OutcomeOf(j, k) == LET s == cfgScript[j] IN s[Min(k, Len(s))]
OutA(o) == IF o = "V" THEN 0 ELSE IF o = "E" THEN 1 ELSE 2
RECURSIVE PowR(_, _)
PowR(x, n) == IF n <= 0 THEN 1 ELSE x * PowR(x, n - 1)
SleepFor(k) == Min(Sleep * PowR(Expo, k - 1), MaxSleep)

\* resolve future j with the outcome of its last attempt (copy_future); returns the events
ResolveEvents(j) ==
  <<ESA("Observed", "x", now, j, "FINISHED", IF OutA(OutcomeOf(j, att[j])) > 0 THEN 1 ELSE 0, j * 10 + att[j])>>

\* ------------------------------------------------------------------ submit()
G_SSleep(j) == pc[Sub(j)] = "s_sleep" /\ now >= cfgS[j]
SSleep(j) ==
  /\ G_SSleep(j) /\ NU
  /\ pc' = [pc EXCEPT ![Sub(j)] = "s_gate"]
  /\ Emit(<<E1("SubmitCall", "client", now, j)>>)
  /\ actor' = Sub(j)
  /\ UNCHANGED <<lchk, cfg, jobs, gate, evt, woken, melock, fst, dst, att, ljob, wt, wdl, edl, esleep, now>>

G_SGate(j) == pc[Sub(j)] = "s_gate" /\ gate = NoOne
SGate(j) ==    \* with ensure_alive(): RetryFuture(self); job; _append_job -> executor._lock
  /\ G_SGate(j) /\ NU
  /\ gate' = Sub(j)
  /\ fst' = [fst EXCEPT ![j] = "pending"]
  /\ pc' = [pc EXCEPT ![Sub(j)] = "s_lock"]
  /\ actor' = Sub(j) /\ NoEmit
  /\ UNCHANGED <<lchk, cfg, jobs, evt, woken, melock, dst, att, ljob, wt, wdl, edl, esleep, now>>

G_SLock(j) == pc[Sub(j)] = "s_lock"
SLock(j) ==
  /\ G_SLock(j) /\ NU
  /\ jobs' = Append(jobs, [f |-> j, d |-> FALSE, att |-> 0, when |-> now, stop |-> FALSE])
  /\ pc' = [pc EXCEPT ![Sub(j)] = "s_set"]
  /\ actor' = Sub(j) /\ NoEmit
  /\ UNCHANGED <<lchk, cfg, gate, evt, woken, melock, fst, dst, att, ljob, wt, wdl, edl, esleep, now>>

G_SSet(j) == pc[Sub(j)] = "s_set"
SSet(j) ==
  /\ G_SSet(j) /\ NU
  /\ SetEvent
  /\ gate' = NoOne
  /\ pc' = [pc EXCEPT ![Sub(j)] = "done",
                      ![Can(j)] = IF cfgK[j] < 90000 THEN "c_sleep" ELSE "c_never",
                      ![Can2(j)] = IF cfgK2[j] < 90000 THEN "c_sleep" ELSE "c_never"]
  /\ Emit(<<E1("SubmitRet", "client", now, j)>>)
  /\ actor' = Sub(j)
  /\ UNCHANGED <<lchk, cfg, jobs, melock, fst, dst, att, ljob, wt, wdl, edl, esleep, now>>

\* ------------------------------------------------------------------ the submit loop
G_LGet == pc[LOOP] = "l_top"
LGet ==        \* with executor._lock: job = _get_next_job(); then branch
  /\ G_LGet /\ NU
  /\ LET job == NextJob IN
       /\ ljob' = job
       /\ IF job = NoJob
            THEN /\ wt' = -1 /\ pc' = [pc EXCEPT ![LOOP] = "l_wait"] /\ UNCHANGED melock
            ELSE IF job.stop
              THEN /\ pc' = [pc EXCEPT ![LOOP] = "l_popstop"] /\ UNCHANGED <<wt, melock>>
              ELSE IF job.when <= now
                THEN IF melock[job.f] = NoOne
                       THEN /\ melock' = [melock EXCEPT ![job.f] = LOOP]
                            /\ pc' = [pc EXCEPT ![LOOP] = "l_sn"] /\ UNCHANGED wt
                       ELSE /\ pc' = [pc EXCEPT ![LOOP] = "l_sn_me"] /\ UNCHANGED <<wt, melock>>
                ELSE /\ wt' = job.when - now /\ pc' = [pc EXCEPT ![LOOP] = "l_wait"] /\ UNCHANGED melock
  \* seeded model bug (change C06-r3m1): _submit_now asks future.done() first, lock-free ("cancelled while queued: just
  \* drop the job") and no longer under the locks
  /\ lchk' = (NextJob # NoJob /\ fst[NextJob.f] # "pending")
  /\ actor' = LOOP /\ NoEmit
  /\ UNCHANGED <<cfg, jobs, gate, evt, woken, fst, dst, att, wdl, edl, esleep, now>>

\* urgent: the loop was waiting for the future's lock
LMe ==
  /\ G_LMe
  /\ melock' = [melock EXCEPT ![ljob.f] = LOOP]
  /\ pc' = [pc EXCEPT ![LOOP] = "l_sn"]
  /\ actor' = Silent /\ NoEmit
  /\ UNCHANGED <<lchk, cfg, jobs, gate, evt, woken, fst, dst, att, ljob, wt, wdl, edl, esleep, now>>

G_LSubmitNow == pc[LOOP] = "l_sn"
LSubmitNow ==  \* _submit_now: executor._lock; pop; done-check; delegate.submit; append running job
  /\ G_LSubmitNow /\ NU
  /\ LET j == ljob.f
         i == IdxOfRec(ljob)
     IN IF (IF Bug = "done_check_before_locks" THEN lchk ELSE fst[j] # "pending")
          THEN /\ jobs' = Remove(jobs, i)
               /\ melock' = [melock EXCEPT ![j] = NoOne]
               /\ pc' = [pc EXCEPT ![LOOP] = "l_top"]
               /\ NoEmit /\ UNCHANGED <<dst, att, edl>>
          ELSE /\ jobs' = Append(Remove(jobs, i), [f |-> j, d |-> TRUE, att |-> ljob.att + 1, when |-> 0, stop |-> FALSE])
               /\ melock' = [melock EXCEPT ![j] = NoOne]
               /\ dst' = [dst EXCEPT ![j] = "running"]
               /\ att' = [att EXCEPT ![j] = ljob.att + 1]
               /\ edl' = [edl EXCEPT ![j] = now + Dur]
               /\ pc' = [pc EXCEPT ![LOOP] = "l_sn_set", ![Env(j)] = "e_sleep"]
               /\ Emit(<<ES("DelegateSubmit", "retry", now, j, "tap")>>)
  /\ actor' = LOOP
  /\ UNCHANGED <<lchk, cfg, gate, evt, woken, fst, ljob, wt, wdl, esleep, now>>

G_LSNSet == pc[LOOP] = "l_sn_set"
LSNSet ==      \* delegate_future.add_done_callback(...); self._wake_thread()
  /\ G_LSNSet /\ NU
  /\ SetEvent
  /\ pc' = [pc EXCEPT ![LOOP] = "l_top"]
  /\ actor' = LOOP /\ NoEmit
  /\ UNCHANGED <<lchk, cfg, jobs, gate, melock, fst, dst, att, ljob, wt, wdl, edl, esleep, now>>

G_LPopStop == pc[LOOP] = "l_popstop"
LPopStop ==    \* "Discarding job due to cancel": _pop_job (executor._lock), then copy_future(old_delegate, future)
  /\ G_LPopStop /\ NU
  /\ LET j == ljob.f
         i == IdxOfRec(ljob)
     IN /\ jobs' = Remove(jobs, i)
        /\ IF melock[j] # NoOne
             THEN /\ pc' = [pc EXCEPT ![LOOP] = "l_term_me"] /\ NoEmit /\ UNCHANGED fst
             ELSE IF fst[j] = "pending"
               THEN /\ fst' = [fst EXCEPT ![j] = "done"]
                    /\ pc' = [pc EXCEPT ![LOOP] = "l_top"]
                    /\ Emit(ResolveEvents(j))
               ELSE IF AsShipped_D9 /\ OutcomeOf(j, att[j]) = "V"
                 THEN \* set_result on a cancelled future: InvalidStateError kills the loop thread
                      /\ pc' = [pc EXCEPT ![LOOP] = "dead"] /\ UNCHANGED fst
                      /\ Emit(<<Ev("ThreadExit", "-", "retry", now, -1, -1, 1, -1, -1, "loop", <<>>)>>)
                 ELSE \* tolerant setter: nothing happens
                      /\ pc' = [pc EXCEPT ![LOOP] = "l_top"] /\ NoEmit /\ UNCHANGED fst
  /\ actor' = LOOP
  /\ UNCHANGED <<lchk, cfg, gate, evt, woken, melock, dst, att, ljob, wt, wdl, edl, esleep, now>>

LTermMe ==     \* urgent: copy_future continues once the future's lock is free
  /\ G_LTermMe
  /\ LET j == ljob.f IN
       IF fst[j] = "pending"
         THEN /\ fst' = [fst EXCEPT ![j] = "done"] /\ pc' = [pc EXCEPT ![LOOP] = "l_top"] /\ Emit(ResolveEvents(j))
         ELSE IF AsShipped_D9 /\ OutcomeOf(j, att[j]) = "V"
           THEN /\ pc' = [pc EXCEPT ![LOOP] = "dead"] /\ UNCHANGED fst
                /\ Emit(<<Ev("ThreadExit", "-", "retry", now, -1, -1, 1, -1, -1, "loop", <<>>)>>)
           ELSE /\ pc' = [pc EXCEPT ![LOOP] = "l_top"] /\ NoEmit /\ UNCHANGED fst
  /\ actor' = Silent
  /\ UNCHANGED <<lchk, cfg, jobs, gate, evt, woken, melock, dst, att, ljob, wt, wdl, edl, esleep, now>>

G_LEnter == pc[LOOP] = "l_wait"
LEnter ==
  /\ G_LEnter /\ NU
  /\ IF evt THEN /\ pc' = [pc EXCEPT ![LOOP] = "l_clear"] /\ UNCHANGED wdl
            ELSE /\ pc' = [pc EXCEPT ![LOOP] = "l_blocked"] /\ wdl' = IF wt >= 0 THEN now + wt + 1 ELSE -1
  /\ actor' = LOOP /\ NoEmit
  /\ UNCHANGED <<lchk, cfg, jobs, gate, evt, woken, melock, fst, dst, att, ljob, wt, edl, esleep, now>>

G_LWake == pc[LOOP] = "l_blocked" /\ (woken \/ (wdl >= 0 /\ now >= wdl))
LWake ==
  /\ G_LWake /\ NU
  /\ woken' = FALSE
  /\ pc' = [pc EXCEPT ![LOOP] = "l_clear"]
  /\ actor' = LOOP /\ NoEmit
  /\ UNCHANGED <<lchk, cfg, jobs, gate, evt, melock, fst, dst, att, ljob, wt, wdl, edl, esleep, now>>

G_LClear == pc[LOOP] = "l_clear"
LClear ==
  /\ G_LClear /\ NU
  /\ evt' = FALSE
  /\ pc' = [pc EXCEPT ![LOOP] = "l_top"]
  /\ actor' = LOOP /\ NoEmit
  /\ UNCHANGED <<lchk, cfg, jobs, gate, woken, melock, fst, dst, att, ljob, wt, wdl, edl, esleep, now>>

\* ------------------------------------------------------------------ the delegate's work and _delegate_callback
G_EFinish(j) == pc[Env(j)] = "e_sleep" /\ now >= edl[j]
EFinish(j) ==
  /\ G_EFinish(j) /\ NU
  /\ IF dst[j] = "cancelled"
       THEN /\ pc' = [pc EXCEPT ![Env(j)] = "e_idle"] /\ NoEmit /\ UNCHANGED <<dst, esleep, fst>>
       ELSE LET k == att[j]
                o == OutcomeOf(j, k)
                i == IdxOf(j, TRUE)
                stopped == i # 0 /\ jobs[i].stop
                retry == ~stopped /\ (o = "E" \/ (RetryOnValue /\ o = "V")) /\ k < MaxAttempts
                evs0 == <<EK("Invoke", "env", now, j, k, -1, -1, "call"),
                          EK("InvokeEnd", "env", now, j, k, OutA(o), j * 10 + k, "call")>>
                evsD == <<ES("DelegateState", "env", now, j, "FINISHED")>>   \* polled: after the step's own events
                evsP == IF stopped THEN <<>>
                        ELSE <<EK("ShouldRetry", "env", now, j, k, IF retry THEN 1 ELSE 0, -1, "")>> \o
                             (IF retry THEN <<EK("SleepTime", "env", now, j, k, SleepFor(k), -1, "")>> ELSE <<>>)
            IN /\ dst' = [dst EXCEPT ![j] = "done"]
               /\ IF retry
                    THEN /\ esleep' = [esleep EXCEPT ![j] = SleepFor(k)]
                         /\ pc' = [pc EXCEPT ![Env(j)] = "e_retry"]
                         /\ Emit(evs0 \o evsP \o evsD) /\ UNCHANGED fst
                    ELSE \* final: copy_future -> __terminate_via needs the future's lock
                         IF melock[j] # NoOne
                           THEN /\ pc' = [pc EXCEPT ![Env(j)] = "e_term_me"]
                                /\ Emit(evs0 \o evsP \o evsD) /\ UNCHANGED <<esleep, fst>>
                           ELSE /\ pc' = [pc EXCEPT ![Env(j)] = "e_pop"]
                                /\ fst' = [fst EXCEPT ![j] = IF fst[j] = "pending" THEN "done" ELSE fst[j]]
                                /\ Emit(evs0 \o evsP \o (IF fst[j] = "pending" THEN ResolveEvents(j) ELSE <<>>) \o evsD)
                                /\ UNCHANGED esleep
  /\ actor' = Env(j)
  /\ UNCHANGED <<lchk, cfg, jobs, gate, evt, woken, melock, att, ljob, wt, wdl, edl, now>>

ETermMe(j) ==  \* urgent
  /\ G_ETermMe(j)
  /\ pc' = [pc EXCEPT ![Env(j)] = "e_pop"]
  /\ fst' = [fst EXCEPT ![j] = IF fst[j] = "pending" THEN "done" ELSE fst[j]]
  /\ IF fst[j] = "pending" THEN Emit(ResolveEvents(j)) ELSE NoEmit
  /\ actor' = Silent
  /\ UNCHANGED <<lchk, cfg, jobs, gate, evt, woken, melock, dst, att, ljob, wt, wdl, edl, esleep, now>>

G_ERetry(j) == pc[Env(j)] = "e_retry"
\* seeded model bug wake_before_append (change C05-r5m2): _retry wakes the submit thread BEFORE it takes the lock and queues
\* the job ("it has to wait for our lock anyway"): the two steps below swap their effects
Requeue(j) ==
  LET i == IdxOf(j, TRUE) IN
    jobs' = Append(Remove(jobs, i),
                   [f |-> j, d |-> FALSE, att |-> att[j], when |-> now + esleep[j],
                    stop |-> IF Bug = "no_inherit" THEN FALSE ELSE (i # 0 /\ jobs[i].stop)])
ERetry(j) ==   \* _retry: with executor._lock: pop the running job, append the waiting one (stop_retry inherited)
  /\ G_ERetry(j) /\ NU
  /\ IF Bug = "wake_before_append" THEN SetEvent /\ UNCHANGED jobs ELSE Requeue(j) /\ UNCHANGED <<evt, woken>>
  /\ pc' = [pc EXCEPT ![Env(j)] = "e_rset"]
  /\ actor' = Env(j) /\ NoEmit
  /\ UNCHANGED <<lchk, cfg, gate, melock, fst, dst, att, ljob, wt, wdl, edl, esleep, now>>

G_ERSet(j) == pc[Env(j)] = "e_rset"
ERSet(j) ==
  /\ G_ERSet(j) /\ NU
  /\ IF Bug = "wake_before_append" THEN Requeue(j) /\ UNCHANGED <<evt, woken>>
     ELSE /\ (IF Bug = "no_wake_on_retry" THEN UNCHANGED <<evt, woken>> ELSE SetEvent) /\ UNCHANGED jobs
  /\ pc' = [pc EXCEPT ![Env(j)] = "e_idle"]
  /\ actor' = Env(j) /\ NoEmit
  /\ UNCHANGED <<lchk, cfg, gate, melock, fst, dst, att, ljob, wt, wdl, edl, esleep, now>>

G_EPop(j) == pc[Env(j)] = "e_pop"
EPop(j) ==     \* _pop_job(found_job)
  /\ G_EPop(j) /\ NU
  /\ jobs' = Remove(jobs, IdxOf(j, TRUE))
  /\ pc' = [pc EXCEPT ![Env(j)] = "e_idle"]
  /\ actor' = Env(j) /\ NoEmit
  /\ UNCHANGED <<lchk, cfg, gate, evt, woken, melock, fst, dst, att, ljob, wt, wdl, edl, esleep, now>>

\* ------------------------------------------------------------------ cancel()   (c = Can(j) or Can2(j))
KOf(c) == IF c[1] = "can" THEN cfgK[c[2]] ELSE cfgK2[c[2]]

\* the part of cancel() that runs once the future's lock is held, up to the next visible operation
CancelBody(c, pre) ==
  LET j == c[2] IN
    IF fst[j] = "cancelled"
      THEN /\ pc' = [pc EXCEPT ![c] = "done"] /\ UNCHANGED melock
           /\ Emit(pre \o <<E2("CancelRet", "canceller", now, j, 1)>>)
      ELSE IF fst[j] = "done"
        THEN /\ pc' = [pc EXCEPT ![c] = "done"] /\ UNCHANGED melock
             /\ Emit(pre \o <<E2("CancelRet", "canceller", now, j, 0)>>)
        ELSE /\ melock' = [melock EXCEPT ![j] = c]
             /\ pc' = [pc EXCEPT ![c] = "c_lock"]
             /\ Emit(pre)

G_CStart(c) == pc[c] = "c_sleep" /\ now >= KOf(c)
CStart(c) ==
  /\ G_CStart(c) /\ NU
  /\ LET j == c[2]
         pre == <<E1("CancelCall", "canceller", now, j)>>
     IN IF melock[j] # NoOne
          THEN /\ pc' = [pc EXCEPT ![c] = "c_me"] /\ Emit(pre) /\ UNCHANGED melock
          ELSE CancelBody(c, pre)
  /\ actor' = c
  /\ UNCHANGED <<lchk, cfg, jobs, gate, evt, woken, fst, dst, att, ljob, wt, wdl, edl, esleep, now>>

CMe(c) ==      \* urgent
  /\ G_CMe(c)
  /\ CancelBody(c, <<>>)
  /\ actor' = Silent
  /\ UNCHANGED <<lchk, cfg, jobs, gate, evt, woken, fst, dst, att, ljob, wt, wdl, edl, esleep, now>>

G_CLock(c) == pc[c] = "c_lock"
CLock(c) ==    \* executor._cancel(future): with executor._lock: find the job ...
  /\ G_CLock(c) /\ NU
  /\ LET j == c[2]
         i == IdxOfF(j)
     IN IF i = 0
          THEN \* no job although the future is not done: as shipped "Cancel called on orphan" (AssertionError out
               \* of cancel()); repaired: the future is being resolved, cancel() returns False
               /\ pc' = [pc EXCEPT ![c] = "done"]
               /\ melock' = [melock EXCEPT ![j] = NoOne]
               /\ Emit(IF AsShipped_D9 THEN <<ES("CancelRaise", "canceller", now, j, "AssertionError")>>
                                       ELSE <<E2("CancelRet", "canceller", now, j, 0)>>)
               /\ UNCHANGED <<jobs, fst, dst>>
          ELSE IF ~jobs[i].d
            THEN \* between retries / not yet submitted: remove the job, cancel succeeds
                 /\ jobs' = Remove(jobs, i)
                 /\ fst' = [fst EXCEPT ![j] = "cancelled"]
                 /\ melock' = [melock EXCEPT ![j] = NoOne]
                 /\ pc' = [pc EXCEPT ![c] = "done"]
                 /\ Emit(<<E2("CancelRet", "canceller", now, j, 1),
                           ESA("Observed", "canceller", now, j, "CANCELLED_AND_NOTIFIED", -1, -1)>>)
                 /\ UNCHANGED dst
            ELSE \* running attempt: stop_retry, then try to cancel the delegate future
                 /\ jobs' = [jobs EXCEPT ![i].stop = TRUE]
                 /\ IF cfgC[j] /\ dst[j] = "running"
                      THEN \* delegate_future.cancel() succeeds; its done-callback (_delegate_callback) goes for
                           \* executor._lock to pop the job: next visible operation, still inside cancel()
                           /\ dst' = [dst EXCEPT ![j] = "cancelled"]
                           /\ pc' = [pc EXCEPT ![c] = "c_pop"]
                           /\ Emit(<<ES("DelegateState", "canceller", now, j, "CANCELLED")>>)
                           /\ UNCHANGED <<fst, melock>>
                      ELSE /\ pc' = [pc EXCEPT ![c] = "c_wake"]
                           /\ NoEmit /\ UNCHANGED <<dst, fst, melock>>
  /\ actor' = c
  /\ UNCHANGED <<lchk, cfg, gate, evt, woken, att, ljob, wt, wdl, edl, esleep, now>>

G_CPop(c) == pc[c] = "c_pop"
CPop(c) ==     \* the cancelled delegate's callback: _pop_job (commit 4328398; as shipped the stale job stayed); then
               \* cancel() finishes: the future is cancelled, its callbacks run, True is returned
  /\ G_CPop(c) /\ NU
  /\ LET j == c[2]
         i == IdxOf(j, TRUE)
     IN /\ jobs' = IF AsShipped_D8 THEN jobs ELSE Remove(jobs, i)
        /\ fst' = [fst EXCEPT ![j] = "cancelled"]
        /\ melock' = [melock EXCEPT ![j] = NoOne]
        /\ pc' = [pc EXCEPT ![c] = "done"]
        /\ Emit(<<E2("CancelRet", "canceller", now, j, 1),
                  ESA("Observed", "canceller", now, j, "CANCELLED_AND_NOTIFIED", -1, -1)>>)
  /\ actor' = c
  /\ UNCHANGED <<lchk, cfg, gate, evt, woken, dst, att, ljob, wt, wdl, edl, esleep, now>>

G_CWake(c) == pc[c] = "c_wake"
CWake(c) ==    \* could not cancel: self._wake_thread(); return False
  /\ G_CWake(c) /\ NU
  /\ SetEvent
  /\ melock' = [melock EXCEPT ![c[2]] = NoOne]
  /\ pc' = [pc EXCEPT ![c] = "done"]
  /\ Emit(<<E2("CancelRet", "canceller", now, c[2], 0)>>)
  /\ actor' = c
  /\ UNCHANGED <<lchk, cfg, jobs, gate, fst, dst, att, ljob, wt, wdl, edl, esleep, now>>

\* ------------------------------------------------------------------ observer, time
G_OEnd == pc[OBS] = "o_sleep" /\ now >= Horizon
OEnd ==
  /\ G_OEnd /\ NU
  /\ pc' = [pc EXCEPT ![OBS] = "done"]
  /\ Emit(<<E0("End", "main", now)>>)
  /\ actor' = OBS
  /\ UNCHANGED <<lchk, cfg, jobs, gate, evt, woken, melock, fst, dst, att, ljob, wt, wdl, edl, esleep, now>>

Urgent == LMe \/ LTermMe \/ (\E j \in Jobs : ETermMe(j)) \/ (\E c \in Cans : CMe(c))

AnyEnabled ==
  \/ UrgentEnabled
  \/ \E j \in Jobs : \/ G_SSleep(j) \/ G_SGate(j) \/ G_SLock(j) \/ G_SSet(j)
                     \/ G_EFinish(j) \/ G_ERetry(j) \/ G_ERSet(j) \/ G_EPop(j)
  \/ \E c \in Cans : G_CStart(c) \/ G_CLock(c) \/ G_CPop(c) \/ G_CWake(c)
  \/ G_LGet \/ G_LSubmitNow \/ G_LSNSet \/ G_LPopStop \/ G_LEnter \/ G_LWake \/ G_LClear \/ G_OEnd

Deadlines ==
  {cfgS[j] : j \in {x \in Jobs : pc[Sub(x)] = "s_sleep"}}
  \cup {edl[j] : j \in {x \in Jobs : pc[Env(x)] = "e_sleep"}}
  \cup {KOf(c) : c \in {x \in Cans : pc[x] = "c_sleep"}}
  \cup (IF pc[LOOP] = "l_blocked" /\ wdl >= 0 THEN {wdl} ELSE {})
  \cup (IF pc[OBS] = "o_sleep" THEN {Horizon} ELSE {})

Tick ==
  /\ ~AnyEnabled /\ Deadlines # {}
  /\ now' = CHOOSE d \in Deadlines : \A x \in Deadlines : d <= x
  /\ actor' = <<"tick", 0>>
  /\ UNCHANGED <<lchk, cfg, pc, jobs, gate, evt, woken, melock, fst, dst, att, ljob, wt, wdl, edl, esleep, obs, viol, hist>>

Normal ==
  \/ \E j \in Jobs : \/ SSleep(j) \/ SGate(j) \/ SLock(j) \/ SSet(j)
                     \/ EFinish(j) \/ ERetry(j) \/ ERSet(j) \/ EPop(j)
  \/ \E c \in Cans : CStart(c) \/ CLock(c) \/ CPop(c) \/ CWake(c)
  \/ LGet \/ LSubmitNow \/ LSNSet \/ LPopStop \/ LEnter \/ LWake \/ LClear \/ OEnd \/ Tick

Next == Urgent \/ Normal

Spec == Init /\ [][Next]_vars

\* ------------------------------------------------------------------ properties
ContractHolds == viol = "ok"
ContractHoldsButD9 == viol \in {"ok", "C02_CancelNeverRaises", "C18_WorkerSurvives"}
\* a job whose future is finished must leave _jobs (C12: no reference kept) - D8 breaks it for cancel in flight
NoStaleJobAtEnd == pc[OBS] = "done" => \A i \in DOMAIN jobs : fst[jobs[i].f] = "pending"
\* lost wake-up: the loop blocks without timer although a job without delegate is waiting to be handled
NoLostWakeup == ~(pc[LOOP] = "l_blocked" /\ wdl = -1 /\ ~woken /\ ~AnyEnabled /\ Cand # <<>>)
StopAtHorizon == now <= Horizon
View == <<cfg, pc, jobs, gate, evt, woken, melock, fst, dst, att, ljob, wt, wdl, edl, esleep, now, obs, viol,
          IF Bug = "done_check_before_locks" THEN lchk ELSE FALSE>>
=============================================================================
