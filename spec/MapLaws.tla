---------------------------- MODULE MapLaws ----------------------------
(* C13: the case space of the map / flat_map laws and the internal consistency of the law table that
   MapLawsObs.tla applies to real executions.

   TLC enumerates every case (one initial state per case):
       form     0 executor form (Executors.*().with_map / with_flat_map ... .submit)   1 f_map / f_flat_map
       inp      0 the input succeeds   1 it fails
       timing   0 already done         1 completes later from another thread
       stages   chain of 1..MaxChain well-formed stages [flat, fb, eb]
   and checks on each of them
     * ExpectedTotal   the law table gives a proper outcome term and 0/1 call entitlements,
     * OwnCaseOnly     a stage never entitles both functions, fn only on a value, error_fn only on an exception,
     * IdentityLaw     omitted functions act as identity (the input outcome comes out unchanged),
     * ComposeLaw      "mapping with g then h equals mapping with h after g": the chain's outcome (a fold over
                       *futures' outcomes*, stage by stage) equals the outcome of ONE stage whose function is
                       the composition of the chain's functions (evaluated on *values*, an exception leaving
                       the composed function as soon as one component raises; for flat_map the composition is
                       the Kleisli one:  x -> flat_map(g(x), h)),
     * IdealAccepted   the contract accepts the ideal execution of the case (its clauses are satisfiable, and
                       are actually exercised: Cfg, every entitled call, Result of run 0 and of the composed run).
   Each case is executed for real by mxv/scen/maplaws.py (the Python driver mirrors this enumeration) and
   judged by TLC against the same table (MapLawsObsTrace).
*)
EXTENDS MapLawsObs

CONSTANTS MaxChain,     \* longest chain
          FnBs, EfnBs,  \* behaviours drawn for fn / error_fn (subsets of 0..9)
          Flats         \* subset of BOOLEAN

WFStages == {sg \in [flat : Flats, fb : FnBs, eb : EfnBs] : WellFormed(sg)}
Cases == [form : {0, 1}, inp : {0, 1}, timing : {0, 1},
          stages : UNION {[1..n -> WFStages] : n \in 1..MaxChain}]

VARIABLES case, phase, viol
vars == <<case, phase, viol>>

Expected(c) == ChainEval(c.stages, 1, InputOut(c.inp))
Final(c) == Expected(c)[Len(c.stages)].out

\* ------------------------------------------------------------------ composition on values
NoEfn(c) == \A i \in DOMAIN c.stages : c.stages[i].eb = ABSENT
AllMap(c) == \A i \in DOMAIN c.stages : ~c.stages[i].flat
AllFlat(c) == \A i \in DOMAIN c.stages : c.stages[i].flat

\* (g_n o ... o g_1)(t) as a plain Python function would evaluate it
RECURSIVE ComposedFn(_, _, _)
ComposedFn(stages, i, t) ==
  IF i > Len(stages) THEN Out("V", t, FALSE)
  ELSE LET b == stages[i].fb IN
       CASE b = ABSENT -> ComposedFn(stages, i + 1, t)
         [] b = RET -> ComposedFn(stages, i + 1, <<TagFn(i)>> \o t)
         [] OTHER -> Out("E", <<ExcFn(i)>>, FALSE)        \* the exception leaves the composed function

\* Kleisli composition: outcome of the future returned by  x -> f_flat_map(g_i(x), rest)
RECURSIVE Kleisli(_, _, _)
Kleisli(stages, i, t) ==
  LET b == stages[i].fb
      r == CASE b = ABSENT -> Out("V", t, FALSE)
             [] b = RAISE -> Out("E", <<ExcFn(i)>>, FALSE)
             [] b \in {FUT_V, FUT_PV} -> Out("V", <<TagInFn(i)>> \o t, FALSE)
             [] b \in {FUT_E, FUT_PE} -> Out("E", <<ExcInFn(i)>>, FALSE)
             [] b = FUT_C -> Out("C", <<>>, FALSE)
             [] OTHER -> Out("E", <<TYPEERR>>, FALSE)
  IN IF i = Len(stages) \/ r.kind # "V" THEN r ELSE Kleisli(stages, i + 1, r.term)

Composed(c) ==      \* outcome of the one-stage program with the composed function and no error_fn
  IF c.inp = 1 THEN InputOut(1)
  ELSE IF AllMap(c) THEN ComposedFn(c.stages, 1, <<V0>>) ELSE Kleisli(c.stages, 1, <<V0>>)

Composable(c) == NoEfn(c) /\ (AllMap(c) \/ AllFlat(c))

\* ------------------------------------------------------------------ the ideal execution, as a trace
IdealCalls(c) ==
  LET ev == Expected(c)
      one(i) == IF ev[i].fn = 1 THEN <<Ev("FnCall", "-", "main", 0, 0, i, 0, -1, -1, "", ev[i].arg)>>
                ELSE IF ev[i].efn = 1 THEN <<Ev("FnCall", "-", "main", 0, 0, i, 1, -1, -1, "", ev[i].arg)>>
                ELSE <<>>
      F[i \in 0..Len(ev)] == IF i = 0 THEN <<>> ELSE F[i - 1] \o one(i)
  IN F[Len(ev)]

ResultEv(run, o) ==
  IF o.kind = "C" THEN Ev("Result", "-", "main", 0, run, -1, -1, -1, -1, "PENDING", <<>>)
  ELSE Ev("Result", "-", "main", 0, run, -1, IF o.kind = "V" THEN 0 ELSE 1, IF o.kind = "E" THEN 1 ELSE 0, -1,
          "FINISHED", o.term)

IdealTrace(c) ==
  LET n == Len(c.stages)
      xs == [j \in 1..(3 * n) |->
               LET sg == c.stages[(j + 2) \div 3] IN
               CASE j % 3 = 1 -> (IF sg.flat THEN 1 ELSE 0) [] j % 3 = 2 -> sg.fb [] OTHER -> sg.eb]
  IN <<Ev("Cfg", "-", "main", 0, -1, n, c.inp, c.timing, c.form, "", xs)>>
       \o IdealCalls(c) \o <<ResultEv(0, Final(c))>>
       \o (IF Composable(c) /\ n >= 2 THEN <<ResultEv(1, Composed(c))>> ELSE <<>>)
       \o <<E0("End", "main", 0)>>

RECURSIVE Feed(_, _, _)
Feed(o, v, evs) ==
  IF evs = <<>> THEN v
  ELSE LET e == Head(evs)
           ff == FirstFailed(Clauses(o, e))
       IN Feed(ObsNext(o, e), IF v = "ok" THEN ff ELSE v, Tail(evs))

Init == case \in Cases /\ phase = "chosen" /\ viol = "ok"
Judge == /\ phase = "chosen"
         /\ phase' = "judged"
         /\ viol' = Feed(ObsInit, "ok", IdealTrace(case))
         /\ UNCHANGED case
Next == Judge
Spec == Init /\ [][Next]_vars

\* ------------------------------------------------------------------ invariants
IsTerm(t) == t \in Seq(Nat) /\ t # <<>>
ExpectedTotal ==
  LET ev == Expected(case) IN
  /\ Len(ev) = Len(case.stages)
  /\ \A i \in DOMAIN ev :
       /\ ev[i].out.kind \in {"V", "E", "C"}
       /\ ev[i].out.kind # "C" => IsTerm(ev[i].out.term)
       /\ ev[i].out.kind = "E" => Len(ev[i].out.term) = 1
       /\ ev[i].fn \in {0, 1} /\ ev[i].efn \in {0, 1}
OwnCaseOnly ==
  LET ev == Expected(case)
      inOf(i) == IF i = 1 THEN InputOut(case.inp) ELSE ev[i - 1].out
  IN \A i \in DOMAIN ev :
       /\ ev[i].fn + ev[i].efn <= 1
       /\ ev[i].fn = 1 => (inOf(i).kind = "V" /\ case.stages[i].fb # ABSENT /\ ev[i].arg = inOf(i).term)
       /\ ev[i].efn = 1 => (inOf(i).kind = "E" /\ case.stages[i].eb # ABSENT /\ ev[i].arg = inOf(i).term)
IdentityLaw ==
  (\A i \in DOMAIN case.stages : case.stages[i].fb = ABSENT /\ case.stages[i].eb = ABSENT)
     => (Final(case) = InputOut(case.inp) /\ \A i \in DOMAIN case.stages : Expected(case)[i].fn + Expected(case)[i].efn = 0)
ExceptionPreserved ==       \* without error_fn anywhere a failed input comes out as the original exception
  (case.inp = 1 /\ NoEfn(case)) => Final(case) = InputOut(1)
ComposeLaw ==
  Composable(case) => LET a == Final(case)
                          b == Composed(case)
                      IN a.kind = b.kind /\ a.term = b.term
IdealAccepted == viol = "ok"
=============================================================================
