---------------------------- MODULE ObsKit ----------------------------
(* Shared vocabulary of the contract ("*Obs") modules.

   A contract module defines three operators over an observable state `st` (a record) and an event `e`
   (a record with the fixed field set below):
       ObsInit            initial observable state
       ObsNext(st, e)     observable state after e
       Clauses(st, e)     sequence of <<name, truth value>>: every clause of the property, evaluated on the
                          event that is about to be consumed
   Two consumers use them unchanged:
     * <X>ObsTrace.tla replays *recorded executions of the real library* event by event (code -> spec);
     * the implementation-shaped spec <X>.tla carries `obs` / `viol` ghost variables and feeds them the
       events its own actions generate, so TLC checks the same clauses on every interleaving of the model.
*)
EXTENDS Naturals, Integers, Sequences, FiniteSets, TLC

\* the fixed event record (unused fields: -1 / "" / <<>>)
Ev(ev, thr, r, t, f, k, a, b, c, s, xs) ==
  [ev |-> ev, thr |-> thr, r |-> r, t |-> t, f |-> f, k |-> k, a |-> a, b |-> b, c |-> c, s |-> s, xs |-> xs]

\* short forms used by the implementation specs
E0(ev, r, t)             == Ev(ev, "-", r, t, -1, -1, -1, -1, -1, "", <<>>)
E1(ev, r, t, f)          == Ev(ev, "-", r, t, f, -1, -1, -1, -1, "", <<>>)
E2(ev, r, t, f, a)       == Ev(ev, "-", r, t, f, -1, a, -1, -1, "", <<>>)
E3(ev, r, t, f, a, b)    == Ev(ev, "-", r, t, f, -1, a, b, -1, "", <<>>)
ES(ev, r, t, f, s)       == Ev(ev, "-", r, t, f, -1, -1, -1, -1, s, <<>>)
ESA(ev, r, t, f, s, a, b) == Ev(ev, "-", r, t, f, -1, a, b, -1, s, <<>>)
EK(ev, r, t, f, k, a, b, s) == Ev(ev, "-", r, t, f, k, a, b, -1, s, <<>>)

Terminal  == {"CANCELLED", "CANCELLED_AND_NOTIFIED", "FINISHED"}
CancelledStates == {"CANCELLED", "CANCELLED_AND_NOTIFIED"}

\* finite maps with a growing domain
EmptyMap == [x \in {} |-> 0]
\* eager (a lazily evaluated function value in a state makes TLC fail when it spills its queue to disk)
Put(m, key, v) == (key :> v) @@ m
Get(m, key, dflt) == IF key \in DOMAIN m THEN m[key] ELSE dflt
Has(m, key) == key \in DOMAIN m

FailedOf(clauses) == SelectSeq(clauses, LAMBDA c : ~c[2])
FirstFailed(clauses) == LET bad == FailedOf(clauses) IN IF bad = <<>> THEN "ok" ELSE bad[1][1]

Max(a, b) == IF a >= b THEN a ELSE b
Min(a, b) == IF a <= b THEN a ELSE b
SeqToSet(s) == {s[i] : i \in DOMAIN s}
=============================================================================
