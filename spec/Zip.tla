---------------------------- MODULE Zip ----------------------------
(* Implementation-shaped specification of f_zip (more_executors/_impl/futures/zip.py: Zipper.__init__ /
   handle_done), of chain_cancel (futures/base.py) and of f_sequence / f_traverse on top of it
   (futures/sequence.py: f_zip over the futures fn(x), mapped through `list`, i.e. a MapFuture over the zipped future).

       visible primitive = the Zipper's `lock`.

   Same shape as BoolOp.tla: every thread is a stack `todo[t]` of pending micro-operations, because
   completing / cancelling a future runs its done-callbacks inline:
       icall/iset/iret   the harness' completer of one input
       lock p            handle_done(p, f): `with self.lock:` fill slot p / count down / set `done`
       wtup / wexc i     outside the lock: try_set_result(out, maketuple(self.fs)) / copy_future_exception
       ocan              out.cancel() by the Zipper (an input was cancelled)
       cin j             input j receives cancel() (chain_cancel from the zipped future)
       mcan / mfin       MapFuture.cancel() of the f_sequence / f_traverse output: delegate cancel, then notify
       ccall, reg p, adc p, cret   the call; for f_traverse ccall also runs fn over the elements
       ucall/uret        the client's cancel of the output
   Coarse = TRUE: one action = run to the next `lock`; FALSE: one action per micro-operation.
   Op = "zip": the observed output is the zipped future; "sequence" / "traverse": the MapFuture `mst`
   that mirrors it (value -> list, exception -> same object).

   AsShipped_D12 = TRUE models upstream: a MapFuture whose delegate gets cancelled from outside drops the
   delegate and stays PENDING for ever (D3), so f_sequence / f_traverse never become cancelled when an input
   is cancelled first (clause C15_CancelledIfInputCancelledFirst), and a later cancel() of them returns False.
*)
EXTENDS CombinatorObs

CONSTANTS Op, InputIds, PosChoices, Kinds, CancelVals, FnRaiseVals, Coarse, KeepHist, AsShipped_D12, Bug

\* argument lists (input per position) to substitute for PosChoices in the cfg files (PosChoices <- P2d ...)
P2  == {<<1, 2>>}
P2d == {<<1, 2>>, <<1, 2, 1>>, <<1, 1>>, <<2, 2, 1>>}
P3  == {<<1, 2, 3>>}
P3d == {<<1, 2, 3>>, <<1, 2, 2, 3>>, <<3, 1, 3, 2>>}

MAIN == <<"main", 0>>
CAN  == <<"can", 1>>
OBS  == <<"obs", 0>>
Comp(i) == <<"comp", i>>
Threads == {MAIN, CAN} \cup {Comp(i) : i \in InputIds}
TUPLE_ID == 99      \* identity of the tuple / list object held by the output
FNEXC_ID == 90      \* identity of the exception raised by f_traverse's fn
Layered == Op \in {"sequence", "traverse"}

VARIABLES cfgK, cfgP, cfgU, cfgF,
          todo, slots, remaining, done, ist, already, okv, chain, cb, zst, za, zb, zval, mst, ma, mb,
          ures, ready, seen, ended,
          obs, viol, hist, actor

cfg  == <<cfgK, cfgP, cfgU, cfgF>>
impl == <<todo, slots, remaining, done, ist, already, okv, chain, cb, zst, za, zb, zval, mst, ma, mb, ures, ready>>
vars == <<cfg, impl, seen, ended, obs, viol, hist, actor>>

RECURSIVE Feed(_, _, _)
Feed(o, v, evs) ==
  IF evs = <<>> THEN <<o, v>>
  ELSE LET e == Head(evs)
           ff == FirstFailed(Clauses(o, e))
       IN Feed(ObsNext(o, e), IF v = "ok" THEN ff ELSE v, Tail(evs))
Emit(evs) ==
  LET r == Feed(obs, viol, evs) IN
    /\ obs' = r[1] /\ viol' = r[2]
    /\ hist' = IF KeepHist THEN hist \o [i \in 1..Len(evs) |-> <<evs[i].ev, evs[i].f, evs[i].t>>] ELSE hist

RECURSIVE AscSeq(_)
AscSeq(S) == IF S = {} THEN <<>>
             ELSE LET m == CHOOSE x \in S : \A y \in S : x <= y IN <<m>> \o AscSeq(S \ {m})

Used == {cfgP[p] : p \in DOMAIN cfgP}
N == Len(cfgP)
\* the done-callbacks registered on input i so far: one per argument position, bound to its index
LockOps(cbs, i) == LET ps == AscSeq({p \in cbs : cfgP[p] = i}) IN [k \in DOMAIN ps |-> <<"lock", ps[k]>>]
\* seeded model bug fanout_dict (change C15-r4m1): ONE callback of the output walks over a dict of the pending inputs that
\* handle_done shrinks on every successful completion; a completion in the middle of the walk ("dictionary changed size
\* during iteration", swallowed by the future's callback loop) ends it - the remaining inputs are never asked to cancel.
\* The walk remembers the size it started with (third component).
ChainOps(ch, rem) == IF Bug = "no_fanout" THEN <<>>
                     ELSE LET ps == AscSeq(ch) IN
                            [k \in DOMAIN ps |-> IF Bug = "fanout_dict" THEN <<"cin", cfgP[ps[k]], rem>> ELSE <<"cin", cfgP[ps[k]]>>]
IsWalkOp(o) == o[1] = "cin" /\ Len(o) = 3

Init ==
  /\ cfgK \in [InputIds -> Kinds] /\ cfgP \in PosChoices /\ cfgU \in CancelVals
  /\ cfgF \in (IF Op = "traverse" THEN FnRaiseVals ELSE {0})
  /\ todo = [t \in Threads |->
               IF t = MAIN THEN <<<<"ccall", 0>>>>
               ELSE IF t = CAN THEN (IF cfgU THEN <<<<"ucall", 0>>, <<(IF Layered THEN "mcan" ELSE "ocan"), 1>>, <<"uret", 0>>>> ELSE <<>>)
               ELSE IF cfgK[t[2]] = 0 \/ t[2] \notin Used THEN <<>>
               ELSE <<<<"icall", t[2]>>, <<"iset", t[2]>>, <<"iret", t[2]>>>>]
  /\ slots = [p \in DOMAIN cfgP |-> 0] /\ remaining = Len(cfgP) /\ done = FALSE
  /\ ist = [i \in InputIds |-> 0] /\ already = [i \in InputIds |-> FALSE] /\ okv = [i \in InputIds |-> 1]
  /\ chain = {} /\ cb = {}
  /\ zst = "PENDING" /\ za = -1 /\ zb = -1 /\ zval = <<>> /\ mst = "PENDING" /\ ma = -1 /\ mb = -1 /\ ures = -1
  /\ ready = FALSE /\ seen = "PENDING" /\ ended = FALSE
  /\ obs = ObsNext(ObsInit, Ev("Cfg", "-", "main", 0, -1, -1, Len(cfgP), -1, -1, Op, cfgP))
  /\ viol = "ok" /\ hist = <<>> /\ actor = <<"-", 0>>

Pack == [todo |-> todo, slots |-> slots, remaining |-> remaining, done |-> done, ist |-> ist,
         already |-> already, okv |-> okv, chain |-> chain, cb |-> cb,
         zst |-> zst, za |-> za, zb |-> zb, zval |-> zval, mst |-> mst, ma |-> ma, mb |-> mb,
         ures |-> ures, ready |-> ready, evs |-> <<>>]

\* ------------------------------------------------------------------ handle_done(p, f), under the lock
HandleDone(s, t, p, more) ==
  LET i == cfgP[p]
      k == s.ist[i]
  IN IF s.done THEN [s EXCEPT !.todo[t] = more]
     ELSE IF k = 4 THEN [s EXCEPT !.done = TRUE, !.todo[t] = <<<<"ocan", 0>>>> \o more]
     ELSE IF k = 3 /\ Bug # "exc_as_value" THEN [s EXCEPT !.done = TRUE, !.todo[t] = <<<<"wexc", i>>>> \o more]
     ELSE LET q == IF Bug = "slot_shift" /\ p < N THEN p + 1
                   \* seeded model bug index_dict: one {future: index} dict - a repeated input keeps its LAST position
                   ELSE IF Bug = "index_dict"
                     THEN CHOOSE x \in DOMAIN cfgP : cfgP[x] = i /\ \A y \in DOMAIN cfgP : cfgP[y] = i => y <= x
                   ELSE p
          IN IF s.remaining = 1
               THEN [s EXCEPT !.slots[q] = i, !.remaining = 0, !.done = TRUE, !.todo[t] = <<<<"wtup", 0>>>> \o more]
               ELSE [s EXCEPT !.slots[q] = i, !.remaining = @ - 1, !.todo[t] = more]

\* the zipped future resolved: its MapFuture layers (f_sequence / f_traverse) follow inline
Mirror(s) ==
  IF ~Layered \/ s.mst # "PENDING" THEN s
  ELSE IF s.zst = "FINISHED" THEN [s EXCEPT !.mst = "FINISHED", !.ma = s.za, !.mb = s.zb]
  ELSE IF s.zst = "CANCELLED" /\ ~AsShipped_D12 THEN [s EXCEPT !.mst = "CANCELLED"]
  ELSE s

\* ------------------------------------------------------------------ one micro-operation of thread t
Exec(s, t) ==
  LET h == Head(s.todo[t])
      more == Tail(s.todo[t])
      k == h[1]
      x == h[2]
  IN CASE k = "icall" -> [s EXCEPT !.todo[t] = more, !.already[x] = (s.ist[x] = 4),
                                   !.evs = Append(@, E3("InputSetCall", "client", 0, x, cfgK[x], x))]
       [] k = "iset" -> IF s.ist[x] = 0
                          THEN [s EXCEPT !.ist[x] = cfgK[x], !.okv[x] = 1, !.todo[t] = LockOps(s.cb, x) \o more]
                          ELSE [s EXCEPT !.okv[x] = IF cfgK[x] = 4 /\ ~s.already[x] THEN 1 ELSE 0, !.todo[t] = more]
       [] k = "iret" -> [s EXCEPT !.todo[t] = more, !.evs = Append(@, E2("InputSetRet", "client", 0, x, s.okv[x]))]
       [] k = "lock" -> HandleDone(s, t, x, more)
       [] k = "wtup" ->     \* maketuple(self.fs) is read here, outside the lock
            IF s.zst = "PENDING"
              THEN Mirror([s EXCEPT !.zst = "FINISHED", !.za = 0, !.zb = TUPLE_ID, !.zval = s.slots, !.todo[t] = more])
              ELSE [s EXCEPT !.todo[t] = more]
       [] k = "wexc" ->
            IF s.zst = "PENDING"
              THEN Mirror([s EXCEPT !.zst = "FINISHED", !.za = 1, !.zb = x, !.todo[t] = more])
              ELSE [s EXCEPT !.todo[t] = more]
       [] k = "ocan" ->     \* zipped.cancel(): state CANCELLED, the chain_cancel callbacks, then the MapFuture's callback
            IF s.zst = "PENDING"
              THEN [s EXCEPT !.zst = "CANCELLED", !.ures = IF x = 1 THEN 1 ELSE @,
                             !.todo[t] = ChainOps(s.chain, s.remaining) \o (IF x = 0 THEN <<<<"mres", 0>>>> ELSE <<>>) \o more]
              ELSE [s EXCEPT !.ures = IF x = 1 THEN (IF s.zst = "CANCELLED" THEN 1 ELSE 0) ELSE @, !.todo[t] = more]
       [] k = "mres" -> Mirror([s EXCEPT !.todo[t] = more])
       [] k = "mcan" ->     \* MapFuture.cancel() of the f_sequence / f_traverse output
            IF s.mst = "CANCELLED" THEN [s EXCEPT !.ures = 1, !.todo[t] = more]
            ELSE IF s.mst = "FINISHED" THEN [s EXCEPT !.ures = 0, !.todo[t] = more]
            ELSE IF s.zst = "CANCELLED"          \* (as shipped) the delegate was dropped: _me_cancel() is False
              THEN [s EXCEPT !.ures = 0, !.todo[t] = more]
            ELSE IF s.zst = "FINISHED"           \* cannot happen: the layers follow inline
              THEN [s EXCEPT !.ures = 0, !.todo[t] = more]
            ELSE [s EXCEPT !.zst = "CANCELLED", !.todo[t] = ChainOps(s.chain, s.remaining) \o <<<<"mfin", 0>>>> \o more]
       [] k = "mfin" -> [s EXCEPT !.mst = "CANCELLED", !.ures = 1, !.todo[t] = more]
       [] k = "cin" /\ Len(h) = 3 /\ h[3] # s.remaining ->      \* (model bug only) the dict changed under the walk
            [s EXCEPT !.todo[t] = SelectSeq(more, LAMBDA o : ~IsWalkOp(o))]
       [] k = "cin" ->
            IF s.ist[x] = 0
              THEN [s EXCEPT !.ist[x] = 4, !.todo[t] = LockOps(s.cb, x) \o more,
                             !.evs = Append(@, ES("CancelArrived", "client", 0, x, "input"))]
              ELSE [s EXCEPT !.todo[t] = more, !.evs = Append(@, ES("CancelArrived", "client", 0, x, "input"))]
       [] k = "ccall" ->    \* f_traverse first runs fn over the elements, in order; fn may raise at element cfgF
            LET nfn == IF Op # "traverse" THEN 0 ELSE IF cfgF > 0 THEN cfgF ELSE N
                calls == [j \in 1..nfn |-> EK("FnCall", "main", 0, -1, j, -1, -1, "")]
            IN IF Op = "traverse" /\ cfgF > 0
                 THEN [s EXCEPT !.mst = "FINISHED", !.ma = 1, !.mb = FNEXC_ID, !.todo[t] = <<<<"cret", 0>>>>,
                                !.evs = @ \o <<E0("CombCall", "main", 0)>> \o calls
                                          \o <<EK("FnRaise", "main", 0, -1, cfgF, -1, FNEXC_ID, "")>>]
                 ELSE [s EXCEPT !.todo[t] = [p \in DOMAIN cfgP |-> <<"reg", p>>] \o <<<<"cret", 0>>>>,
                                !.evs = @ \o <<E0("CombCall", "main", 0)>> \o calls]
       [] k = "reg" ->
            [s EXCEPT !.chain = @ \cup {x},
                      !.todo[t] = (IF s.zst = "CANCELLED" /\ Bug # "no_fanout" THEN <<<<"cin", cfgP[x]>>>> ELSE <<>>)
                                  \o <<<<"adc", x>>>> \o more]
       [] k = "adc" ->
            IF s.ist[cfgP[x]] # 0 THEN [s EXCEPT !.todo[t] = <<<<"lock", x>>>> \o more]
                                  ELSE [s EXCEPT !.cb = @ \cup {x}, !.todo[t] = more]
       [] k = "cret" -> [s EXCEPT !.todo[t] = more, !.ready = TRUE,
                                  !.evs = Append(@, Ev("CombRet", "-", "main", 0, -1, -1, -1, -1, 0, "", <<>>))]
       [] k = "ucall" -> [s EXCEPT !.todo[t] = more, !.evs = Append(@, E1("CancelCall", "canceller", 0, 0))]
       [] k = "uret" -> [s EXCEPT !.todo[t] = more, !.evs = Append(@, E2("CancelRet", "canceller", 0, 0, s.ures))]

RECURSIVE Run(_, _)
Run(s, t) ==
  LET s1 == Exec(s, t) IN
    IF Coarse /\ s1.todo[t] # <<>> /\ Head(s1.todo[t])[1] # "lock" THEN Run(s1, t) ELSE s1

Enabled(t) == todo[t] # <<>> /\ (Head(todo[t])[1] = "ucall" => ready)

\* the output the client holds
OutSt(s) == IF Layered THEN s.mst ELSE s.zst
OutA(s)  == IF Layered THEN s.ma ELSE s.za
OutB(s)  == IF Layered THEN s.mb ELSE s.zb

\* the engine polls the tracked output (tracked once the call has returned it) after every step
Apply(t) ==
  LET r == Run(Pack, t)
      report == r.ready /\ OutSt(r) # seen
  IN
    /\ todo' = r.todo /\ slots' = r.slots /\ remaining' = r.remaining /\ done' = r.done /\ ist' = r.ist
    /\ already' = r.already /\ okv' = r.okv /\ chain' = r.chain /\ cb' = r.cb
    /\ zst' = r.zst /\ za' = r.za /\ zb' = r.zb /\ zval' = r.zval /\ mst' = r.mst /\ ma' = r.ma /\ mb' = r.mb
    /\ ures' = r.ures /\ ready' = r.ready
    /\ seen' = IF report THEN OutSt(r) ELSE seen
    /\ Emit(IF report THEN Append(r.evs, ESA("Observed", "client", 0, 0, OutSt(r), OutA(r), OutB(r))) ELSE r.evs)
    /\ actor' = t
    /\ UNCHANGED <<cfg, ended>>

StepLock(t)   == Enabled(t) /\ Head(todo[t])[1] = "lock" /\ Apply(t)              \* with self.lock: ...
StepClient(t) == Enabled(t) /\ Head(todo[t])[1] \in {"icall", "ucall", "ccall"} /\ Apply(t)
StepOther(t)  == Enabled(t) /\ Head(todo[t])[1] \notin {"lock", "icall", "ucall", "ccall"} /\ Apply(t)

\* the harness reads the value of a finished output at the end: its type, length and elements
End ==
  /\ ~ended /\ \A t \in Threads : todo[t] = <<>> /\ (ready => seen = OutSt(Pack))
  /\ ended' = TRUE
  /\ Emit((IF OutSt(Pack) = "FINISHED" /\ OutA(Pack) = 0
             THEN <<Ev("OutShape", "-", "main", 0, -1, -1, Len(zval), -1, -1, IF Layered THEN "list" ELSE "tuple", zval)>>
             ELSE <<>>) \o <<E0("End", "main", 0)>>)
  /\ actor' = OBS
  /\ UNCHANGED <<cfg, impl, seen>>

Next == (\E t \in Threads : StepLock(t) \/ StepClient(t) \/ StepOther(t)) \/ End

Spec == Init /\ [][Next]_vars

\* ------------------------------------------------------------------ properties
ContractHolds == viol = "ok"
ContractHoldsButD12 == viol \in {"ok", "C15_CancelledIfInputCancelledFirst"}
TypeOK == /\ zst \in {"PENDING", "FINISHED", "CANCELLED"} /\ mst \in {"PENDING", "FINISHED", "CANCELLED"}
          /\ remaining \in 0..N /\ (remaining = 0 => done)
View == <<cfg, impl, seen, ended, RankView(obs), viol>>
=============================================================================
