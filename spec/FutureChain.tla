---------------------------- MODULE FutureChain ----------------------------
(* Implementation-shaped specification of a CHAIN of library futures (more_executors/_impl/common.py `_Future`,
   map.py `MapFuture`): f_0 is a plain concurrent.futures.Future, f_i (1 <= i <= N) a MapFuture whose delegate is
   f_{i-1} (what f_map(f_map(...)) or a stack of map / timeout / cancel-on-shutdown layers builds).  This is the
   protocol every other future class of the library inherits: own callback list, re-entrant per-future lock,
   cancel() = lock, veto / forward to the delegate (which locks the next future down), stdlib cancel + notify,
   callbacks outside the lock; completion and outside cancellation travel bottom-up through the delegates'
   done-callbacks (_delegate_resolved -> set_result / _me_delegate_cancelled).

   Granularity: the engine's visible operations are the acquisitions of the futures' `_me_lock`s by a thread that
   does not own them (re-entrant acquisitions, releases and everything on the plain base future are invisible), the
   explicit yields of the driver threads, and thread start.  One action = "thread t performs its pending visible
   operation and runs up to its next one".  Each thread carries a stack of micro-operations (`todo`); executing one
   may push others (a call).

   Threads:  Can(k)  client calling cancel() on the top future f_N
             COMP    the worker of the underlying work: set_running_or_notify_cancel(), then set_result()
                     (cfgComp = "value") or set_exception() ("exc": every layer copies the exception with its
                     tolerant setter, same locking) - or nothing ("never")
             XCAN    somebody else cancelling f_cfgX directly (cfgX >= 90: nobody)
             ADD     client adding done-callback 2 to f_N (cfgAdd)
             FIN     ends the execution when everybody is done
   Callbacks: <<"L", j>> = f_j._delegate_resolved (registered on f_{j-1} at construction), <<"U", k>> = user
   callback k; user callback 1 is registered on f_N before anything happens; with cfgRe user callback 9 is
   registered on the BASE before the library's own and re-enters cancel() on f_N (D15).
*)
EXTENDS ChainObs

CONSTANTS N, CompKinds, NCan, XcanLayers, AddVals, RecancelVals, KeepHist, Bug, AsShipped_D3, AsShipped_D15

NoOne == <<"none", 0>>
Can(k) == <<"can", k>>
COMP == <<"comp", 0>>
XCAN == <<"xcan", 0>>
ADD  == <<"add", 0>>
FIN  == <<"fin", 0>>
Threads == {Can(k) : k \in 1..NCan} \cup {COMP, XCAN, ADD}
Layers == 1..N
All == 0..N

VARIABLES cfgComp, cfgX, cfgAdd, cfgRe, impl, ended, obs, viol, hist, actor
cfg == <<cfgComp, cfgX, cfgAdd, cfgRe>>
vars == <<cfgComp, cfgX, cfgAdd, cfgRe, impl, ended, obs, viol, hist, actor>>

\* what the replay compares: <<event, future, detail>> (detail: state code / cancel()'s answer / callback id)
StateCode(v) == CASE v = "PENDING" -> 0 [] v = "RUNNING" -> 1 [] v = "CANCELLED" -> 2
                  [] v = "CANCELLED_AND_NOTIFIED" -> 3 [] v = "FINISHED" -> 4 [] OTHER -> 9
HistOf(e) == <<e.ev, IF e.f >= 0 THEN e.f ELSE 0,
               IF e.ev = "Observed" THEN StateCode(e.s) ELSE IF e.ev = "CancelRet" THEN e.a
               ELSE IF e.k >= 0 THEN e.k ELSE 0>>

RECURSIVE Feed(_, _, _)
Feed(o, v, evs) ==
  IF evs = <<>> THEN <<o, v>>
  ELSE LET e == Head(evs)
           ff == FirstFailed(Clauses(o, e))
       IN Feed(ObsNext(o, e), IF v = "ok" THEN ff ELSE v, Tail(evs))
Emit(evs) ==
  LET r == Feed(obs, viol, evs) IN
    /\ obs' = r[1] /\ viol' = r[2]
    /\ hist' = IF KeepHist THEN hist \o [i \in 1..Len(evs) |-> HistOf(evs[i])] ELSE hist

Name(t) == IF t[1] = "can" THEN (IF t[2] = 1 THEN "can1" ELSE "can2") ELSE t[1]
EvT(ev, t, f, k, a, s) == Ev(ev, Name(t), "client", 0, f, k, a, -1, -1, s, <<>>)
Done(s, i) == s.st[i] \in Terminal
Cancelled(s, i) == s.st[i] \in CancelledStates

\* ------------------------------------------------------------------ micro-operations
Replace(s, t, ops) == [s EXCEPT !.todo[t] = ops \o Tail(@)]
\* (a finished future carries the base's outcome: a = 0 value / 1 exception)
SetSt(s, i, v) == [s EXCEPT !.st[i] = v,
                            !.pol = Append(@, Ev("Observed", "-", "-", 0, i, -1,
                                                  IF v = "FINISHED" THEN (IF cfgComp = "exc" THEN 1 ELSE 0) ELSE -1,
                                                  IF v = "FINISHED" THEN 1 ELSE -1, -1, v, <<>>))]
\* invoking the callbacks of f_i: iterate the LIVE list, clear it afterwards (library futures only)
InvokeOps(i) == IF Bug = "callbacks_under_lock" /\ i >= 1 THEN <<<<"cbi", i, 1>>, <<"rel", i>>>>
                ELSE (IF i >= 1 THEN <<<<"rel", i>>>> ELSE <<>>) \o <<<<"cbi", i, 1>>>>

Exec1(s, t) ==
  LET op == Head(s.todo[t])
      k == op[1]
      i == IF Len(op) >= 2 THEN op[2] ELSE -1
  IN
  CASE k \in {"start", "yield"} -> Replace(s, t, <<>>)
    [] k = "acq" -> [Replace(s, t, <<>>) EXCEPT !.own[i] = t, !.cnt[i] = @ + 1]
    [] k = "rel" -> [Replace(s, t, <<>>) EXCEPT !.cnt[i] = @ - 1, !.own[i] = IF s.cnt[i] = 1 THEN NoOne ELSE @]
    [] k = "ret" -> [Replace(s, t, <<>>) EXCEPT !.ret[t] = op[2]]
    \* ---- client calls (events are recorded by the harness around the real call)
    [] k = "ccall" -> [Replace(s, t, <<<<"cancel", i>>, <<"cret", i>>>>) EXCEPT !.evs = Append(@, EvT("CancelCall", t, i, -1, -1, ""))]
    [] k = "cret" -> [Replace(s, t, <<>>) EXCEPT
                        !.evs = Append(@, IF s.raised[t] THEN EvT("CancelRaise", t, i, -1, -1, "RuntimeError")
                                          ELSE EvT("CancelRet", t, i, -1, IF s.ret[t] THEN 1 ELSE 0, "")),
                        !.raised[t] = FALSE]
    [] k = "acall" -> [Replace(s, t, <<<<"add", i, op[3]>>, <<"aret", i, op[3]>>>>) EXCEPT
                         !.evs = Append(@, EvT("AddCbCall", t, i, op[3][2], -1, ""))]
    [] k = "aret" -> [Replace(s, t, <<>>) EXCEPT !.evs = Append(@, EvT("AddCbRet", t, i, op[3][2], -1, ""))]
    \* ---- cancel()
    [] k = "cancel" ->
         IF s.raised[t] THEN Replace(s, t, <<>>)
         ELSE IF i = 0
           THEN \* concurrent.futures.Future.cancel(): atomic under its condition; callbacks run afterwards
                IF s.st[0] \in {"RUNNING", "FINISHED"} THEN [Replace(s, t, <<>>) EXCEPT !.ret[t] = FALSE]
                ELSE IF Cancelled(s, 0) THEN [Replace(s, t, <<>>) EXCEPT !.ret[t] = TRUE]
                ELSE Replace(SetSt(s, 0, "CANCELLED"), t, <<<<"cbi", 0, 1>>, <<"ret", TRUE>>>>)
           ELSE Replace(s, t, <<<<"acq", i>>, <<"c1", i>>>>)
    [] k = "c1" ->
         IF Cancelled(s, i) THEN [Replace(s, t, <<<<"rel", i>>>>) EXCEPT !.ret[t] = TRUE]
         ELSE IF s.st[i] = "FINISHED" THEN [Replace(s, t, <<<<"rel", i>>>>) EXCEPT !.ret[t] = FALSE]
         ELSE [Replace(s, t, <<<<"acq", i>>, <<"mc", i>>, <<"rel", i>>, <<"c2", i>>>>) EXCEPT !.canc[i] = TRUE]
    [] k = "mc" ->     \* MapFuture._me_cancel (under the lock, re-entrant)
         IF s.deleg[i] THEN Replace(s, t, <<<<"cancel", i - 1>>>>) ELSE [Replace(s, t, <<>>) EXCEPT !.ret[t] = FALSE]
    [] k = "c2" ->
         LET s1 == [s EXCEPT !.canc[i] = FALSE] IN
         IF s.raised[t] THEN Replace(s1, t, <<<<"rel", i>>>>)
         ELSE IF ~s.ret[t] THEN Replace(s1, t, <<<<"rel", i>>>>)
         ELSE IF Cancelled(s1, i)
           THEN \* a callback of the work just cancelled re-entered cancel() on this thread and completed it
                IF AsShipped_D15 THEN [Replace(s1, t, <<<<"rel", i>>>>) EXCEPT !.raised[t] = TRUE]
                ELSE Replace(s1, t, <<<<"rel", i>>>>)
           ELSE Replace(SetSt(s1, i, "CANCELLED_AND_NOTIFIED"), t, InvokeOps(i) \o <<<<"ret", TRUE>>>>)
    \* ---- callbacks
    [] k = "cbi" ->    \* op = <<"cbi", i, n>>: the n-th element of the live list, or the end of the loop
         \* (an exception escaping from a callback is logged and swallowed by the loop)
         LET s0 == [s EXCEPT !.raised[t] = FALSE] IN
         IF op[3] <= Len(s0.cbs[i])
           THEN Replace(s0, t, <<<<"cb", i, s0.cbs[i][op[3]]>>, <<"cbi", i, op[3] + 1>>>>)
           ELSE IF i >= 1 THEN [Replace(s0, t, <<>>) EXCEPT !.cbs[i] = <<>>] ELSE Replace(s0, t, <<>>)
    [] k = "cb" ->     \* op = <<"cb", i, c>>
         LET c == op[3] IN
         IF c[1] = "L"
           THEN Replace(s, t, <<<<"acq", c[2]>>, <<"sd0", c[2]>>, <<"rel", c[2]>>, <<"dr", c[2]>>>>)
           ELSE LET s1 == [s EXCEPT !.evs = Append(@, EvT("Callback", t, i, c[2], IF Done(s, i) THEN 1 ELSE 0, ""))]
                IN IF c[2] = 9 THEN Replace(s1, t, <<<<"cancel", N>>>>) ELSE Replace(s1, t, <<>>)
    [] k = "sd0" -> [Replace(s, t, <<>>) EXCEPT !.deleg[i] = FALSE]
    [] k = "dr" ->     \* MapFuture._delegate_resolved after dropping the delegate
         IF Cancelled(s, i - 1)
           THEN (IF AsShipped_D3 THEN Replace(s, t, <<>>) ELSE Replace(s, t, <<<<"acq", i>>, <<"dc", i>>>>))
           ELSE Replace(s, t, <<<<"acq", i>>, <<"sr", i>>>>)
    [] k = "dc" ->     \* _Future._me_delegate_cancelled
         IF s.canc[i] \/ Done(s, i) THEN Replace(s, t, <<<<"rel", i>>>>)
         ELSE Replace(SetSt(s, i, "CANCELLED_AND_NOTIFIED"), t, InvokeOps(i))
    [] k = "sr" ->     \* try_set_result -> MapFuture.set_result (InvalidStateError tolerated)
         IF Done(s, i) THEN Replace(s, t, <<<<"rel", i>>>>)
         ELSE Replace(SetSt(s, i, "FINISHED"), t, InvokeOps(i))
    \* ---- add_done_callback
    [] k = "add" ->    \* op = <<"add", i, c>>
         IF Bug = "done_check_outside_lock"
           THEN (IF Done(s, i) THEN Replace(s, t, <<<<"cb", i, op[3]>>>>)
                 ELSE Replace(s, t, <<<<"acq", i>>, <<"ad1", i, op[3]>>, <<"rel", i>>>>))
           ELSE Replace(s, t, <<<<"acq", i>>, <<"ad", i, op[3]>>>>)
    [] k = "ad" ->
         IF Done(s, i) THEN Replace(s, t, <<<<"rel", i>>, <<"cb", i, op[3]>>>>)
         ELSE [Replace(s, t, <<<<"rel", i>>>>) EXCEPT !.cbs[i] = Append(@, op[3])]
    [] k = "ad1" -> [Replace(s, t, <<>>) EXCEPT !.cbs[i] = Append(@, op[3])]
    \* ---- the worker of the underlying work
    [] k = "run0" ->
         IF s.st[0] = "CANCELLED" THEN [SetSt(s, 0, "CANCELLED_AND_NOTIFIED") EXCEPT !.todo[t] = <<>>]
         ELSE IF s.st[0] = "PENDING" THEN Replace(SetSt(s, 0, "RUNNING"), t, <<>>)
         ELSE [s EXCEPT !.todo[t] = <<>>]
    [] k = "fin0" -> Replace(SetSt(s, 0, "FINISHED"), t, <<<<"cbi", 0, 1>>>>)

Visible(s, t, op) == op[1] \in {"yield", "start"} \/ (op[1] = "acq" /\ s.own[op[2]] # t)

RECURSIVE RunOn(_, _)
RunOn(s, t) ==
  IF s.todo[t] = <<>> \/ Visible(s, t, Head(s.todo[t])) THEN s ELSE RunOn(Exec1(s, t), t)

CanDo(s, t) == /\ s.todo[t] # <<>>
               /\ LET op == Head(s.todo[t]) IN op[1] = "acq" => s.own[op[2]] \in {NoOne, t}

\* ------------------------------------------------------------------ initial state
InitCbs(re) == [i \in All |-> IF i = 0 THEN (IF re THEN <<<<"U", 9>>>> ELSE <<>>) \o <<<<"L", 1>>>>
                               ELSE IF i < N THEN <<<<"L", i + 1>>>> ELSE <<<<"U", 1>>>>]
InitTodo(comp, x, add) ==
  [t \in Threads |->
     IF t[1] = "can" THEN <<<<"start">>, <<"ccall", N>>>>
     ELSE IF t = COMP THEN (IF comp \in {"value", "exc"} THEN <<<<"start">>, <<"run0">>, <<"yield">>, <<"fin0">>>> ELSE <<>>)
     ELSE IF t = XCAN THEN (IF x < 90 THEN <<<<"start">>, <<"cancel", x>>>> ELSE <<>>)
     ELSE (IF add THEN <<<<"start">>, <<"acall", N, <<"U", 2>>>>>> ELSE <<>>)]
InitEvents(re) ==
  <<Ev("Cfg", "-", "-", 0, -1, -1, N, -1, -1, "", <<>>)>>
  \o (IF re THEN <<EvT("AddCbRet", <<"main", 0>>, 0, 9, -1, "")>> ELSE <<>>)
  \o <<EvT("AddCbRet", <<"main", 0>>, N, 1, -1, "")>>

Init ==
  /\ cfgComp \in CompKinds /\ cfgX \in XcanLayers /\ cfgAdd \in AddVals /\ cfgRe \in RecancelVals
  /\ impl = [st |-> [i \in All |-> "PENDING"], deleg |-> [i \in Layers |-> TRUE], canc |-> [i \in Layers |-> FALSE],
             cbs |-> InitCbs(cfgRe), own |-> [i \in Layers |-> NoOne], cnt |-> [i \in Layers |-> 0],
             todo |-> InitTodo(cfgComp, cfgX, cfgAdd), ret |-> [t \in Threads |-> FALSE],
             raised |-> [t \in Threads |-> FALSE], evs |-> <<>>, pol |-> <<>>]
  /\ ended = FALSE
  /\ obs = Feed(ObsInit, "ok", InitEvents(cfgRe))[1] /\ viol = "ok"
  /\ hist = IF KeepHist THEN [i \in 1..Len(InitEvents(cfgRe)) |-> HistOf(InitEvents(cfgRe)[i])] ELSE <<>>
  /\ actor = <<"-", 0>>

\* ------------------------------------------------------------------ steps
Step(t) ==
  /\ ~ended /\ CanDo(impl, t)
  /\ LET s2 == RunOn(Exec1(impl, t), t) IN
       /\ impl' = [s2 EXCEPT !.evs = <<>>, !.pol = <<>>]
       /\ Emit(s2.evs \o s2.pol)      \* (state changes are seen by polling at the end of the step)
  /\ actor' = t
  /\ UNCHANGED <<cfg, ended>>

AllDone == \A t \in Threads : impl.todo[t] = <<>>
Finish ==
  /\ ~ended /\ AllDone
  /\ ended' = TRUE
  /\ Emit(<<Ev("End", "main", "main", 0, -1, -1, -1, -1, -1, "", <<>>)>>)
  /\ actor' = FIN
  /\ UNCHANGED <<cfg, impl>>

\* nobody can move although somebody has work left: the threads are blocked on each other's locks
Stuck == ~ended /\ ~AllDone /\ \A t \in Threads : ~CanDo(impl, t)

Next == (\E t \in Threads : Step(t)) \/ Finish \/ (ended /\ UNCHANGED vars)
Spec == Init /\ [][Next]_vars

ContractHolds == viol = "ok"
NoDeadlock == ~Stuck
LocksFreeAtEnd == ended => \A i \in Layers : impl.own[i] = NoOne /\ impl.cnt[i] = 0
NoCallbackLeft == ended => \A i \in Layers : Done(impl, i) => impl.cbs[i] = <<>>
TypeOK == /\ \A i \in All : impl.st[i] \in {"PENDING", "RUNNING"} \cup Terminal
          /\ \A i \in Layers : (impl.own[i] = NoOne) = (impl.cnt[i] = 0)
View == <<cfg, impl, ended, obs, viol>>
=============================================================================
