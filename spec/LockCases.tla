---------------------------- MODULE LockCases ----------------------------
(* C04, trace side of LockProg: lock programs recorded from executions of the real code, interleaved exhaustively.

   The conformance engine logs, per thread, every acquisition and release of a controlled lock together with the
   lock's role (which executor of the stack it belongs to, which kind of object created it, where).  For every
   acquisition made while other locks are held it emits the mini-program "acquire the held locks in the order
   they were taken, acquire the wanted one, release everything"; a case is a tuple of such programs that came
   from different threads of one execution and share at least two locks.  (A lock held by both threads - a
   guard, like the shutdown gate - keeps the two programs apart in the model exactly as it does in the code.)

   CASES_FILE holds the distinct cases of a whole batch of executions: a JSON array of cases, each an array of
   programs, each an array of ["a" | "r", lock].  The case is chosen in Init; TLC explores every interleaving of
   its programs with the operators of LockKit, and every stuck state is printed as <<"LOCKCYCLE", case, pos>>.
   A printed case is only a *candidate*: the checker then steers the real code towards it (strategies.Steer) and
   reports a violation only when the real threads do end up blocked on each other. *)
EXTENDS LockKit, TLC, Json, IOUtils

Cases == JsonDeserialize(IOEnv.CASES_FILE)

VARIABLES c, pos, held, rep
vars == <<c, pos, held, rep>>

P == Cases[c]
Locks == UNION {{P[t][i][2] : i \in DOMAIN P[t]} : t \in DOMAIN P}

Init == /\ c \in 1..Len(Cases)
        /\ pos = [t \in DOMAIN Cases[c] |-> 1]
        /\ held = [t \in DOMAIN Cases[c] |-> <<>>]
        /\ rep = FALSE

\* (a thread never blocks on a lock it owns here: a second acquisition of a non-reentrant lock by its owner blocks
\*  the real execution itself, which DeadlockObs judges)
Step(t) == /\ ~rep
           /\ CanStep(P, Locks, pos, held, t)
           /\ held' = [held EXCEPT ![t] = HeldAfter(P, pos, held, t)]
           /\ pos' = [pos EXCEPT ![t] = @ + 1]
           /\ UNCHANGED <<c, rep>>

Report == /\ ~rep
          /\ Stuck(P, Locks, pos, held)
          /\ PrintT(<<"LOCKCYCLE", c, pos>>)
          /\ rep' = TRUE
          /\ UNCHANGED <<c, pos, held>>

Next == (\E t \in DOMAIN P : Step(t)) \/ Report
Spec == Init /\ [][Next]_vars
=============================================================================
