---------------------------- MODULE Metrics ----------------------------
(* Implementation-shaped specification of the metric updates of more_executors (C20): every inc()/dec() of
   the code is a ghost update at the action where the code does it, along the life cycle of a future in a
   RetryExecutor (more_executors/_impl/retry.py: the RETRY_QUEUE gauge, RETRY_TOTAL) and in a
   ThrottleExecutor (_impl/throttle.py: THROTTLE_QUEUE), plus the per-future gauge/counters of
   metrics/__init__.py (track_future: FUTURE_TOTAL/INPROGRESS inc at creation; record_done, a done-callback:
   INPROGRESS dec, FUTURE_CANCEL / FUTURE_ERROR inc).

   Granularity: this property is about *which* paths pair an inc with a dec, not about lock interleavings:
   in the code every list operation and its gauge update happen under the executor's lock (or the list
   operation happens there and the gauge update is missing), and a done-callback runs to completion in the
   thread that completes the future.  So one action = one such locked section / callback chain:

     retry     RSubmit          submit_retry: track_future, _append_job (RETRY_QUEUE ++)
               RToDelegate      _submit_now: _pop_job (--), [RETRY_TOTAL ++ if attempt # 0], delegate.submit,
                                _append_job of the running job (++)
               RDelegateDone    _delegate_callback: should_retry -> _retry: _pop_job (--) + _append_job (++)
                                                    else copy_future (future resolved) + _pop_job (--)
               RCancel          RetryFuture.cancel -> _cancel:
                                  job has no delegate (between retries / before the first attempt):
                                       self._jobs.pop(idx)                 AS SHIPPED: no dec        (D7)
                                  job in flight, delegate cancel succeeds: _delegate_callback returns early on a
                                       cancelled delegate                  AS SHIPPED: job never popped, no dec (D7, D8)
                                  job in flight, delegate cancel fails:    stop_retry := TRUE, returns False
               RExternalCancel  the attempt in flight is cancelled by somebody else (same early return)
     throttle  TSubmit          submit: track_future, _to_submit.append, THROTTLE_QUEUE ++
               THandOver        _submit_loop_iter: popleft, running ++, THROTTLE_QUEUE --, delegate.submit
               TDelegateDone    delegate done: running --, throttled future resolved
               TCancel          ThrottleFuture.cancel: queued -> _do_cancel: _to_submit.remove(job)
                                                                           AS SHIPPED: no dec        (D7)
                                                       handed -> delegate.cancel()

   AsShipped_D7 = TRUE is upstream 2.11.4; FALSE is the repaired behaviour (every removal from a list
   decrements; the job of a future cancelled in flight is popped).  Bug seeds further model bugs for
   negative controls of the invariants.

   Quiescent = what the harness waits for before it reads the registry: no library thread can make a step
   without the clock advancing (the retry loop has no job that is due now - a job waiting for its back-off
   is not due; the throttle loop cannot hand anything over).

   The contract MetricsObs is carried as ghost state: the actions emit the API-level events of the real
   harness (FutCreated / FutState / LowerSubmit) and, at every quiescent state, the registry values are
   judged by the contract's own clauses (ContractAtQuiescence) - so TLC also checks that the contract is
   consistent with the modelled design on every history, e.g. that its reading of retry_queue accepts the
   gauge while attempts are in flight.
*)
EXTENDS MetricsObs

CONSTANTS RJobs,         \* retry jobs, e.g. {1, 2}
          TJobs,         \* throttle jobs, e.g. {11, 12}   (disjoint from RJobs, all < 100)
          MaxAttempts,   \* retry policy
          FailVals,      \* candidate numbers of failing attempts before the callable succeeds
          CancelVals,    \* subset of BOOLEAN: can the delegate future be cancelled while in flight
          Count,         \* throttle count
          AsShipped_D7,
          D7Paths,       \* which of the three shipped paths are active when AsShipped_D7:
                         \*   subset of {"between", "inflight", "throttle"} (negative controls one by one)
          Bug            \* "none" | "retry_double_dec" | "no_dec_on_finalize" | "no_inprogress_dec"

T_R == 5   \* type ids of MetricsObs
T_T == 7
X_R == 1   \* executor ids
X_T == 2
X_D == 3   \* the (unlabelled) delegates
Types == {T_R, T_T}
Shipped(path) == AsShipped_D7 /\ path \in D7Paths

VARIABLES cfgF, cfgC,
          rfut,    \* retry future: "none" | "pending" | "done" | "failed" | "cancelled"
          rjobs,   \* RetryExecutor._jobs: sequence of [j, deleg (has a delegate future), stop (stop_retry)]
          ratt,    \* attempts submitted so far
          rdel,    \* current delegate future: "none" | "running" | "done" | "cancelled"
          rcan,    \* the client has called cancel() on the retry future
          rq, rtot,\* RETRY_QUEUE, RETRY_TOTAL
          tfut,    \* throttled future: "none" | "queued" | "handed" | "done" | "cancelled"
          tq,      \* ThrottleExecutor._to_submit
          trun,    \* _running_count
          tcan,
          tgq,     \* THROTTLE_QUEUE
          fin, ftot, fcan, ferr,   \* FUTURE_INPROGRESS / TOTAL / CANCEL / ERROR per type
          obs, viol

cfg  == <<cfgF, cfgC>>
vars == <<cfgF, cfgC, rfut, rjobs, ratt, rdel, rcan, rq, rtot, tfut, tq, trun, tcan, tgq, fin, ftot, fcan, ferr,
          obs, viol>>
rvars == <<rfut, rjobs, ratt, rdel, rcan, rq, rtot>>
tvars == <<tfut, tq, trun, tcan, tgq>>

RECURSIVE Feed(_, _, _)
Feed(o, v, evs) ==
  IF evs = <<>> THEN <<o, v>>
  ELSE LET e == Head(evs)
           ff == FirstFailed(Clauses(o, e))
       IN Feed(ObsNext(o, e), IF v = "ok" THEN ff ELSE v, Tail(evs))
Emit(evs) == LET r == Feed(obs, viol, evs) IN obs' = r[1] /\ viol' = r[2]

\* the harness' events
EvCreated(f, k, c, parent) == Ev("FutCreated", "-", "client", 0, f, k, -1, parent, c, "", <<>>)
EvState(f, s, a)           == Ev("FutState", "-", "client", 0, f, -1, a, -1, -1, s, <<>>)
EvLower(parent)            == Ev("LowerSubmit", "-", "client", 0, parent, -1, -1, -1, -1, "", <<>>)
EvMetric(name, k, c, v)    == Ev("Metric", "-", "main", 0, -1, k, v, -1, c, name, <<>>)
Child(j, n) == 100 * j + n

Init ==
  /\ cfgF \in [RJobs -> FailVals] /\ cfgC \in [RJobs \cup TJobs -> CancelVals]
  /\ rfut = [j \in RJobs |-> "none"] /\ rjobs = <<>> /\ ratt = [j \in RJobs |-> 0]
  /\ rdel = [j \in RJobs |-> "none"] /\ rcan = [j \in RJobs |-> FALSE] /\ rq = 0 /\ rtot = 0
  /\ tfut = [j \in TJobs |-> "none"] /\ tq = <<>> /\ trun = 0 /\ tcan = [j \in TJobs |-> FALSE] /\ tgq = 0
  /\ fin = [k \in Types |-> 0] /\ ftot = [k \in Types |-> 0] /\ fcan = [k \in Types |-> 0]
  /\ ferr = [k \in Types |-> 0]
  /\ obs = ObsInit /\ viol = "ok"

\* ------------------------------------------------------------------ metrics/__init__.py
Track(k) ==            \* track_future
  /\ ftot' = [ftot EXCEPT ![k] = @ + 1] /\ fin' = [fin EXCEPT ![k] = @ + 1]
RecordDone(k, how) ==  \* record_done (done-callback): how \in {"ok", "error", "cancel"}
  /\ fin' = [fin EXCEPT ![k] = IF Bug = "no_inprogress_dec" THEN @ ELSE @ - 1]
  /\ fcan' = [fcan EXCEPT ![k] = IF how = "cancel" THEN @ + 1 ELSE @]
  /\ ferr' = [ferr EXCEPT ![k] = IF how = "error" THEN @ + 1 ELSE @]
  /\ UNCHANGED ftot
NoFutureMetric == UNCHANGED <<fin, ftot, fcan, ferr>>

\* ------------------------------------------------------------------ RetryExecutor
JobIdx(j) == CHOOSE i \in DOMAIN rjobs : rjobs[i].j = j
InList(j) == \E i \in DOMAIN rjobs : rjobs[i].j = j
Without(j) == SelectSeq(rjobs, LAMBDA r : r.j # j)

RSubmit(j) ==
  /\ rfut[j] = "none"
  /\ rfut' = [rfut EXCEPT ![j] = "pending"]
  /\ Track(T_R) /\ UNCHANGED <<fcan, ferr>>
  /\ rjobs' = Append(rjobs, [j |-> j, deleg |-> FALSE, stop |-> FALSE])
  /\ rq' = rq + 1
  /\ Emit(<<EvCreated(j, T_R, X_R, 0)>>)
  /\ UNCHANGED <<cfg, ratt, rdel, rcan, rtot, tvars>>

\* the submit thread takes a job without delegate: at once for a new job, after the back-off for a retry
RToDelegate(j) ==
  /\ InList(j) /\ ~rjobs[JobIdx(j)].deleg /\ rfut[j] = "pending"
  /\ rjobs' = Append(Without(j), [j |-> j, deleg |-> TRUE, stop |-> FALSE])
  /\ rq' = rq - 1 + 1
  /\ rtot' = IF ratt[j] # 0 THEN rtot + 1 ELSE rtot
  /\ ratt' = [ratt EXCEPT ![j] = @ + 1]
  /\ rdel' = [rdel EXCEPT ![j] = "running"]
  /\ Emit(<<EvLower(j), EvCreated(Child(j, ratt[j] + 1), 0, X_D, j)>>)
  /\ NoFutureMetric
  /\ UNCHANGED <<cfg, rfut, rcan, tvars>>

\* the delegate's work ends; _delegate_callback runs in the completing thread
RDelegateDone(j) ==
  /\ rdel[j] = "running"
  /\ LET failed == ratt[j] <= cfgF[j]
         job == rjobs[JobIdx(j)]
         retry == failed /\ ~job.stop /\ ratt[j] < MaxAttempts
         ch == Child(j, ratt[j])
     IN /\ rdel' = [rdel EXCEPT ![j] = "done"]
        /\ IF retry
             THEN /\ rjobs' = Append(Without(j), [j |-> j, deleg |-> FALSE, stop |-> job.stop])
                  /\ rq' = (IF Bug = "retry_double_dec" THEN rq - 2 ELSE rq - 1) + 1
                  /\ UNCHANGED rfut /\ NoFutureMetric
                  /\ Emit(<<EvState(ch, "FINISHED", 1)>>)
             ELSE /\ rfut' = [rfut EXCEPT ![j] = IF failed THEN "failed" ELSE "done"]
                  /\ RecordDone(T_R, IF failed THEN "error" ELSE "ok")
                  /\ rjobs' = Without(j)
                  /\ rq' = IF Bug = "no_dec_on_finalize" THEN rq ELSE rq - 1
                  /\ Emit(<<EvState(ch, "FINISHED", IF failed THEN 1 ELSE 0),
                            EvState(j, "FINISHED", IF failed THEN 1 ELSE 0)>>)
  /\ UNCHANGED <<cfg, ratt, rcan, rtot, tvars>>

\* somebody else cancels the attempt in flight (a CancelOnShutdownExecutor or a timeout *below* the retry layer):
\* _delegate_callback returns early exactly as in CancelInFlight, but the retry future is not resolved - it stays
\* pending for ever (defect D3, property C03; for C20 the gauges must still describe this state)
RExternalCancel(j) ==
  /\ rfut[j] = "pending" /\ rdel[j] = "running" /\ cfgC[j]
  /\ rdel' = [rdel EXCEPT ![j] = "cancelled"]
  /\ IF Shipped("inflight") THEN UNCHANGED <<rjobs, rq>> ELSE rjobs' = Without(j) /\ rq' = rq - 1
  /\ Emit(<<EvState(Child(j, ratt[j]), "CANCELLED", -1)>>)
  /\ NoFutureMetric
  /\ UNCHANGED <<cfg, rfut, ratt, rcan, rtot, tvars>>

RCancel(j) ==
  /\ rfut[j] = "pending" /\ ~rcan[j] /\ InList(j)
  /\ rcan' = [rcan EXCEPT ![j] = TRUE]
  /\ LET job == rjobs[JobIdx(j)]
         ch == Child(j, ratt[j])
     IN CASE ~job.deleg ->           \* CancelBetweenRetries (or before the first attempt): self._jobs.pop(idx)
               /\ rjobs' = Without(j)
               /\ rq' = IF Shipped("between") THEN rq ELSE rq - 1
               /\ rfut' = [rfut EXCEPT ![j] = "cancelled"]
               /\ RecordDone(T_R, "cancel")
               /\ Emit(<<EvState(j, "CANCELLED_AND_NOTIFIED", -1)>>)
               /\ UNCHANGED rdel
          [] job.deleg /\ cfgC[j] /\ rdel[j] = "running" ->    \* CancelInFlight: delegate.cancel() succeeds
               /\ rdel' = [rdel EXCEPT ![j] = "cancelled"]
               /\ IF Shipped("inflight")
                    THEN /\ rjobs' = [rjobs EXCEPT ![JobIdx(j)].stop = TRUE]    \* the job stays for ever
                         /\ UNCHANGED rq
                    ELSE /\ rjobs' = Without(j) /\ rq' = rq - 1
               /\ rfut' = [rfut EXCEPT ![j] = "cancelled"]
               /\ RecordDone(T_R, "cancel")
               /\ Emit(<<EvState(ch, "CANCELLED", -1), EvState(j, "CANCELLED_AND_NOTIFIED", -1)>>)
          [] OTHER ->                \* in flight, not cancellable: stop_retry, cancel() returns False
               /\ rjobs' = [rjobs EXCEPT ![JobIdx(j)].stop = TRUE]
               /\ UNCHANGED <<rq, rfut, rdel, obs, viol>> /\ NoFutureMetric
  /\ UNCHANGED <<cfg, ratt, rtot, tvars>>

\* ------------------------------------------------------------------ ThrottleExecutor
TSubmit(j) ==
  /\ tfut[j] = "none"
  /\ tfut' = [tfut EXCEPT ![j] = "queued"]
  /\ Track(T_T) /\ UNCHANGED <<fcan, ferr>>
  /\ tq' = Append(tq, j) /\ tgq' = tgq + 1
  /\ Emit(<<EvCreated(j, T_T, X_T, 0)>>)
  /\ UNCHANGED <<cfg, trun, tcan, rvars>>

THandOver ==         \* the hand-over thread pops one job (it pops while running < count)
  /\ tq # <<>> /\ trun < Count
  /\ LET j == Head(tq)
     IN /\ tq' = Tail(tq) /\ trun' = trun + 1 /\ tgq' = tgq - 1
        /\ tfut' = [tfut EXCEPT ![j] = "handed"]
        /\ Emit(<<EvLower(j), EvCreated(Child(j, 1), 0, X_D, j)>>)
  /\ NoFutureMetric
  /\ UNCHANGED <<cfg, tcan, rvars>>

TDelegateDone(j) ==
  /\ tfut[j] = "handed"
  /\ tfut' = [tfut EXCEPT ![j] = "done"] /\ trun' = trun - 1
  /\ RecordDone(T_T, "ok")
  /\ Emit(<<EvState(Child(j, 1), "FINISHED", 0), EvState(j, "FINISHED", 0)>>)
  /\ UNCHANGED <<cfg, tq, tcan, tgq, rvars>>

TCancel(j) ==
  /\ tfut[j] \in {"queued", "handed"} /\ ~tcan[j]
  /\ tcan' = [tcan EXCEPT ![j] = TRUE]
  /\ CASE tfut[j] = "queued" ->      \* CancelQueued: _do_cancel removes the job from the deque
            /\ tq' = SelectSeq(tq, LAMBDA x : x # j)
            /\ tgq' = IF Shipped("throttle") THEN tgq ELSE tgq - 1
            /\ tfut' = [tfut EXCEPT ![j] = "cancelled"]
            /\ RecordDone(T_T, "cancel")
            /\ Emit(<<EvState(j, "CANCELLED_AND_NOTIFIED", -1)>>)
            /\ UNCHANGED trun
       [] tfut[j] = "handed" /\ cfgC[j] ->   \* the delegate future is cancelled: running --, future cancelled
            /\ tfut' = [tfut EXCEPT ![j] = "cancelled"] /\ trun' = trun - 1
            /\ RecordDone(T_T, "cancel")
            /\ Emit(<<EvState(Child(j, 1), "CANCELLED", -1), EvState(j, "CANCELLED_AND_NOTIFIED", -1)>>)
            /\ UNCHANGED <<tq, tgq>>
       [] OTHER -> UNCHANGED <<tq, tgq, tfut, trun, obs, viol>> /\ NoFutureMetric
  /\ UNCHANGED <<cfg, rvars>>

Next ==
  \/ \E j \in RJobs : RSubmit(j) \/ RToDelegate(j) \/ RDelegateDone(j) \/ RCancel(j) \/ RExternalCancel(j)
  \/ \E j \in TJobs : TSubmit(j) \/ TDelegateDone(j) \/ TCancel(j)
  \/ THandOver

Spec == Init /\ [][Next]_vars

\* ------------------------------------------------------------------ properties
\* no library thread can run without the clock advancing
Quiescent ==
  /\ \A i \in DOMAIN rjobs : rjobs[i].deleg \/ ratt[rjobs[i].j] > 0 \/ rfut[rjobs[i].j] # "pending"
  /\ ~(tq # <<>> /\ trun < Count)

GaugeNonNegative == rq >= 0 /\ tgq >= 0 /\ \A k \in Types : fin[k] >= 0

\* what is actually queued: jobs in the list that still belong to a pending future
ActualRetryQueue == Cardinality({i \in DOMAIN rjobs : rfut[rjobs[i].j] = "pending"})
QuiescentGaugesMatch ==
  Quiescent => /\ rq = ActualRetryQueue
               /\ tgq = Len(tq)
               /\ fin[T_R] = Cardinality({j \in RJobs : rfut[j] = "pending"})
               /\ fin[T_T] = Cardinality({j \in TJobs : tfut[j] \in {"queued", "handed"}})

\* the registry as the harness would read it, judged by the contract's own clauses
SnapEvents ==
  << EvMetric("retry_queue", 0, X_R, rq), EvMetric("retry_total", 0, X_R, rtot),
     EvMetric("throttle_queue", 0, X_T, tgq),
     EvMetric("future_inprogress", T_R, X_R, fin[T_R]), EvMetric("future_total", T_R, X_R, ftot[T_R]),
     EvMetric("future_cancel", T_R, X_R, fcan[T_R]), EvMetric("future_error", T_R, X_R, ferr[T_R]),
     EvMetric("future_inprogress", T_T, X_T, fin[T_T]), EvMetric("future_total", T_T, X_T, ftot[T_T]),
     EvMetric("future_cancel", T_T, X_T, fcan[T_T]), EvMetric("future_error", T_T, X_T, ferr[T_T]) >>
ContractAtQuiescence == Quiescent => Feed(obs, "ok", SnapEvents)[2] = "ok"
ContractHolds == viol = "ok"
=============================================================================
