---------------------------- MODULE ChainObs ----------------------------
(* Contract of a chain of derived futures f_N -> ... -> f_1 -> f_0 (f_0: the underlying plain Future; f_i: a library
   future whose delegate is f_{i-1}), i.e. of more_executors/_impl/common.py `_Future` + map.py `MapFuture`:
   every future of the chain obeys the Future protocol (all clauses of FutureObs, C02), the chain never stays behind
   its base (C03), a cancel() that returned True has reached the base (C06).

   Events: Cfg(a = N); Observed(f = layer, s, a, b); CancelCall(f) / CancelRet(f, a) / CancelRaise(f);
           AddCbCall / AddCbRet / Callback(f, k, a); BlockedAtEnd(thr, s = kind); End.
*)
EXTENDS ObsKit
F == INSTANCE FutureObs

ObsInit == [fut |-> F!ObsInit, n |-> 0, state |-> EmptyMap, ctrue |-> {}]

ObsNext(st, e) ==
  LET f2 == F!ObsNext(st.fut, e) IN
  CASE e.ev = "Cfg" -> [st EXCEPT !.fut = f2, !.n = e.a]
    [] e.ev = "Observed" -> [st EXCEPT !.fut = f2, !.state = Put(@, e.f, e.s)]
    [] e.ev = "CancelRet" /\ e.a = 1 -> [st EXCEPT !.fut = f2, !.ctrue = @ \cup {e.f}]
    [] OTHER -> [st EXCEPT !.fut = f2]

StateOf(st, i) == Get(st.state, i, "PENDING")

Clauses(st, e) ==
  F!Clauses(st.fut, e) \o
  << <<"C03_ChainFollowsBase",        \* once the base is done (by result, exception or cancellation) every layer is
        e.ev = "End" => (StateOf(st, 0) \in Terminal => \A i \in 1..st.n : StateOf(st, i) \in Terminal)>>,
     <<"C02_LayerNotAheadOfBase",     \* a layer finishes with a result only after the base did
        (e.ev = "Observed" /\ e.f >= 1 /\ e.s = "FINISHED") => StateOf(st, 0) = "FINISHED">>,
     <<"C06_TrueReachesBase",         \* a successful cancel() anywhere in the chain has cancelled the base
        e.ev = "End" => (st.ctrue # {} => StateOf(st, 0) \in CancelledStates)>>,
     <<"C04_NoDeadlock",
        e.ev = "BlockedAtEnd" => e.s \notin {"acquire", "join"}>> >>
=============================================================================
