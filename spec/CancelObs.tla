---------------------------- MODULE CancelObs ----------------------------
(* Contract of C06 on arbitrary executor stacks: "Cancel: True means the work never starts; it stops retries;
   it propagates".   (The retry-specific clauses are also part of RetryObs, the throttle-queue ones of
   ThrottleObs, the combinators' fan-out of CombinatorObs, the f_nocancel shield of ProxyObs.)

   Events: Layer(k, s = type) bottom -> top; SubmitRet(f); Invoke(f, k) / InvokeEnd(f, k);
           DelegateSubmit(f, s = "tap<i>")  the layer i hands f's callable to the executor below it;
           DelegateState(f, c = i, s)       state of the future that submission returned;
           CancelArrived(f, s = "tap<i>")   cancel() called on that future;
           CancelCall(f) / CancelRet(f, a) / CancelRaise(f) on the top-level future;
           Observed(f, s); Final(f, s); ShutdownCall; End.
*)
EXTENDS ObsKit

TapIdx(s) == IF s = "tap1" THEN 1 ELSE IF s = "tap2" THEN 2 ELSE IF s = "tap3" THEN 3 ELSE IF s = "tap4" THEN 4
             ELSE IF s = "tap5" THEN 5 ELSE IF s = "tap6" THEN 6 ELSE IF s = "tap7" THEN 7 ELSE 0

ObsInit == [types |-> <<>>,        \* layer types bottom -> top
            running |-> {},        \* futures whose callable is running
            live |-> {},           \* <<f, i>>: the future tap i returned for f exists and is not done
            finished |-> {},       \* <<f, i>>: ... finished by itself (not cancelled)
            ccall |-> {}, cret |-> {}, ctrue |-> {},
            \* per calling thread (a thread is inside at most one cancel() of a top-level future at a time):
            crun |-> EmptyMap,     \* thr -> callable was running when its pending cancel() was issued
            lac |-> EmptyMap,      \* thr -> taps live when its pending cancel() was issued
            arrived |-> {},        \* <<f, i>>: some cancel() has arrived at the future tap i returned for f
            arrby |-> EmptyMap,    \* thr -> the <<f, i>> its pending cancel() call has reached so far (forwarding is synchronous)
                                   \* (a second, concurrent cancel() returns True without forwarding again)
            ready |-> EmptyMap,    \* <<f, i>> -> time at which tap i's submit returned that future to the layer above
            lacq |-> EmptyMap,     \* thr -> taps live AND handed over at an earlier instant than its pending cancel()
            rstop |-> {},          \* <<f, i>>: some cancel() call on the future of retry layer i has returned
            sync |-> FALSE,        \* synchronous base: callables run inside submit(), under the locks of the layers above
            cfalse_run |-> {},     \* futures whose cancel() returned False because the callable was running
            down |-> FALSE]

IsRetryTap(st, i) == i >= 1 /\ i <= Len(st.types) /\ st.types[i] = "retry"

ObsNext(st, e) ==
  CASE e.ev = "Layer" -> [st EXCEPT !.types = Append(@, e.s)]
    [] e.ev = "Base" -> [st EXCEPT !.sync = (e.s = "sync")]
    [] e.ev = "Invoke" -> [st EXCEPT !.running = @ \cup {e.f}]
    [] e.ev = "InvokeEnd" -> [st EXCEPT !.running = @ \ {e.f}]
    [] e.ev = "DelegateSubmit" /\ TapIdx(e.s) > 0 ->
          [st EXCEPT !.live = @ \cup {<<e.f, TapIdx(e.s)>>}, !.finished = @ \ {<<e.f, TapIdx(e.s)>>}]
    [] e.ev = "DelegateSubmitRet" /\ TapIdx(e.s) > 0 -> [st EXCEPT !.ready = Put(@, <<e.f, TapIdx(e.s)>>, e.t)]
    [] e.ev = "DelegateState" /\ e.s \in Terminal ->
          [st EXCEPT !.live = @ \ {<<e.f, e.c>>},
                     !.finished = IF e.s = "FINISHED" THEN @ \cup {<<e.f, e.c>>} ELSE @]
    [] e.ev = "CancelCall" ->
          [st EXCEPT !.ccall = @ \cup {e.f}, !.crun = Put(@, e.thr, e.f \in st.running),
                     !.lac = Put(@, e.thr, {p[2] : p \in {q \in st.live : q[1] = e.f}}),
                     \* (virtual time only advances when no thread can run: a hand-over begun at an earlier instant
                     \*  is complete)
                     !.lacq = Put(@, e.thr, {p[2] : p \in {q \in st.live : q[1] = e.f /\ Has(st.ready, q)
                                                                        /\ st.ready[q] < e.t}}),
                     !.arrby = Put(@, e.thr, {})]
    [] e.ev = "CancelArrived" /\ TapIdx(e.s) > 0 ->
          [st EXCEPT !.arrived = @ \cup {<<e.f, TapIdx(e.s)>>},
                     !.arrby = Put(@, e.thr, Get(@, e.thr, {}) \cup {<<e.f, TapIdx(e.s)>>})]
    [] e.ev = "CancelArrivedRet" /\ TapIdx(e.s) > 1 /\ IsRetryTap(st, TapIdx(e.s) - 1) ->
          [st EXCEPT !.rstop = @ \cup {<<e.f, TapIdx(e.s) - 1>>}]
    [] e.ev = "CancelRet" ->
          [st EXCEPT !.cret = @ \cup {e.f}, !.ctrue = IF e.a = 1 THEN @ \cup {e.f} ELSE @,
                     !.rstop = IF IsRetryTap(st, Len(st.types)) THEN @ \cup {<<e.f, Len(st.types)>>} ELSE @,
                     !.cfalse_run = IF e.a = 0 /\ Get(st.crun, e.thr, FALSE) /\ e.f \in st.running THEN @ \cup {e.f} ELSE @]
    [] e.ev = "ShutdownCall" -> [st EXCEPT !.down = TRUE]
    [] OTHER -> st

Clauses(st, e) ==
  << <<"C06_TrueMeansNeverStarts",
        \* (InnerRun: the work of a flat-mapped inner future of f starts)
        ((e.ev \in {"Invoke", "InnerRun"} \/ (e.ev = "DelegateSubmit" /\ TapIdx(e.s) > 0)) /\ e.f \in st.ctrue) => FALSE>>,
     <<"C06_TrueSticks",
        ((e.ev = "Observed" \/ e.ev = "Final") /\ e.s = "FINISHED") => e.f \notin st.ctrue>>,
     <<"C06_RunningMeansFalse",
        (e.ev = "CancelRet" /\ Get(st.crun, e.thr, FALSE) /\ e.f \in st.running) => e.a = 0>>,
     <<"C06_RunningStillCompletes",
        (e.ev = "Final" /\ e.f \in st.cfalse_run /\ e.f \notin st.ctrue /\ ~st.down) => e.s = "FINISHED">>,
     <<"C06_AnyCancelStopsRetry",
        (e.ev = "DelegateSubmit" /\ IsRetryTap(st, TapIdx(e.s)) /\ <<e.f, TapIdx(e.s)>> \in st.rstop) => FALSE>>,
     <<"C06_Forwarded",
        (e.ev = "CancelRet" /\ e.a = 1 /\ Has(st.lac, e.thr)) =>
            \A i \in st.lac[e.thr] : <<e.f, i>> \in st.arrived \/ <<e.f, i>> \in st.finished>>,
     <<"C06_ForwardedEvenIfRefused",
        \* a cancel() that comes back False was forwarded all the same - THIS call, however many were refused before it -
        \* unless the callable was running when it was
        \* issued (then the refusal may come from any layer on the way down).  Not judged over a synchronous base: there a
        \* worker thread runs the callable - for as long as it takes - while holding library locks, so another layer's
        \* hand-over can still be blocked at a later instant
        (e.ev = "CancelRet" /\ e.a = 0 /\ ~st.sync /\ Has(st.lacq, e.thr) /\ ~Get(st.crun, e.thr, FALSE) /\ e.f \notin st.running) =>
            \A i \in st.lacq[e.thr] : <<e.f, i>> \in Get(st.arrby, e.thr, {}) \/ <<e.f, i>> \in st.finished
                                     \/ <<e.f, i>> \notin st.live>>,
     <<"C02_CancelNeverRaises",
        e.ev = "CancelRaise" => FALSE>> >>
=============================================================================
