---------------------------- MODULE BoolOp ----------------------------
(* Implementation-shaped specification of f_or / f_and (more_executors/_impl/futures/bool.py:
   BoolOperation.__init__ / handle_done, OrOperation / AndOperation.get_state_update) and of
   chain_cancel (futures/base.py).

       visible primitive = the operation's `lock`.

   Completing (or cancelling) a future runs its done-callbacks inline in the completing thread, so every
   thread is a stack of pending micro-operations `todo[t]` (a continuation):
       icall/iset/iret   the harness' completer: record the call, complete the input, record the return
       lock i            handle_done(i): `with self.lock:` remove i from fs, decide (get_state_update)
       wval/wexc i       outside the lock: try_set_result(out, ..) / copy_future_exception(i, out)
       cin j             input j receives cancel() (loser cancellation, or chain_cancel from the output)
       ocan              out.cancel() (0: by the operation because an input was cancelled, 1: by the client)
       ccall, reg p, adc p, cret   the f_or/f_and call: chain_cancel(out, f_p); f_p.add_done_callback(..)
       ucall/uret        the client's cancel of the output
   The lock is taken and released inside one step, so it is free between steps.
     Coarse = TRUE   one action = "perform the pending visible operation and run up to the next one"
                     (the granularity of the engine's replay: spec behaviours are replayable in the code);
     Coarse = FALSE  one action = one micro-operation (every interleaving of the unlocked output write and
                     loser cancellation with the other threads: what line granularity explores in the code).

   Threads: MAIN (calls the combinator), Comp(i) completes input i with the outcome cfgK[i] chosen in Init
   (0 never, 1 truthy, 2 falsy, 3 exception, 4 cancelled), CAN cancels the output (if cfgU), OBS ends the run.
   All of them are enabled from the start (CAN once the output exists), so TLC covers every completion
   order, already-done inputs, completions racing the registration, and a cancel at any point.
   cfgP = input per argument position (repeats = duplicated input), cfgS[i] = input i is wrapped in f_nocancel.

   Bug = "publish_under_lock" (seeded change C14-r3m1): the output is written while `lock` - a plain, non re-entrant
   Lock - is still held; a done-callback of the output that leads back into handle_done of the same operation
   (OutCb, or a nested f_or/f_and sharing an input) then blocks the completing thread on itself for ever.

   AsShipped_N1 = TRUE models upstream: the second callback of a repeated input finds it gone from `fs`
   (KeyError).  A plain Future swallows the exception of a done-callback; the library's own future class
   (here: the f_nocancel wrapper) lets it escape from add_done_callback when the input is already done,
   i.e. out of f_or()/f_and() (clause C14_CallReturnsOutput).
*)
EXTENDS CombinatorObs

CONSTANTS Op, InputIds, PosChoices, Kinds, ShieldVals, CancelVals, Coarse, KeepHist, AsShipped_N1, Bug,
          OutCb     \* 0, or an input id: after the call the client adds a done-callback to the output that calls cancel()
                    \* on that input ("the race is over") - it runs inline in whichever thread completes the output

\* argument lists (input per position) to substitute for PosChoices in the cfg files (PosChoices <- P2d ...)
P2  == {<<1, 2>>}
P2d == {<<1, 2>>, <<1, 2, 1>>, <<1, 1>>, <<2, 2, 1>>}
P3  == {<<1, 2, 3>>}
P3d == {<<1, 2, 3>>, <<1, 2, 2, 3>>, <<3, 1, 3, 2>>}
P4  == {<<1, 2, 3, 4>>}

MAIN == <<"main", 0>>
CAN  == <<"can", 1>>
OBS  == <<"obs", 0>>
Comp(i) == <<"comp", i>>
Threads == {MAIN, CAN} \cup {Comp(i) : i \in InputIds}

VARIABLES cfgK, cfgS, cfgP, cfgU,
          todo, fs, done, ist, already, okv, chain, cb, ost, oa, ob, ures, ready, seen, ended,
          lk,        \* owner of the operation's lock between steps (only ever held across steps by the model bug)
          ocbreg,    \* the client's callback on the output has been registered
          obs, viol, hist, actor

cfg  == <<cfgK, cfgS, cfgP, cfgU>>
impl == <<todo, fs, done, ist, already, okv, chain, cb, ost, oa, ob, ures, ready, lk, ocbreg>>
vars == <<cfg, impl, seen, ended, obs, viol, hist, actor>>

RECURSIVE Feed(_, _, _)
Feed(o, v, evs) ==
  IF evs = <<>> THEN <<o, v>>
  ELSE LET e == Head(evs)
           ff == FirstFailed(Clauses(o, e))
       IN Feed(ObsNext(o, e), IF v = "ok" THEN ff ELSE v, Tail(evs))
Emit(evs) ==
  LET r == Feed(obs, viol, evs) IN
    /\ obs' = r[1] /\ viol' = r[2]
    /\ hist' = IF KeepHist THEN hist \o [i \in 1..Len(evs) |-> <<evs[i].ev, evs[i].f, evs[i].t>>] ELSE hist

RECURSIVE AscSeq(_)
AscSeq(S) == IF S = {} THEN <<>>
             ELSE LET m == CHOOSE x \in S : \A y \in S : x <= y IN <<m>> \o AscSeq(S \ {m})

Used == {cfgP[p] : p \in DOMAIN cfgP}
FirstPos(p) == \A q \in 1..(p - 1) : cfgP[q] # cfgP[p]
\* list(self.fs.keys()): dict order = order of first occurrence among the arguments
KeySeq(F) == LET ps == AscSeq({p \in DOMAIN cfgP : FirstPos(p) /\ cfgP[p] \in F})
             IN [k \in DOMAIN ps |-> <<"cin", cfgP[ps[k]]>>]
\* the done-callbacks registered on input i so far, one per argument position
\* (seeded model bug pop_before_lock: the finished input is removed from the pending dict BEFORE the lock is taken)
LockOps(cbs, i) == LET ps == AscSeq({p \in cbs : cfgP[p] = i}) IN
                     IF Bug = "pop_before_lock"
                       THEN [k \in 1..(2 * Len(ps)) |-> IF k % 2 = 1 THEN <<"pop", i>> ELSE <<"lock2", i>>]
                       ELSE [k \in DOMAIN ps |-> <<"lock", i>>]
ChainOps(ch) == LET ps == AscSeq(ch) IN [k \in DOMAIN ps |-> <<"cin", cfgP[ps[k]]>>]

Init ==
  /\ cfgK \in [InputIds -> Kinds] /\ cfgS \in [InputIds -> ShieldVals] /\ cfgP \in PosChoices /\ cfgU \in CancelVals
  /\ \A i \in InputIds : cfgS[i] => cfgK[i] # 4   \* a cancelled future behind f_nocancel never resolves it (D3)
  /\ todo = [t \in Threads |->
               IF t = MAIN THEN <<<<"ccall", 0>>>> \o [p \in DOMAIN cfgP |-> <<"reg", p>>] \o <<<<"cret", 0>>>>
                                \o (IF OutCb # 0 THEN <<<<"ocb", 0>>>> ELSE <<>>)
               ELSE IF t = CAN THEN (IF cfgU THEN <<<<"ucall", 0>>, <<"ocan", 1>>, <<"uret", 0>>>> ELSE <<>>)
               ELSE IF cfgK[t[2]] = 0 \/ t[2] \notin Used THEN <<>>
               ELSE <<<<"icall", t[2]>>, <<"iset", t[2]>>, <<"iret", t[2]>>>>]
  /\ fs = Used /\ done = FALSE /\ ist = [i \in InputIds |-> 0] /\ already = [i \in InputIds |-> FALSE]
  /\ okv = [i \in InputIds |-> 1] /\ chain = {} /\ cb = {} /\ ost = "PENDING" /\ oa = -1 /\ ob = -1 /\ ures = -1
  /\ ready = FALSE /\ seen = "PENDING" /\ ended = FALSE /\ lk = <<"none", 0>> /\ ocbreg = FALSE
  /\ obs = ObsNext(ObsInit, Ev("Cfg", "-", "main", 0, -1, -1, Len(cfgP), -1, -1, Op, cfgP))
  /\ viol = "ok" /\ hist = <<>> /\ actor = <<"-", 0>>

Pack == [todo |-> todo, fs |-> fs, done |-> done, ist |-> ist, already |-> already, okv |-> okv,
         chain |-> chain, cb |-> cb, ost |-> ost, oa |-> oa, ob |-> ob, ures |-> ures, ready |-> ready,
         lk |-> lk, ocbreg |-> ocbreg, evs |-> <<>>]
NoOne == <<"none", 0>>
\* the done-callbacks of the output: the client's one (registered after the call returned)
OutCbOps(s) == IF OutCb # 0 /\ s.ocbreg THEN <<<<"cin", OutCb>>>> ELSE <<>>

\* ------------------------------------------------------------------ handle_done(i), under the lock
\* "that was the last input": nothing is left in the pending map.  Seeded model bug dup_counter (change C14-r4m2): a
\* counter initialised with the number of ARGUMENTS and decremented once per distinct input - never 0 with a repeated input
LastGone(rest) == IF Bug = "dup_counter" THEN Len(cfgP) - (Cardinality(Used) - Cardinality(rest)) = 0 ELSE rest = {}
Decides(k, rest) ==
  IF Bug = "or_last_only" THEN rest = {}
  ELSE IF Op = "or" THEN (LastGone(rest) \/ k = 1) ELSE (k \in {2, 3, 4} \/ LastGone(rest))

HandleDone(s, t, i, more) ==
  IF s.done THEN [s EXCEPT !.todo[t] = more]
  ELSE IF i \notin s.fs                       \* del self.fs[f] -> KeyError (second callback of a repeated input)
    THEN IF AsShipped_N1 /\ t = MAIN /\ cfgS[i]
           THEN [s EXCEPT !.todo[t] = <<>>, !.evs = Append(@, ES("CombRaise", "main", 0, -1, "KeyError"))]
           ELSE [s EXCEPT !.todo[t] = more]   \* swallowed (and logged) by the future's callback loop
    ELSE LET rest == s.fs \ {i}
             k == s.ist[i]
         IN IF ~Decides(k, rest) THEN [s EXCEPT !.fs = rest, !.todo[t] = more]
            ELSE [s EXCEPT !.fs = rest, !.done = TRUE,
                           !.lk = IF Bug = "publish_under_lock" THEN t ELSE @,
                           !.todo[t] = (IF k \in {1, 2} THEN <<<<"wval", i>>>> ELSE IF k = 3 THEN <<<<"wexc", i>>>> ELSE <<>>)
                                       \o (IF Bug = "publish_under_lock" THEN <<<<"unlock", 0>>>> ELSE <<>>)
                                       \o (IF Bug = "no_loser_cancel" THEN <<>> ELSE KeySeq(rest))
                                       \o (IF k = 4 THEN <<<<"ocan", 0>>>> ELSE <<>>)
                                       \o more]

\* handle_done after the lock-free pop (pop_before_lock): the decision sees whatever is left in the dict by now
HandleDone2(s, t, i, more) ==
  IF s.done THEN [s EXCEPT !.todo[t] = more]
  ELSE LET rest == s.fs
           k == s.ist[i]
       IN IF ~Decides(k, rest) THEN [s EXCEPT !.todo[t] = more]
          ELSE [s EXCEPT !.done = TRUE,
                         !.todo[t] = (IF k \in {1, 2} THEN <<<<"wval", i>>>> ELSE IF k = 3 THEN <<<<"wexc", i>>>> ELSE <<>>)
                                     \o KeySeq(rest) \o (IF k = 4 THEN <<<<"ocan", 0>>>> ELSE <<>>) \o more]

\* ------------------------------------------------------------------ one micro-operation of thread t
Exec(s, t) ==
  LET h == Head(s.todo[t])
      more == Tail(s.todo[t])
      k == h[1]
      x == h[2]
  IN CASE k = "icall" -> [s EXCEPT !.todo[t] = more, !.already[x] = (s.ist[x] = 4),
                                   !.evs = Append(@, E3("InputSetCall", "client", 0, x, cfgK[x], x))]
       [] k = "iset" -> IF s.ist[x] = 0
                          THEN [s EXCEPT !.ist[x] = cfgK[x], !.okv[x] = 1, !.todo[t] = LockOps(s.cb, x) \o more]
                          ELSE [s EXCEPT !.okv[x] = IF cfgK[x] = 4 /\ ~s.already[x] THEN 1 ELSE 0, !.todo[t] = more]
       [] k = "iret" -> [s EXCEPT !.todo[t] = more, !.evs = Append(@, E2("InputSetRet", "client", 0, x, s.okv[x]))]
       [] k = "lock" -> HandleDone(s, t, x, more)
       [] k = "pop" -> IF x \notin s.fs THEN [s EXCEPT !.todo[t] = Tail(more)]      \* duplicate: nothing to do
                       ELSE [s EXCEPT !.fs = @ \ {x}, !.todo[t] = more]
       [] k = "lock2" -> HandleDone2(s, t, x, more)
       [] k \in {"wval", "wexc"} ->
            IF s.ost = "PENDING"
              THEN [s EXCEPT !.ost = "FINISHED", !.oa = IF k = "wexc" THEN 1 ELSE 0, !.ob = x,
                             !.todo[t] = OutCbOps(s) \o more]
              ELSE [s EXCEPT !.todo[t] = more]           \* InvalidStateError, tolerated
       [] k = "ocan" ->
            IF s.ost = "PENDING"                           \* state CANCELLED, then the chain_cancel callbacks
              THEN [s EXCEPT !.ost = "CANCELLED", !.ures = IF x = 1 THEN 1 ELSE @,
                             !.todo[t] = ChainOps(s.chain) \o OutCbOps(s) \o more]
              ELSE [s EXCEPT !.ures = IF x = 1 THEN (IF s.ost = "CANCELLED" THEN 1 ELSE 0) ELSE @, !.todo[t] = more]
       [] k = "cin" ->
            IF s.ist[x] = 0 /\ ~cfgS[x]
              THEN [s EXCEPT !.ist[x] = 4, !.todo[t] = LockOps(s.cb, x) \o more,
                             !.evs = Append(@, ES("CancelArrived", "client", 0, x, "input"))]
              ELSE [s EXCEPT !.todo[t] = more, !.evs = Append(@, ES("CancelArrived", "client", 0, x, "input"))]
       [] k = "ccall" -> [s EXCEPT !.todo[t] = more, !.evs = Append(@, E0("CombCall", "main", 0))]
       [] k = "reg" ->   \* chain_cancel(out, f): out.add_done_callback runs at once if out is already done
            [s EXCEPT !.chain = @ \cup {x},
                      !.todo[t] = (IF s.ost = "CANCELLED" THEN <<<<"cin", cfgP[x]>>>> ELSE <<>>) \o <<<<"adc", x>>>> \o more]
       [] k = "adc" ->   \* f.add_done_callback(handle_done): inline if f is already done
            IF s.ist[cfgP[x]] # 0
              THEN [s EXCEPT !.todo[t] = (IF Bug = "pop_before_lock" THEN <<<<"pop", cfgP[x]>>, <<"lock2", cfgP[x]>>>>
                                          ELSE <<<<"lock", cfgP[x]>>>>) \o more]
                                  ELSE [s EXCEPT !.cb = @ \cup {x}, !.todo[t] = more]
       [] k = "cret" -> [s EXCEPT !.todo[t] = more, !.ready = TRUE,
                                  !.evs = Append(@, Ev("CombRet", "-", "main", 0, -1, -1, -1, -1, 0, "", <<>>))]
       [] k = "unlock" -> [s EXCEPT !.lk = NoOne, !.todo[t] = more]
       [] k = "ocb" ->    \* out.add_done_callback(client's callback): inline if the output is already done
            IF s.ost # "PENDING" THEN [s EXCEPT !.ocbreg = TRUE, !.todo[t] = <<<<"cin", OutCb>>>> \o more]
                                 ELSE [s EXCEPT !.ocbreg = TRUE, !.todo[t] = more]
       [] k = "ucall" -> [s EXCEPT !.todo[t] = more, !.evs = Append(@, E1("CancelCall", "canceller", 0, 0))]
       [] k = "uret" -> [s EXCEPT !.todo[t] = more, !.evs = Append(@, E2("CancelRet", "canceller", 0, 0, s.ures))]

RECURSIVE Run(_, _)
Run(s, t) ==
  LET s1 == Exec(s, t) IN
    IF Coarse /\ s1.todo[t] # <<>> /\ Head(s1.todo[t])[1] # "lock" THEN Run(s1, t) ELSE s1

Enabled(t) == /\ todo[t] # <<>> /\ (Head(todo[t])[1] = "ucall" => ready)
              /\ (Head(todo[t])[1] \in {"lock", "lock2"} => lk = NoOne)     \* (a plain Lock: not re-entrant)

\* the engine polls the tracked output (tracked once the call has returned it) after every step
Apply(t) ==
  LET r == Run(Pack, t)
      report == r.ready /\ r.ost # seen
  IN
    /\ todo' = r.todo /\ fs' = r.fs /\ done' = r.done /\ ist' = r.ist /\ already' = r.already /\ okv' = r.okv
    /\ chain' = r.chain /\ cb' = r.cb /\ ost' = r.ost /\ oa' = r.oa /\ ob' = r.ob /\ ures' = r.ures
    /\ ready' = r.ready /\ lk' = r.lk /\ ocbreg' = r.ocbreg
    /\ seen' = IF report THEN r.ost ELSE seen
    /\ Emit(IF report THEN Append(r.evs, ESA("Observed", "client", 0, 0, r.ost, r.oa, r.ob)) ELSE r.evs)
    /\ actor' = t
    /\ UNCHANGED <<cfg, ended>>

\* named by what the step starts with
StepLock(t)   == Enabled(t) /\ Head(todo[t])[1] = "lock" /\ Apply(t)              \* with self.lock: ...
StepClient(t) == Enabled(t) /\ Head(todo[t])[1] \in {"icall", "ucall", "ccall"} /\ Apply(t)
StepOther(t)  == Enabled(t) /\ Head(todo[t])[1] \notin {"lock", "icall", "ucall", "ccall"} /\ Apply(t)

\* a thread waiting for the lock when nobody can run any more waits for ever (the engine reports it at the end)
Stuck(t) == todo[t] # <<>> /\ Head(todo[t])[1] \in {"lock", "lock2"} /\ lk # NoOne
End ==
  /\ ~ended /\ (\A t \in Threads : todo[t] = <<>> \/ (t = CAN /\ ~ready) \/ Stuck(t)) /\ (ready => seen = ost)
  /\ \A t \in Threads : ~Enabled(t)
  /\ ended' = TRUE
  /\ LET st == AscSeq({i \in InputIds : Stuck(Comp(i))}) IN
       Emit([k \in DOMAIN st |-> Ev("BlockedAtEnd", "-", "comp", 0, st[k], -1, -1, -1, -1, "acquire", <<>>)]
            \o (IF Stuck(MAIN) \/ Stuck(CAN) THEN <<Ev("BlockedAtEnd", "-", "main", 0, -1, -1, -1, -1, -1, "acquire", <<>>)>> ELSE <<>>)
            \o <<E0("End", "main", 0)>>)
  /\ actor' = OBS
  /\ UNCHANGED <<cfg, impl, seen>>

Next == (\E t \in Threads : StepLock(t) \/ StepClient(t) \/ StepOther(t)) \/ End

Spec == Init /\ [][Next]_vars

\* ------------------------------------------------------------------ properties
ContractHolds == viol = "ok"
ContractHoldsButN1 == viol \in {"ok", "C14_CallReturnsOutput"}
TypeOK == /\ ost \in {"PENDING", "FINISHED", "CANCELLED"} /\ fs \subseteq Used
          /\ (done => ost # "PENDING" \/ \E t \in Threads : todo[t] # <<>>)
View == <<cfg, impl, seen, ended, RankView(obs), viol>>
=============================================================================
