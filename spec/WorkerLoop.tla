---------------------------- MODULE WorkerLoop ----------------------------
(* The skeleton shared by the four worker loops of the library (retry submit thread, poll thread, throttle
   hand-over thread, timeout thread):

       while True:
           executor = executor_ref()              # weak reference, re-dereferenced every iteration
           if not executor: break
           if executor._shutdown.is_shutdown or is_shutdown(): break     # unlocked reads
           ... work on executor ...
           event = executor.<event>; del executor # drop the strong reference before sleeping
           event.wait(timeout or None); event.clear()

   together with what the producers do: submit() adds work and sets the event; shutdown() flips the flag, sets
   the event, shuts the delegate down and (wait=True) joins the thread; dropping the last reference to the
   executor runs the weakref callback `event.set()` in the dropping thread; the interpreter-exit hook sets the
   global flag and then every event.  A pending future holds a strong reference to its executor until it is
   done.

   TLC checks, for EVERY placement of drop / shutdown / exit relative to the loop's
   deref -> work -> del -> wait -> clear sequence (C11, C12):
     * the thread exits (no state in which it is blocked for good although it should be gone),
     * shutdown(wait=True) returns,
     * a future that is pending when the user drops the executor is still completed.
   Timer = 0 models a loop that sleeps without timeout when it has nothing to do (retry, timeout);
   Timer > 0 a loop with a periodic wake-up (poll interval, throttle re-check).
*)
EXTENDS ShutdownObs

CONSTANTS Timer, NWork, Actions, Horizon, Bug

NoOne == <<"none", 0>>
LOOP == <<"loop", 0>>
USER == <<"user", 0>>
OBS  == <<"obs", 0>>

VARIABLES pc, upc, userRef, loopRef, pending, todo, flag, exiting, evt, woken, wdl, plan, now, joined, leak, stuck,
          obs, viol, actor
vars == <<pc, upc, userRef, loopRef, pending, todo, flag, exiting, evt, woken, wdl, plan, now, joined, leak, stuck, obs, viol,
          actor>>

RECURSIVE Feed(_, _, _)
Feed(o, v, evs) ==
  IF evs = <<>> THEN <<o, v>>
  ELSE LET e == Head(evs)
           ff == FirstFailed(Clauses(o, e))
       IN Feed(ObsNext(o, e), IF v = "ok" THEN ff ELSE v, Tail(evs))
Emit(evs) == LET r == Feed(obs, viol, evs) IN obs' = r[1] /\ viol' = r[2]
NoEmit == UNCHANGED <<obs, viol>>

\* the user's program: a sequence over {"submit", "drop", "shutdown_wait", "shutdown_nowait", "exit"}
Plans == {p \in UNION {[1..n -> Actions] : n \in 1..3} :
            \A i \in DOMAIN p : (p[i] \in {"submit", "submit_stuck"} => \A k \in 1..(i - 1) : p[k] \notin {"drop", "shutdown_wait", "shutdown_nowait"})}

Init ==
  /\ plan \in Plans
  /\ pc = "l_top" /\ upc = 1 /\ userRef = TRUE /\ loopRef = FALSE /\ pending = 0 /\ todo = 0
  /\ flag = FALSE /\ exiting = FALSE /\ evt = FALSE /\ woken = FALSE /\ wdl = -1 /\ now = 0 /\ joined = FALSE
  /\ leak = FALSE /\ stuck = 0
  /\ obs = ObsNext(ObsInit, Ev("ThreadStart", "-", "retry", 0, -1, -1, -1, -1, -1, "loop", <<>>))
  /\ viol = "ok" /\ actor = NoOne

\* `leak`: a FINISHED future, kept by the user, still reaches the executor through the library's own references
\* (seeded model bug "done_future_keeps_executor"; defect D17 was an instance: a future cancelled between retries kept
\* the delegate future of its previous attempt, whose callbacks reference the executor).  It keeps the object alive
\* - so the weakref callback does not fire - although nobody may legitimately still need the executor.
\* `stuck`: accepted work the loop can never finish by itself (a polled future the poll function does not resolve, a
\* retry waiting for a distant back-off): it references the executor like any pending future, and shutdown() must
\* get the thread out all the same.
Legit == userRef \/ loopRef \/ pending > 0 \/ stuck > 0
Alive == Legit \/ leak
SetEvent == evt' = TRUE /\ woken' = (woken \/ pc = "l_blocked")
\* dropping a strong reference: if it was the last one the weakref callback sets the event, in the same thread
AfterDrop(u, l, p) == IF ~(u \/ l \/ p > 0 \/ leak \/ stuck > 0) /\ Bug # "no_weakref_callback" THEN SetEvent ELSE UNCHANGED <<evt, woken>>

\* ------------------------------------------------------------------ the loop
LDeref ==      \* executor = executor_ref(); flag checks; the work of this iteration
  /\ pc = "l_top"
  /\ IF ~Alive
       THEN /\ pc' = "exited" /\ UNCHANGED <<loopRef, pending, todo, evt, woken>>
            /\ Emit(<<Ev("ThreadExit", "-", "retry", now, -1, -1, 0, -1, -1, "loop", <<>>)>>)
       ELSE IF (IF Bug = "exit_only_when_idle" THEN (flag /\ stuck = 0) \/ exiting ELSE flag \/ exiting)
         THEN \* break: the local strong reference dies with the frame
              /\ pc' = "exited" /\ loopRef' = FALSE /\ UNCHANGED <<pending, todo>>
              /\ AfterDrop(userRef, FALSE, pending)
              /\ Emit(<<Ev("ThreadExit", "-", "retry", now, -1, -1, 0, -1, -1, "loop", <<>>)>>)
         ELSE /\ loopRef' = TRUE /\ pc' = "l_work" /\ UNCHANGED <<pending, todo, evt, woken>> /\ NoEmit
  /\ actor' = LOOP
  /\ UNCHANGED <<upc, userRef, flag, exiting, wdl, plan, now, joined, leak, stuck>>

LWork ==       \* handle everything that is queued (resolves the pending futures), then `del executor`
  /\ pc = "l_work"
  /\ pending' = pending - todo /\ todo' = 0
  /\ leak' = (leak \/ (Bug = "done_future_keeps_executor" /\ todo > 0))
  /\ loopRef' = FALSE
  /\ pc' = "l_wait"
  \* seeded model bug: the event is cleared here, before the wait, instead of after the wake-up: a set() that
  \* arrived since the flags were read at the top of the iteration is lost
  /\ IF Bug = "clear_before_wait" THEN evt' = FALSE /\ UNCHANGED woken ELSE AfterDrop(userRef, FALSE, pending - todo)
  /\ actor' = LOOP /\ NoEmit
  /\ UNCHANGED <<upc, userRef, flag, exiting, wdl, plan, now, joined, stuck>>

LEnter ==
  /\ pc = "l_wait"
  /\ IF evt THEN /\ pc' = "l_clear" /\ UNCHANGED wdl
            ELSE /\ pc' = "l_blocked" /\ wdl' = IF Timer > 0 THEN now + Timer + 1 ELSE -1
  /\ actor' = LOOP /\ NoEmit
  /\ UNCHANGED <<upc, userRef, loopRef, pending, todo, flag, exiting, evt, woken, plan, now, joined, leak, stuck, obs, viol>>

LWake ==
  /\ pc = "l_blocked" /\ (woken \/ (wdl >= 0 /\ now >= wdl))
  /\ woken' = FALSE /\ pc' = "l_clear"
  /\ actor' = LOOP /\ NoEmit
  /\ UNCHANGED <<upc, userRef, loopRef, pending, todo, flag, exiting, evt, wdl, plan, now, joined, leak, stuck>>

LClear ==
  /\ pc = "l_clear"
  /\ evt' = IF Bug = "clear_before_wait" THEN evt ELSE FALSE
  /\ pc' = "l_top"
  /\ actor' = LOOP /\ NoEmit
  /\ UNCHANGED <<upc, userRef, loopRef, pending, todo, flag, exiting, woken, wdl, plan, now, joined, leak, stuck>>

\* ------------------------------------------------------------------ the user's operations (each in visible steps)
Cur == IF upc <= Len(plan) THEN plan[upc] ELSE "none"
USubmit ==     \* submit(): queue work (the future references the executor), then event.set()
  /\ Cur = "submit" /\ userRef /\ ~flag
  /\ pending' = pending + 1 /\ todo' = todo + 1
  /\ SetEvent /\ upc' = upc + 1
  /\ actor' = USER /\ NoEmit
  /\ UNCHANGED <<pc, userRef, loopRef, flag, exiting, wdl, plan, now, joined, leak, stuck>>

USubmitStuck ==   \* submit() of work that stays unfinished for ever
  /\ Cur = "submit_stuck" /\ userRef /\ ~flag
  /\ stuck' = stuck + 1
  /\ SetEvent /\ upc' = upc + 1
  /\ actor' = USER /\ NoEmit
  /\ UNCHANGED <<pc, userRef, loopRef, pending, todo, flag, exiting, wdl, plan, now, joined, leak>>

UDrop ==       \* the last user reference goes away
  /\ Cur = "drop" /\ userRef
  /\ userRef' = FALSE /\ upc' = upc + 1
  /\ AfterDrop(FALSE, loopRef, pending)
  /\ actor' = USER /\ NoEmit
  /\ UNCHANGED <<pc, loopRef, pending, todo, flag, exiting, wdl, plan, now, joined, leak, stuck>>

UShutFlag ==   \* shutdown(): flip the flag (under the gate) ...
  /\ Cur \in {"shutdown_wait", "shutdown_nowait"} /\ ~flag
  /\ flag' = TRUE
  /\ Emit(<<Ev("ShutdownCall", "-", "shutdown", now, -1, -1, IF Cur = "shutdown_wait" THEN 1 ELSE 0, 0, 0, "top", <<>>)>>)
  /\ actor' = USER
  /\ UNCHANGED <<pc, upc, userRef, loopRef, pending, todo, exiting, evt, woken, wdl, plan, now, joined, leak, stuck>>

UShutSet ==    \* ... then event.set() and delegate.shutdown(); without wait shutdown() returns here
  /\ Cur \in {"shutdown_wait", "shutdown_nowait"} /\ flag /\ ~joined
  /\ IF Bug = "no_set_on_shutdown" THEN UNCHANGED <<evt, woken>> ELSE SetEvent
  /\ joined' = TRUE
  /\ IF Cur = "shutdown_nowait"
       THEN /\ upc' = upc + 1 /\ Emit(<<ES("ShutdownRet", "shutdown", now, -1, "top")>>)
       ELSE /\ UNCHANGED upc /\ NoEmit
  /\ actor' = USER
  /\ UNCHANGED <<pc, userRef, loopRef, pending, todo, flag, exiting, wdl, plan, now, leak, stuck>>

UJoin ==       \* wait=True: thread.join() returns once the loop has exited
  /\ Cur = "shutdown_wait" /\ joined /\ pc = "exited"
  /\ upc' = upc + 1
  /\ Emit(<<ES("ShutdownRet", "shutdown", now, -1, "top")>>)
  /\ actor' = USER
  /\ UNCHANGED <<pc, userRef, loopRef, pending, todo, flag, exiting, evt, woken, wdl, plan, now, joined, leak, stuck>>

UExit ==       \* interpreter exit hook: global flag, then every event
  /\ Cur = "exit"
  /\ exiting' = TRUE /\ SetEvent /\ upc' = upc + 1
  /\ actor' = USER /\ NoEmit
  /\ UNCHANGED <<pc, userRef, loopRef, pending, todo, flag, wdl, plan, now, joined, leak, stuck>>

UserDone == upc > Len(plan)
AnyEnabled ==
  \/ pc \in {"l_top", "l_work", "l_wait", "l_clear"} \/ (pc = "l_blocked" /\ (woken \/ (wdl >= 0 /\ now >= wdl)))
  \/ (Cur \in {"submit", "submit_stuck"} /\ userRef /\ ~flag) \/ (Cur = "drop" /\ userRef)
  \/ (Cur \in {"shutdown_wait", "shutdown_nowait"} /\ (~flag \/ ~joined)) \/ (Cur = "shutdown_wait" /\ joined /\ pc = "exited")
  \/ Cur = "exit"

Tick ==
  /\ ~AnyEnabled /\ pc = "l_blocked" /\ wdl >= 0 /\ wdl <= Horizon
  /\ now' = wdl /\ actor' = <<"tick", 0>>
  /\ UNCHANGED <<pc, upc, userRef, loopRef, pending, todo, flag, exiting, evt, woken, wdl, plan, joined, leak, stuck, obs, viol>>

Next == LDeref \/ LWork \/ LEnter \/ LWake \/ LClear \/ USubmit \/ USubmitStuck \/ UDrop \/ UShutFlag \/ UShutSet \/ UJoin \/ UExit \/ Tick
Spec == Init /\ [][Next]_vars

\* ------------------------------------------------------------------ properties (all safety; time is virtual)
ShouldBeGone == flag \/ exiting \/ ~Legit
\* the thread is blocked for good although it should be gone (with a periodic timer it leaves at the next wake-up)
ThreadExits == ~(pc = "l_blocked" /\ ~woken /\ wdl = -1 /\ ShouldBeGone /\ ~AnyEnabled)
\* shutdown(wait=True) is not stuck in join()
ShutdownReturnsInv == ~(Cur = "shutdown_wait" /\ joined /\ pc # "exited" /\ ~AnyEnabled /\ ~(pc = "l_blocked" /\ wdl >= 0))
\* queued work of a dropped (not shut down) executor is not abandoned
PendingStillCompletes == ~(pending > 0 /\ ~flag /\ ~exiting /\ ~AnyEnabled /\ pc \in {"exited", "l_blocked"} /\ wdl = -1)
\* the executor is not kept alive by the loop while it sleeps
NoRefWhileSleeping == pc \in {"l_blocked", "l_wait", "l_clear"} => ~loopRef
\* with a periodic wake-up the thread is gone one period after it was told to go (every user action happens at time 0)
GoneAfterOnePeriod == (Timer > 0 /\ (flag \/ exiting) /\ now > Timer + 2) => pc = "exited"
ContractHolds == viol = "ok"
StopAtHorizon == now <= Horizon
=============================================================================
