---------------------------- MODULE MapLawsObs ----------------------------
(* Contract of C13: "map / flat_map laws: fn on success, error_fn on failure, exceptions preserved"
   (MapExecutor, FlatMapExecutor, f_map, f_flat_map), over API-observable events only.

   THE LAW TABLE LIVES HERE (StageEval / ChainEval): the expected outcome of a chain of map / flat_map
   stages is computed in TLA+ from the case description, and TLC compares it with what a real
   execution (or the model MapFuture.tla) produced.

   A case:   input outcome (value V0 / exception EORIG), and a chain of 1..3 stages, each
             [flat, fb, eb]  with fb / eb the *behaviour* of the stage's fn / error_fn (codes below).
   Terms:    outcomes are sequences of small integers in prefix notation.  Every user function is an
             injective tagger (fn of stage i returns <<TagFn(i)>> \o argument), every exception object has
             its own id, so a swapped, dropped, duplicated or copied value / exception cannot produce the
             expected term.  The harness computes the observed term from the real result object by
             structural inspection (tags) and object identity (`is`) - see mxv/scen/maplaws.py.

   Events (fixed record, see ObsKit):
     Cfg(a = input outcome 0 value / 1 exception, b = timing, c = form, k = chain length n,
         xs = <<flat_1, fb_1, eb_1, ..., flat_n, fb_n, eb_n>>)
     FnCall(f = run, k = stage, a = 0 fn / 1 error_fn, xs = term of the argument it received)
     CancelCall(f = run) / CancelRet(f = run, a = 1 iff cancel() returned True)   cancel of the chain's output
     Result(f = run, s = final state of the output future, a = 0 value / 1 exception,
            xs = term of the value / <<id of the exception>>,
            b = 1 iff the frame that originally raised the exception is still in its __traceback__)
     End
   run 0 is the chain itself; run 1 (optional) is the same case executed as ONE stage whose function is
   the composition of the chain's functions (C13_Compose).

   Deliberately weak points (a clause never demands more than the statement):
     * after a successful cancel() of the output nothing is demanded of the outcome except that a
       FINISHED outcome is still the lawful one;
     * a future returned to flat_map that is already cancelled: only "no value is invented" is demanded
       (the library leaves the output pending - a C03 matter, not C13);
     * call counts are upper bounds ("at most once, only for their own case"); that the function is
       called at all follows from the outcome term.
*)
EXTENDS ObsKit

\* ------------------------------------------------------------------ vocabulary
ABSENT  == 0     \* function omitted
RET     == 1     \* map: returns tag(arg)
RAISE   == 2     \* raises a new exception
FUT_V   == 3     \* flat: returns a future already resolved with tag(arg)
FUT_E   == 4     \* flat: returns a future already failed with its own exception
FUT_PV  == 5     \* flat: returns a pending future, resolved later by another thread with tag(arg)
FUT_PE  == 6     \* flat: ... failed later by another thread
FUT_C   == 7     \* flat: returns a cancelled future
NONFUT  == 8     \* flat: returns something that is not a future
RERAISE == 9     \* error_fn only: re-raises the exception it was given

V0      == 1
EORIG   == 100
TYPEERR == 199
TagFn(i)    == 10 + i       \* value returned by fn of stage i
TagEfn(i)   == 20 + i       \* value returned by error_fn of stage i
TagInFn(i)  == 30 + i       \* value of the future returned by (flat) fn of stage i
TagInEfn(i) == 40 + i       \* value of the future returned by (flat) error_fn of stage i
ExcFn(i)    == 110 + i      \* exception raised by fn of stage i
ExcEfn(i)   == 120 + i      \* exception raised by error_fn of stage i
ExcInFn(i)  == 130 + i      \* exception of the future returned by fn of stage i
ExcInEfn(i) == 140 + i      \* exception of the future returned by error_fn of stage i

MapFnB   == {ABSENT, RET, RAISE}
MapEfnB  == {ABSENT, RET, RAISE, RERAISE}
FlatFnB  == {ABSENT, RAISE, FUT_V, FUT_E, FUT_PV, FUT_PE, FUT_C, NONFUT}
FlatEfnB == {ABSENT, RAISE, RERAISE, FUT_V, FUT_E, FUT_PV, FUT_PE, FUT_C, NONFUT}
WellFormed(sg) == IF sg.flat THEN sg.fb \in FlatFnB /\ sg.eb \in FlatEfnB
                             ELSE sg.fb \in MapFnB /\ sg.eb \in MapEfnB

\* outcome: kind "V" value / "E" exception / "C" the stage's future is cancelled (never finishes);
\* tb: the frames the exception object had when it was raised must still be in its traceback when it comes out
\* (every exception the driver makes is raised in a known frame first; "the original exception object unchanged",
\* "re-raising the same exception keeps it and its traceback"; the library's own TypeError is only judged once an
\* error_fn has re-raised it)
Out(kind, term, tb) == [kind |-> kind, term |-> term, tb |-> tb]
InputOut(a) == IF a = 0 THEN Out("V", <<V0>>, FALSE) ELSE Out("E", <<EORIG>>, TRUE)

\* ------------------------------------------------------------------ the law table
\* one stage: expected outcome, whether fn / error_fn is entitled to a call, and the argument it must get
StageEval(i, sg, o) ==
  IF o.kind = "C" THEN [out |-> o, fn |-> 0, efn |-> 0, arg |-> <<>>]
  ELSE IF o.kind = "V" THEN
    LET b == sg.fb
        t == o.term
    IN [out |-> CASE b = ABSENT -> Out("V", t, FALSE)                             \* identity
                  [] b = RET /\ ~sg.flat -> Out("V", <<TagFn(i)>> \o t, FALSE)     \* fn(result)
                  [] b = RAISE -> Out("E", <<ExcFn(i)>>, TRUE)                     \* exception raised by fn
                  [] b \in {FUT_V, FUT_PV} /\ sg.flat -> Out("V", <<TagInFn(i)>> \o t, FALSE)
                  [] b \in {FUT_E, FUT_PE} /\ sg.flat -> Out("E", <<ExcInFn(i)>>, TRUE)
                  [] b = FUT_C /\ sg.flat -> Out("C", <<>>, FALSE)
                  [] b = NONFUT /\ sg.flat -> Out("E", <<TYPEERR>>, FALSE)
                  [] OTHER -> Out("X", <<>>, FALSE),
        fn |-> IF b = ABSENT THEN 0 ELSE 1, efn |-> 0, arg |-> t]
  ELSE
    LET b == sg.eb
        x == o.term
    IN [out |-> CASE b = ABSENT -> Out("E", x, o.tb)                              \* the same exception object
                  [] b = RERAISE -> Out("E", x, TRUE)                              \* ... and its traceback
                  [] b = RAISE -> Out("E", <<ExcEfn(i)>>, TRUE)
                  [] b = RET /\ ~sg.flat -> Out("V", <<TagEfn(i)>> \o x, FALSE)    \* error_fn(exception)
                  [] b \in {FUT_V, FUT_PV} /\ sg.flat -> Out("V", <<TagInEfn(i)>> \o x, FALSE)
                  [] b \in {FUT_E, FUT_PE} /\ sg.flat -> Out("E", <<ExcInEfn(i)>>, TRUE)
                  [] b = FUT_C /\ sg.flat -> Out("C", <<>>, FALSE)
                  [] b = NONFUT /\ sg.flat -> Out("E", <<TYPEERR>>, FALSE)
                  [] OTHER -> Out("X", <<>>, FALSE),
        fn |-> 0, efn |-> IF b = ABSENT THEN 0 ELSE 1, arg |-> x]

\* a chain: stage i+1 maps the output of stage i  ("mapping with g then h")
RECURSIVE ChainEval(_, _, _)
ChainEval(stages, i, o) ==
  IF i > Len(stages) THEN <<>>
  ELSE LET r == StageEval(i, stages[i], o) IN <<r>> \o ChainEval(stages, i + 1, r.out)

StagesOf(e) == [i \in 1..e.k |-> [flat |-> e.xs[3 * i - 2] = 1, fb |-> e.xs[3 * i - 1], eb |-> e.xs[3 * i]]]

\* ------------------------------------------------------------------ observable state
ObsInit == [cfgd |-> FALSE,
            inp |-> 0,
            stages |-> <<>>,
            ev |-> <<>>,            \* ChainEval of the case: per stage [out, fn, efn, arg]
            calls |-> EmptyMap,     \* <<run, stage, which>> -> number of calls seen
            res |-> EmptyMap,       \* run -> <<finished, a, xs>>
            cancelled |-> {}]       \* runs whose output was cancelled successfully

Exp(st) == st.ev[Len(st.ev)].out
ResOf(e) == IF e.s = "FINISHED" THEN <<TRUE, e.a, e.xs>> ELSE <<FALSE, -1, <<>> >>

ObsNext(st, e) ==
  CASE e.ev = "Cfg" ->
         LET sgs == StagesOf(e) IN
         [st EXCEPT !.cfgd = TRUE, !.inp = e.a, !.stages = sgs, !.ev = ChainEval(sgs, 1, InputOut(e.a))]
    [] e.ev = "FnCall" -> [st EXCEPT !.calls = Put(@, <<e.f, e.k, e.a>>, Get(@, <<e.f, e.k, e.a>>, 0) + 1)]
    [] e.ev = "CancelRet" /\ e.a = 1 -> [st EXCEPT !.cancelled = @ \cup {e.f}]
    [] e.ev = "Result" -> [st EXCEPT !.res = Put(@, e.f, ResOf(e))]
    [] OTHER -> st

OwnCase(st, e) == e.k \in 1..Len(st.ev) /\ e.a \in {0, 1}
                    /\ (IF e.a = 0 THEN st.ev[e.k].fn ELSE st.ev[e.k].efn) = 1
IsResult(st, e) == e.ev = "Result" /\ st.cfgd /\ e.f = 0      \* run 1 is judged by C13_Compose (and the call clauses)
IsFinished(st, e) == IsResult(st, e) /\ e.s = "FINISHED"

Clauses(st, e) ==
  << <<"C13_AtMostOnceOwnCase",      \* fn / error_fn: only for their own case, and then at most once
        (e.ev = "FnCall" /\ st.cfgd) =>
            (OwnCase(st, e) /\ Get(st.calls, <<e.f, e.k, e.a>>, 0) = 0)>>,
     <<"C13_FnArg",                  \* fn gets the result, error_fn gets the exception (the very object)
        (e.ev = "FnCall" /\ st.cfgd /\ OwnCase(st, e)) => e.xs = st.ev[e.k].arg>>,
     <<"C13_Law",                    \* the outcome is the one the law table gives
        IsResult(st, e) =>
            LET x == Exp(st) IN
            IF e.s = "FINISHED"
              THEN /\ x.kind \in {"V", "E", "C"}
                   /\ x.kind = "V" => (e.a = 0 /\ e.xs = x.term)
                   /\ x.kind = "E" => e.a = 1
                   /\ x.kind = "C" => e.a # 0
              ELSE x.kind = "C" \/ e.f \in st.cancelled>>,
     <<"C13_TypeError",              \* a non-future returned to flat_map yields TypeError
        (IsFinished(st, e) /\ Exp(st).kind = "E" /\ Exp(st).term = <<TYPEERR>>) =>
            (e.a = 1 /\ e.xs = <<TYPEERR>>)>>,
     <<"C13_ExceptionIdentity",      \* the propagated exception is the very object (original / raised)
        (IsFinished(st, e) /\ Exp(st).kind = "E" /\ Exp(st).term # <<TYPEERR>> /\ e.a = 1) =>
            e.xs = Exp(st).term>>,
     <<"C13_TracebackKept",          \* re-raising the same exception keeps its traceback
        (IsFinished(st, e) /\ Exp(st).kind = "E" /\ Exp(st).tb /\ e.a = 1 /\ e.xs = Exp(st).term) =>
            e.b = 1>>,
     <<"C13_CallReturnsFuture",      \* f_map / f_flat_map / submit hand a future back whatever the input's outcome is
        e.ev = "CallRaise" => FALSE>>,
     <<"C13_Compose",                \* mapping with g then h equals mapping with h after g
        (e.ev = "Result" /\ st.cfgd /\ e.f = 1 /\ Has(st.res, 0) /\ st.cancelled = {}) =>
            ((st.res[0][1] \/ e.s = "FINISHED") => (st.res[0] = ResOf(e)))>> >>
=============================================================================
