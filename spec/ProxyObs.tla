---------------------------- MODULE ProxyObs ----------------------------
(* Contract of C17: "f_proxy is transparent for forwarded operations; f_nocancel shields cancel",
   over API-observable events only.  One trace may hold several independent *cases* (f = case id):
   each case has its own input future f, its own wrapper (f_proxy(f, timeout=..) or f_nocancel(f)).

   Events (fixed record, see ObsKit; f = case id everywhere):
     Cfg(f, a, b, c)          a = state of the input future f (6 = pending, then cancelled by its owner):
                                    1 resolved, 2 failed, 3 pending - resolved later by another thread,
                                    4 pending for ever, 5 pending - failed later by another thread
                              b = timeout given to f_proxy in ticks, -1 = none given
                              c = wrapper kind: 1 f_proxy, 2 f_nocancel, 3 f_nocancel(f_proxy(f)) - judged as 2 -,
                                  4 f_proxy(f_proxy(f), timeout) - judged as 1
     WrapRaise(f, s)          building the wrapper raised
     OpCall(f, k, c, s)       a client is about to apply operation instance k (s = name) to the wrapper;
                              c = class: 1 forwarded operator / method / attribute,
                                         2 not forwarded (bool, repr, str, ==, !=, hash, unknown __dunder__ lookup)
     OpRet(f, k, a, b, c)     ... it came back: a = 1 returned / 2 raised;
                              b = comparison computed by the harness against the same operation applied to a
                                  plain copy of the value f resolves with:
                                    1 same value (and same state of the value afterwards),
                                    2 same exception type, 3 raised f's own exception object,
                                    4 raised TimeoutError, 0 anything else (-1: class 2, nothing to compare)
                              c = 1 iff the input future was done when the call returned
     InputSet(f, a)           the owner of f is about to resolve it (a = 0 value / 1 exception)
     DelegateState(f, s,a,b)  the input future was seen in a new state (a, b = outcome ids)
     Observed(f, s, a, b)     the wrapper was seen in a new state
     CancelCall(f) / CancelRet(f, a) / CancelRaise(f)    a client calls cancel() on the wrapper
     CancelArrived(f, s = "input")                       cancel() was called on the input future
     End
   "The owner resolved f" (Resolved) = f was created resolved/failed (state 1, 2) or InputSet was seen.
   SLACK: a timed wait of T ticks returns at call + T + 1 in virtual time (timers fire one tick late).

   The honest limit (DESIGN.md section 7): "the same value for all operand values" is Python operator
   semantics; the codes b are computed by the harness (differential evaluation over a seeded operand pool)
   and this module asserts them.  The blocking / timeout / shield behaviour is judged here from the events.
*)
EXTENDS ObsKit

SLACK == 2

ObsInit == [cfg |-> EmptyMap,     \* f -> <<state, timeout, kind>>
            open |-> EmptyMap,    \* <<f, k>> -> <<class, time of OpCall>>
            inset |-> EmptyMap,   \* f -> time of the (first) InputSet
            fout |-> EmptyMap,    \* f -> <<a, b>> outcome of the input future
            wout |-> EmptyMap]    \* f -> <<a, b>> outcome of the wrapper

FState(st, f) == st.cfg[f][1]
Tmo(st, f)    == st.cfg[f][2]
Kind(st, f)   == st.cfg[f][3]
Resolved(st, f) == Has(st.cfg, f) /\ (FState(st, f) \in {1, 2} \/ Has(st.inset, f))
Key(e) == <<e.f, e.k>>
Drop(m, key) == [x \in DOMAIN m \ {key} |-> m[x]]

IsRet(st, e)    == e.ev = "OpRet" /\ Has(st.cfg, e.f) /\ Has(st.open, Key(e))
IsFwdRet(st, e) == IsRet(st, e) /\ st.open[Key(e)][1] = 1
IsNonRet(st, e) == IsRet(st, e) /\ st.open[Key(e)][1] = 2
NoCancelCase(st, f) == Has(st.cfg, f) /\ Kind(st, f) \in {2, 3}
\* state 6: f is pending and its OWNER cancels it after D ticks (the wrapper then mirrors the cancellation, and
\* f_nocancel(f).cancel() must STILL answer False)
OwnerCancels(st, f) == Has(st.cfg, f) /\ FState(st, f) = 6

ObsNext(st, e) ==
  CASE e.ev = "Cfg" -> [st EXCEPT !.cfg = Put(@, e.f, <<e.a, e.b, e.c>>)]
    [] e.ev = "OpCall" -> [st EXCEPT !.open = Put(@, Key(e), <<e.c, e.t>>)]
    [] e.ev = "OpRet" -> [st EXCEPT !.open = Drop(@, Key(e))]
    [] e.ev = "InputSet" /\ ~Has(st.inset, e.f) -> [st EXCEPT !.inset = Put(@, e.f, e.t)]
    [] e.ev = "DelegateState" /\ e.s = "FINISHED" -> [st EXCEPT !.fout = Put(@, e.f, <<e.a, e.b>>)]
    [] e.ev = "Observed" /\ e.s = "FINISHED" -> [st EXCEPT !.wout = Put(@, e.f, <<e.a, e.b>>)]
    [] OTHER -> st

Clauses(st, e) ==
  << \* the wrappers are total: f_proxy / f_nocancel of a future in any state (another wrapper included) return a future
     <<"C17_WrapReturns", e.ev = "WrapRaise" => FALSE>>,
     \* "applying it to f_proxy(f) gives what applying it to f.result() gives - the same value or the same
     \*  exception type" (f resolves with a value: states 1, 3; a legitimate TimeoutError is judged below)
     <<"C17_ForwardedTransparent",
        (IsFwdRet(st, e) /\ FState(st, e.f) \in {1, 3} /\ e.b # 4) =>
            ((e.a = 1 /\ e.b = 1) \/ (e.a = 2 /\ e.b = 2))>>,
     \* "and raises f's exception if f failed"
     <<"C17_FailedRaisesOwn",
        (IsFwdRet(st, e) /\ FState(st, e.f) \in {2, 5} /\ e.b # 4) => (e.a = 2 /\ e.b = 3)>>,
     \* "honouring the configured timeout": a TimeoutError only with a configured timeout T, only at
     \* call + T (never early, at most SLACK late), and only if the owner had not resolved f before that;
     \* a forwarded operation on a future that stays pending for ever raises nothing else
     <<"C17_TimeoutHonoured",
        /\ (IsFwdRet(st, e) /\ e.b = 4) =>
              LET t0 == st.open[Key(e)][2]  T == Tmo(st, e.f) IN
                /\ e.a = 2 /\ T >= 0
                /\ e.t >= t0 + T /\ e.t <= t0 + T + SLACK
                /\ FState(st, e.f) \notin {1, 2}
                /\ (Has(st.inset, e.f) => st.inset[e.f] >= t0 + T)
        /\ (IsFwdRet(st, e) /\ FState(st, e.f) = 4) => e.b = 4
        \* ... and no later: an open forwarded call with timeout T has returned by call + T + SLACK
        /\ \A key \in DOMAIN st.open :
              (st.open[key][1] = 1 /\ Has(st.cfg, key[1]) /\ Tmo(st, key[1]) >= 0) =>
                  e.t <= st.open[key][2] + Tmo(st, key[1]) + SLACK>>,
     \* "truth-testing, repr/str, equality, hashing and unknown double-underscore lookups never block on ..."
     <<"C17_NonForwardedNeverBlocks",
        /\ IsNonRet(st, e) => (e.t = st.open[Key(e)][2] /\ (e.c = 1 => Resolved(st, e.f)))
        /\ \A key \in DOMAIN st.open : st.open[key][1] = 2 => e.t <= st.open[key][2]
        /\ e.ev = "End" => \A key \in DOMAIN st.open : st.open[key][1] # 2>>,
     \* "... or resolve the future": neither the input nor the wrapper becomes terminal unless f's owner
     \* resolved f
     <<"C17_NeverResolves",
        ((e.ev = "Observed" \/ e.ev = "DelegateState") /\ e.s \in Terminal /\ Has(st.cfg, e.f)) =>
            Resolved(st, e.f)>>,
     \* "f_nocancel(f).cancel() always returns False"
     <<"C17_NoCancelFalse",
        /\ (e.ev = "CancelRet" /\ NoCancelCase(st, e.f)) => e.a = 0
        /\ (e.ev = "CancelRaise" /\ NoCancelCase(st, e.f)) => FALSE>>,
     \* "and never cancels f"
     <<"C17_NoCancelShield",
        /\ (e.ev = "CancelArrived" /\ e.s = "input" /\ NoCancelCase(st, e.f)) => FALSE
        /\ (e.ev = "DelegateState" /\ e.s \in CancelledStates /\ NoCancelCase(st, e.f)) =>
              (OwnerCancels(st, e.f) /\ Has(st.inset, e.f))>>,
     \* "while the wrapper still mirrors f's outcome"
     <<"C17_NoCancelMirrors",
        /\ (e.ev = "Observed" /\ NoCancelCase(st, e.f)) =>
              /\ (e.s \in CancelledStates => (OwnerCancels(st, e.f) /\ Has(st.inset, e.f)))
              /\ e.s = "FINISHED" => (Has(st.fout, e.f) /\ st.fout[e.f] = <<e.a, e.b>>)
        /\ e.ev = "End" => \A f \in DOMAIN st.fout : NoCancelCase(st, f) => Has(st.wout, f)>> >>
=============================================================================
