---------------------------- MODULE DeadlockObs ----------------------------
(* Contract of C04: "No deadlock among API calls and internal threads, including nested submission".

   The conformance engine serialises the library's threads; at the end of an execution (all timers of the
   scenario have fired, the horizon is far beyond every configured delay) it reports every thread that is still
   blocked and on what kind of operation:
     BlockedAtEnd(thr, r = role, s = kind)   kind: acquire (a lock), join (a thread), cvwait (a condition: result(),
                                             wait(), a pool worker's idle queue wait), evwait (an event: the
                                             worker loops' idle wait), sleep
     Outcome(a)                              0 the scenario's main thread finished, 1 nothing could run any more
                                             while the main thread was still waiting, 2 horizon
   plus the client operations SubmitCall / SubmitRet / SubmitRaise (f >= 100: submissions issued from inside a
   running callable, map / poll function or done-callback of the same executor), ResultCall / ResultRet / ResultRaise,
   ShutdownCall / ShutdownRet, CancelCall / CancelRet, AddCbCall / AddCbRet.
*)
EXTENDS ObsKit

Clients == {"client", "canceller", "shutdown", "main"}

ObsInit == [subs |-> {}, results |-> {}, shut |-> 0, cans |-> {}, adds |-> {}, down |-> FALSE]

ObsNext(st, e) ==
  CASE e.ev = "SubmitCall" -> [st EXCEPT !.subs = @ \cup {e.f}]
    [] e.ev \in {"SubmitRet", "SubmitRaise"} -> [st EXCEPT !.subs = @ \ {e.f}]
    [] e.ev = "ResultCall" -> [st EXCEPT !.results = @ \cup {<<e.thr, e.f>>}]
    [] e.ev \in {"ResultRet", "ResultRaise"} -> [st EXCEPT !.results = @ \ {<<e.thr, e.f>>}]
    [] e.ev = "ShutdownCall" -> [st EXCEPT !.shut = @ + 1, !.down = TRUE]
    [] e.ev \in {"ShutdownRet", "ShutdownRaise"} -> [st EXCEPT !.shut = @ - 1]
    [] e.ev = "CancelCall" -> [st EXCEPT !.cans = @ \cup {<<e.thr, e.f>>}]
    [] e.ev \in {"CancelRet", "CancelRaise"} -> [st EXCEPT !.cans = @ \ {<<e.thr, e.f>>}]
    [] e.ev = "AddCbCall" -> [st EXCEPT !.adds = @ \cup {<<e.f, e.k>>}]
    [] e.ev \in {"AddCbRet", "AddCbRaise"} -> [st EXCEPT !.adds = @ \ {<<e.f, e.k>>}]
    [] OTHER -> st

Clauses(st, e) ==
  << <<"C04_NoDeadlock",                  \* nobody waits for a lock or a thread for ever
        e.ev = "BlockedAtEnd" => e.s \notin {"acquire", "join", "spin"}>>,
     <<"C04_NoClientBlockedForever",      \* nor does an API call of a client block on a condition for ever
        \* (result() on a future that a shutdown left unfinished is not a deadlock: C03 / C11 speak about that)
        (e.ev = "BlockedAtEnd" /\ e.r \in Clients /\ ~st.down) => e.s \notin {"cvwait", "evwait"}>>,
     <<"C04_MainNotStuck",
        e.ev = "Outcome" => e.a # 1>>,
     <<"C04_NestedSubmitReturns",
        e.ev = "End" => \A f \in st.subs : f < 100>>,
     <<"C04_EveryCallReturns",
        e.ev = "End" => (st.subs = {} /\ (st.down \/ st.results = {}) /\ st.shut = 0 /\ st.cans = {} /\ st.adds = {})>> >>
=============================================================================
