---------------------------- MODULE ThrottleObs ----------------------------
(* Contract of C07: "Throttle: never more than count in flight, FIFO hand-over, no idle capacity".

   Events (fixed record, see ObsKit):
     Cfg(a = static count | -1 for None | -2 for a count callable, b = 1 blocking mode)
     CountRet(a = value | -1 for None, r = role of the calling thread)   the count callable returned
     CountRaise(r)                                                        ... or raised
     CountChange(a)                      the harness' scripted count callable will answer a from now on
     SubmitCall(f) / SubmitRet(f) / SubmitRaise(f, s = exception class, a = 1 iff the shutdown message)
     DelegateSubmit(f, s = "tap")        callable f is handed to the delegate executor
     InvokeEnd(f)                        callable f finished running
     DelegateState(f, s = state)         the delegate's future for f was seen in a new state (done / cancelled)
     CancelCall(f) / CancelRet(f, a)     a client cancels the throttled future
     ShutdownCall                        (clauses about hand-over promptness stop applying)
     End

   "In flight" = handed to the delegate and neither finished (InvokeEnd) nor cancelled there; this is never
   larger than what the executor itself counts (it decrements only after the delegate future is done),
   so the clause is never stricter than the statement.  The limit in force for a hand-over is the
   static count, or for a count callable the value most recently returned to the hand-over thread
   (if that call raised: the last value returned to anybody), because the thread evaluates the
   count once per iteration and then hands over the batch it selected.
*)
EXTENDS ObsKit

Unlimited == 1000000
SLACK == 3            \* ticks: event hand-offs are instantaneous in virtual time; timers are 1 tick late
RECHECK == 30000      \* the executor's periodic re-check of a dynamic count (30 s; 2 s when idle)

ObsInit == [count |-> Unlimited, dynamic |-> FALSE, block |-> FALSE, cfgd |-> FALSE,
            lastgood |-> Unlimited, loopval |-> Unlimited, cur |-> Unlimited,
            pred |-> EmptyMap,      \* f -> futures whose submit() had returned before f's submit() began
            calling |-> EmptyMap,   \* f -> time of SubmitCall, while submit() has not returned
            room |-> EmptyMap,      \* f (blocked in submit) -> time since when the queue has had room, or -1
            queued |-> {},          \* accepted (SubmitRet), not yet handed over, not cancelled
            handed |-> {}, fin |-> {}, cancelled |-> {}, cancelling |-> {},
            idle |-> -1,            \* time since when (queued # {} and in flight < limit) has held, or -1
            down |-> FALSE]

Limit(st) == IF st.dynamic THEN st.loopval ELSE st.count
InFlight(st) == Cardinality(st.handed \ st.fin)
ValOf(a) == IF a < 0 THEN Unlimited ELSE a

\* recompute the two "since" clocks after a state change at time t
Reclock(st, t) ==
  LET idleNow == st.queued # {} /\ InFlight(st) < (IF st.dynamic THEN st.cur ELSE st.count) /\ ~st.down
      roomNow == Cardinality(st.queued) < (IF st.dynamic THEN st.lastgood ELSE st.count)
  IN [st EXCEPT !.idle = IF idleNow THEN (IF st.idle >= 0 THEN st.idle ELSE t) ELSE -1,
                !.room = [f \in DOMAIN st.room |->
                             IF roomNow THEN (IF st.room[f] >= 0 THEN st.room[f] ELSE t) ELSE -1]]

Upd(st, e) ==
  CASE e.ev = "Cfg" -> [st EXCEPT !.count = IF e.a = -2 THEN Unlimited ELSE ValOf(e.a), !.dynamic = (e.a = -2),
                                  !.block = (e.b = 1), !.cfgd = TRUE]
    [] e.ev = "CountChange" -> [st EXCEPT !.cur = ValOf(e.a)]
    [] e.ev = "CountRet" -> [st EXCEPT !.lastgood = ValOf(e.a), !.cur = ValOf(e.a),
                                       !.loopval = IF e.r = "throttle" THEN ValOf(e.a) ELSE @]
    [] e.ev = "CountRaise" -> [st EXCEPT !.loopval = IF e.r = "throttle" THEN st.lastgood ELSE @]
    [] e.ev = "SubmitCall" -> [st EXCEPT !.pred = Put(@, e.f, st.queued \cup st.handed),
                                         !.calling = Put(@, e.f, e.t), !.room = Put(@, e.f, -1)]
    [] e.ev = "SubmitRet" -> [st EXCEPT !.queued = @ \cup ({e.f} \ (st.handed \cup st.cancelled)),
                                        !.calling = [x \in DOMAIN @ \ {e.f} |-> @[x]],
                                        !.room = [x \in DOMAIN @ \ {e.f} |-> @[x]]]
    [] e.ev = "SubmitRaise" -> [st EXCEPT !.calling = [x \in DOMAIN @ \ {e.f} |-> @[x]],
                                          !.room = [x \in DOMAIN @ \ {e.f} |-> @[x]]]
    [] e.ev = "DelegateSubmit" /\ e.s = "tap" -> [st EXCEPT !.handed = @ \cup {e.f}, !.queued = @ \ {e.f}]
    [] e.ev = "InvokeEnd" -> [st EXCEPT !.fin = @ \cup {e.f}]
    [] e.ev = "DelegateState" /\ e.s \in Terminal -> [st EXCEPT !.fin = @ \cup {e.f}]
    [] e.ev = "CancelCall" -> [st EXCEPT !.cancelling = @ \cup {e.f}]
    [] e.ev = "CancelRet" /\ e.a = 1 -> [st EXCEPT !.cancelled = @ \cup {e.f}, !.queued = @ \ {e.f}]
    \* (a cancel() may still be running the future's - possibly slow - done-callbacks: the future has left the queue
    \*  as soon as it is seen cancelled)
    [] e.ev = "Observed" /\ e.s \in CancelledStates -> [st EXCEPT !.cancelled = @ \cup {e.f}, !.queued = @ \ {e.f}]
    [] e.ev = "ShutdownCall" -> [st EXCEPT !.down = TRUE]
    [] OTHER -> st

ObsNext(st, e) == Reclock(Upd(st, e), e.t)

IdleBound(st) == IF st.dynamic THEN RECHECK + SLACK ELSE SLACK

Clauses(st, e) ==
  << <<"C07_AtMostCount",
        (e.ev = "DelegateSubmit" /\ e.s = "tap") => InFlight(st) < Limit(st)>>,
     <<"C07_Fifo",
        (e.ev = "DelegateSubmit" /\ e.s = "tap" /\ Has(st.pred, e.f)) =>
            \A p \in st.pred[e.f] : p \in st.handed \/ p \in st.cancelled \/ p \in st.cancelling>>,
     <<"C07_HandedOnce",
        (e.ev = "DelegateSubmit" /\ e.s = "tap") => e.f \notin st.handed>>,
     <<"C07_NotHandedAfterCancel",
        (e.ev = "DelegateSubmit" /\ e.s = "tap") => e.f \notin st.cancelled>>,
     <<"C07_NoIdleCapacity",
        st.idle >= 0 => e.t <= st.idle + IdleBound(st)>>,
     <<"C07_BlockOnlyWhileFull",
        \A f \in DOMAIN st.room : st.room[f] >= 0 => e.t <= st.room[f] + IdleBound(st)>>,
     <<"C07_NonBlockingSubmitReturns",
        (~st.block /\ st.cfgd) => \A f \in DOMAIN st.calling : e.t <= st.calling[f] + SLACK>>,
     <<"C07_SubmitWorksForEveryCount",
        e.ev = "SubmitRaise" => e.a = 1>> >>
=============================================================================
