---------------------------- MODULE Throttle ----------------------------
(* Implementation-shaped specification of ThrottleExecutor (more_executors/_impl/throttle.py) with a
   static count or (Dyn = TRUE) a count callable whose answer changes from V0 to V1 at time ChangeAt (99 stands for
   None = unlimited, 98 for "the callable raises": the last good value stays in force), at the granularity of the engine's visible synchronisation operations:

       visible primitives = the shutdown gate (held for the whole of submit(), including while a blocking
                            submit() waits), executor._lock (queue), executor._event, virtual-time sleeps.

   The counter object (AtomicInt) and the futures' own locks are not visible: increments / decrements
   and cancel()/set_result() on one future are atomic here, exactly the exclusion the code provides.

   Threads:  Sub(j)  client submitting job j at time cfgS[j]
             Env(j)  the delegate's work for job j (finishes cfgD[j] ticks after hand-over)
             Can(j)  client cancelling future j at time cfgK[j] (>= 90000: never), started once submit returned
             LOOP    the hand-over thread (_submit_loop), OBS the harness observer
   AsShipped_D6 = TRUE models upstream 2.11.4: nobody sets the event when the queue shrinks (after the
   hand-over thread pops, after a queued future is cancelled), so a blocking submit() sleeps on its 30 s
   timer although the queue has room (clause C07_BlockOnlyWhileFull).  FALSE models the repaired code.
*)
EXTENDS ThrottleObs

CONSTANTS Jobs, Count, Dyn, V0, V1, ChangeAt, Block, SubmitTimes, Durs, CancelTimes, CancelVals, Horizon, KeepHist, AsShipped_D6, Bug,
          CbDur     \* ticks the client's done-callbacks of a throttled future take (they run on the thread that completes it)

NoOne == <<"none", 0>>
LOOP == <<"loop", 0>>
OBS  == <<"obs", 0>>
CH   == <<"ch", 0>>     \* the harness thread announcing the change of the scripted count
Sub(j) == <<"sub", j>>
Env(j) == <<"env", j>>
Can(j) == <<"can", j>>
Threads == {LOOP, OBS, CH} \cup {Sub(j) : j \in Jobs} \cup {Env(j) : j \in Jobs} \cup {Can(j) : j \in Jobs}

VARIABLES cfgS, cfgD, cfgK, cfgC,
          pc, queue, running, gate, evt, woken, jst, batch, wt, wdl, sdl, edl, lastgood, sval, lthr, now,
          obs, viol, hist, actor

cfg  == <<cfgS, cfgD, cfgK, cfgC>>
vars == <<cfgS, cfgD, cfgK, cfgC, pc, queue, running, gate, evt, woken, jst, batch, wt, wdl, sdl, edl, lastgood, sval, lthr, now,
          obs, viol, hist, actor>>

RECURSIVE Feed(_, _, _)
Feed(o, v, evs) ==
  IF evs = <<>> THEN <<o, v>>
  ELSE LET e == Head(evs)
           ff == FirstFailed(Clauses(o, e))
       IN Feed(ObsNext(o, e), IF v = "ok" THEN ff ELSE v, Tail(evs))
Emit(evs) ==
  LET r == Feed(obs, viol, evs) IN
    /\ obs' = r[1] /\ viol' = r[2]
    /\ hist' = IF KeepHist THEN hist \o [i \in 1..Len(evs) |-> <<evs[i].ev, evs[i].f, evs[i].t>>] ELSE hist
NoEmit == UNCHANGED <<obs, viol, hist>>

Init ==
  /\ cfgS \in [Jobs -> SubmitTimes] /\ cfgD \in [Jobs -> Durs]
  /\ cfgK \in [Jobs -> CancelTimes] /\ cfgC \in [Jobs -> CancelVals]
  /\ lastgood = (IF Dyn THEN V0 ELSE Count) /\ sval = [j \in Jobs |-> 0]
  /\ lthr = (IF Dyn THEN V0 ELSE Count)     \* the hand-over thread evaluates the count before it takes the lock
  /\ pc = [t \in Threads |-> IF t = LOOP THEN "l_top" ELSE IF t = OBS THEN "o_sleep"
                              ELSE IF t = CH THEN (IF Dyn THEN "ch_sleep" ELSE "done")
                              ELSE IF t[1] = "sub" THEN "s_sleep" ELSE IF t[1] = "env" THEN "e_idle" ELSE "c_idle"]
  /\ queue = <<>> /\ running = 0 /\ gate = NoOne /\ evt = FALSE /\ woken = {}
  /\ jst = [j \in Jobs |-> "new"] /\ batch = <<>> /\ wt = 0 /\ wdl = -1
  /\ sdl = [j \in Jobs |-> -1] /\ edl = [j \in Jobs |-> -1] /\ now = 0
  /\ obs = IF Dyn
             THEN ObsNext(ObsNext(ObsNext(ObsInit, Ev("Cfg", "-", "main", 0, -1, -1, -2, IF Block THEN 1 ELSE 0, -1, "", <<>>)),
                                  E2("CountRet", "main", 0, -1, IF V0 = 99 THEN -1 ELSE V0)),       \* the constructor's call
                          E2("CountRet", "throttle", 0, -1, IF V0 = 99 THEN -1 ELSE V0))            \* the thread's first evaluation
             ELSE ObsNext(ObsInit, Ev("Cfg", "-", "main", 0, -1, -1, Count, IF Block THEN 1 ELSE 0, -1, "", <<>>))
  /\ viol = "ok" /\ hist = (IF Dyn /\ KeepHist THEN << <<"CountRet", -1, 0>> >> ELSE <<>>) /\ actor = <<"-", 0>>

\* Event semantics are CPython's, two-phase: at "l_wait"/"s_wait" the thread is about to call wait() and
\* first looks at the flag; only in "l_blocked"/"s_blocked" is it a registered waiter that set() wakes.
Waiters == {t \in Threads : pc[t] \in {"l_blocked", "s_blocked"}}
SetEvent == evt' = TRUE /\ woken' = woken \cup Waiters

\* ------------------------------------------------------------------ submit()
G_SSleep(j) == pc[Sub(j)] = "s_sleep" /\ now >= cfgS[j]
SSleep(j) ==
  /\ G_SSleep(j)
  /\ pc' = [pc EXCEPT ![Sub(j)] = "s_gate"]
  /\ Emit(<<E1("SubmitCall", "client", now, j)>>)
  /\ actor' = Sub(j)
  /\ UNCHANGED <<cfg, queue, running, gate, evt, woken, jst, batch, wt, wdl, sdl, edl, lastgood, sval, lthr, now>>

\* _eval_throttle(): the scripted answer now; 98 = raises (last good value stays), 99 = None (no limit)
CurAns == IF ~Dyn THEN Count ELSE IF now >= ChangeAt THEN V1 ELSE V0
EvalVal == IF CurAns = 98 THEN lastgood ELSE CurAns
EvalEvents(role) == IF ~Dyn THEN <<>>
                    ELSE IF CurAns = 98 THEN <<E0("CountRaise", role, now)>>
                    ELSE <<E2("CountRet", role, now, -1, IF CurAns = 99 THEN -1 ELSE CurAns)>>
Unlim(v) == v = 99
HasRoomFor(v) == Unlim(v) \/ Len(queue) < v

G_SGate(j) == pc[Sub(j)] = "s_gate" /\ gate = NoOne
SGate(j) ==    \* with ensure_alive(): _block_until_ready(_eval_throttle()) ...
  /\ G_SGate(j)
  /\ gate' = Sub(j)
  /\ sval' = [sval EXCEPT ![j] = EvalVal]
  /\ lastgood' = EvalVal
  /\ IF Block /\ ~HasRoomFor(EvalVal)
       THEN pc' = [pc EXCEPT ![Sub(j)] = "s_wait"]
       ELSE pc' = [pc EXCEPT ![Sub(j)] = "s_lock"]
  /\ actor' = Sub(j)
  /\ IF Dyn THEN Emit(EvalEvents("client")) ELSE NoEmit
  /\ UNCHANGED <<cfg, queue, running, evt, woken, jst, batch, wt, wdl, sdl, edl, lthr, now>>

G_SEnter(j) == pc[Sub(j)] = "s_wait"
SEnter(j) ==   \* self._event.wait(30.0): flag set -> returns at once (and re-checks), else block
  /\ G_SEnter(j)
  /\ IF evt
       THEN IF HasRoomFor(sval[j])
              THEN /\ pc' = [pc EXCEPT ![Sub(j)] = "s_lock"] /\ UNCHANGED sdl
              ELSE /\ pc' = [pc EXCEPT ![Sub(j)] = "s_wait"] /\ UNCHANGED sdl
       ELSE /\ pc' = [pc EXCEPT ![Sub(j)] = "s_blocked"] /\ sdl' = [sdl EXCEPT ![j] = now + 30000 + 1]
  /\ actor' = Sub(j)
  /\ NoEmit
  /\ UNCHANGED <<cfg, queue, running, gate, evt, woken, jst, batch, wt, wdl, edl, lastgood, sval, lthr, now>>

G_SWake(j) == pc[Sub(j)] = "s_blocked" /\ (Sub(j) \in woken \/ now >= sdl[j])
SWake(j) ==    \* the blocked wait returned; re-check the queue length
  /\ G_SWake(j)
  /\ woken' = woken \ {Sub(j)}
  /\ IF HasRoomFor(sval[j])
       THEN pc' = [pc EXCEPT ![Sub(j)] = "s_lock"]
       ELSE pc' = [pc EXCEPT ![Sub(j)] = "s_wait"]
  /\ actor' = Sub(j)
  /\ NoEmit
  /\ UNCHANGED <<cfg, queue, running, gate, evt, jst, batch, wt, wdl, sdl, edl, lastgood, sval, lthr, now>>

G_SLock(j) == pc[Sub(j)] = "s_lock"
SLock(j) ==    \* with self._lock: self._to_submit.append(job)
  /\ G_SLock(j)
  /\ queue' = Append(queue, j)
  /\ jst' = [jst EXCEPT ![j] = "queued"]
  /\ pc' = [pc EXCEPT ![Sub(j)] = "s_set"]
  /\ actor' = Sub(j)
  /\ NoEmit
  /\ UNCHANGED <<cfg, running, gate, evt, woken, batch, wt, wdl, sdl, edl, lastgood, sval, lthr, now>>

G_SSet(j) == pc[Sub(j)] = "s_set"
SSet(j) ==     \* self._event.set(); return out
  /\ G_SSet(j)
  /\ SetEvent
  /\ gate' = NoOne
  /\ pc' = [pc EXCEPT ![Sub(j)] = "done", ![Can(j)] = IF cfgK[j] < 90000 THEN "c_sleep" ELSE "c_never"]
  /\ Emit(<<E1("SubmitRet", "client", now, j)>>)
  /\ actor' = Sub(j)
  /\ UNCHANGED <<cfg, queue, running, jst, batch, wt, wdl, sdl, edl, lastgood, sval, lthr, now>>

\* ------------------------------------------------------------------ hand-over thread
\* hand the batch over: _do_submit for each job (delegate.submit, add_done_callback, _set_delegate), then the
\* wait time is chosen: 30 s if anything is running, else 2 s
HandOver(b, run, pre) ==
  /\ jst' = [j \in Jobs |-> IF \E i \in DOMAIN b : b[i] = j THEN "handed" ELSE jst[j]]
  /\ edl' = [j \in Jobs |-> IF \E i \in DOMAIN b : b[i] = j THEN now + cfgD[j] ELSE edl[j]]
  /\ pc' = [t \in Threads |-> IF t = LOOP THEN "l_wait"
                               ELSE IF t[1] = "env" /\ (\E i \in DOMAIN b : b[i] = t[2]) THEN "e_sleep" ELSE pc[t]]
  /\ wt' = (IF run > 0 THEN 30000 ELSE 2000)
  /\ batch' = <<>>
  /\ Emit(pre \o [i \in DOMAIN b |-> ES("DelegateSubmit", "throttle", now, b[i], "tap")])

Limit0 == IF Unlim(lthr) THEN 1000 ELSE IF Bug = "off_by_one" THEN lthr + 1 ELSE lthr

G_LTop == pc[LOOP] = "l_top"
LTop ==        \* _eval_throttle; with _lock: pop while running < throttle; then hand over
  /\ G_LTop
  /\ LET room == IF Limit0 > running THEN Limit0 - running ELSE 0
         n == Min(Len(queue), room)
         b == IF Bug = "lifo" /\ n > 0 THEN SubSeq(queue, Len(queue) - n + 1, Len(queue)) ELSE SubSeq(queue, 1, n)
         rest == IF Bug = "lifo" /\ n > 0 THEN SubSeq(queue, 1, Len(queue) - n) ELSE SubSeq(queue, n + 1, Len(queue))
     IN /\ queue' = rest
        \* seeded model bug unlimited_uncounted (change C07-r4m1): the unlimited fast path hands the queue over without counting
        /\ running' = running + (IF Bug = "unlimited_uncounted" /\ Unlim(lthr) THEN 0 ELSE n)
        /\ IF ~AsShipped_D6 /\ n > 0
             THEN /\ batch' = b /\ pc' = [pc EXCEPT ![LOOP] = "l_popset"]
                  /\ NoEmit /\ UNCHANGED <<jst, edl, wt>>
             ELSE HandOver(b, running + n, <<>>)
  /\ actor' = LOOP
  /\ UNCHANGED <<cfg, gate, evt, woken, wdl, sdl, lastgood, sval, lthr, now>>

G_LPopSet == pc[LOOP] = "l_popset"
LPopSet ==     \* (repaired code only) the queue shrank: wake submitters blocked in _block_until_ready
  /\ G_LPopSet
  /\ SetEvent
  /\ HandOver(batch, running, <<>>)
  /\ actor' = LOOP
  /\ UNCHANGED <<cfg, queue, running, gate, wdl, sdl, lastgood, sval, lthr, now>>

G_LEnter == pc[LOOP] = "l_wait"
LEnter ==      \* event.wait(wait_time): look at the flag; block only if it is clear
  /\ G_LEnter
  /\ IF evt THEN /\ pc' = [pc EXCEPT ![LOOP] = "l_clear"] /\ UNCHANGED wdl
            ELSE /\ pc' = [pc EXCEPT ![LOOP] = "l_blocked"] /\ wdl' = now + wt + 1
  /\ actor' = LOOP
  /\ NoEmit
  /\ UNCHANGED <<cfg, queue, running, gate, evt, woken, jst, batch, wt, sdl, edl, lastgood, sval, lthr, now>>

G_LWake == pc[LOOP] = "l_blocked" /\ (LOOP \in woken \/ now >= wdl)
LWake ==
  /\ G_LWake
  /\ woken' = woken \ {LOOP}
  /\ pc' = [pc EXCEPT ![LOOP] = "l_clear"]
  /\ actor' = LOOP
  /\ NoEmit
  /\ UNCHANGED <<cfg, queue, running, gate, evt, jst, batch, wt, wdl, sdl, edl, lastgood, sval, lthr, now>>

G_LClear == pc[LOOP] = "l_clear"
LClear ==      \* event.clear(); next iteration: _eval_throttle() (user code), then executor._lock
  /\ G_LClear
  /\ evt' = FALSE
  /\ lthr' = EvalVal /\ lastgood' = EvalVal
  /\ pc' = [pc EXCEPT ![LOOP] = "l_top"]
  /\ actor' = LOOP
  /\ IF Dyn THEN Emit(EvalEvents("throttle")) ELSE NoEmit
  /\ UNCHANGED <<cfg, queue, running, gate, woken, jst, batch, wt, wdl, sdl, edl, sval, now>>

\* ------------------------------------------------------------------ the delegate's work
G_EFinish(j) == pc[Env(j)] = "e_sleep" /\ now >= edl[j]
\* Bug = "release_after_callbacks" (seeded change C07-r3m1): the slot release is registered on the delegate future AFTER
\* the callback that resolves the throttled future, so it only runs when every done-callback of that future has run
Late == Bug = "release_after_callbacks"
EFinish(j) ==  \* work ends; first done-callback: running_count.decr(); next visible op: event.set()
  /\ G_EFinish(j)
  /\ IF jst[j] = "handed"
       THEN /\ jst' = [jst EXCEPT ![j] = "done"]
            /\ IF Late
                 THEN /\ UNCHANGED running
                      /\ pc' = [pc EXCEPT ![Env(j)] = "e_cb"] /\ edl' = [edl EXCEPT ![j] = now + CbDur]
                      /\ Emit(<<E3("InvokeEnd", "env", now, j, 0, j), ESA("Observed", "env", now, j, "FINISHED", 0, j)>>)
                 ELSE /\ running' = IF Bug = "no_decr" THEN running ELSE running - 1
                      /\ pc' = [pc EXCEPT ![Env(j)] = "e_set"] /\ UNCHANGED edl
                      /\ Emit(<<E3("InvokeEnd", "env", now, j, 0, j)>>)
       ELSE /\ pc' = [pc EXCEPT ![Env(j)] = "done"]
            /\ NoEmit /\ UNCHANGED <<jst, running, edl>>
  /\ actor' = Env(j)
  /\ UNCHANGED <<cfg, queue, gate, evt, woken, batch, wt, wdl, sdl, lastgood, sval, lthr, now>>

G_ESet(j) == pc[Env(j)] = "e_set"
ESet(j) ==     \* event.set(); second callback resolves the throttled future (and runs the client's callbacks)
  /\ G_ESet(j)
  /\ IF Bug = "no_set_on_done" THEN UNCHANGED <<evt, woken>> ELSE SetEvent
  /\ IF Late
       THEN /\ pc' = [pc EXCEPT ![Env(j)] = "done"] /\ NoEmit /\ UNCHANGED edl
       ELSE /\ pc' = [pc EXCEPT ![Env(j)] = IF CbDur > 0 THEN "e_cb" ELSE "done"]
            /\ edl' = [edl EXCEPT ![j] = IF CbDur > 0 THEN now + CbDur ELSE @]
            /\ Emit(<<ESA("Observed", "env", now, j, "FINISHED", 0, j)>>)
  /\ actor' = Env(j)
  /\ UNCHANGED <<cfg, queue, running, gate, jst, batch, wt, wdl, sdl, lastgood, sval, lthr, now>>

G_ECbEnd(j) == pc[Env(j)] = "e_cb" /\ now >= edl[j]
ECbEnd(j) ==   \* the client's callbacks have run
  /\ G_ECbEnd(j)
  /\ IF Late
       THEN /\ running' = running - 1 /\ pc' = [pc EXCEPT ![Env(j)] = "e_set"]
       ELSE /\ UNCHANGED running /\ pc' = [pc EXCEPT ![Env(j)] = "done"]
  /\ actor' = Env(j) /\ NoEmit
  /\ UNCHANGED <<cfg, queue, gate, evt, woken, jst, batch, wt, wdl, sdl, edl, lastgood, sval, lthr, now>>

\* ------------------------------------------------------------------ cancel()
G_CStart(j) == pc[Can(j)] = "c_sleep" /\ now >= cfgK[j]
CStart(j) ==
  /\ G_CStart(j)
  /\ CASE jst[j] = "queued" ->      \* no delegate yet: executor._do_cancel; next visible op: executor._lock
            /\ pc' = [pc EXCEPT ![Can(j)] = "c_lock"]
            /\ Emit(<<E1("CancelCall", "canceller", now, j)>>)
            /\ UNCHANGED <<jst, running>>
       [] jst[j] = "handed" /\ cfgC[j] ->   \* delegate future cancelled; its callback: decr, then event.set()
            /\ jst' = [jst EXCEPT ![j] = "cancelled"]
            /\ running' = running - 1
            /\ pc' = [pc EXCEPT ![Can(j)] = "c_set"]
            /\ Emit(<<E1("CancelCall", "canceller", now, j),
                      ES("DelegateState", "canceller", now, j, "CANCELLED")>>)
       [] OTHER ->                  \* running / done / cancelled already
            /\ pc' = [pc EXCEPT ![Can(j)] = "done"]
            /\ Emit(<<E1("CancelCall", "canceller", now, j),
                      E2("CancelRet", "canceller", now, j, IF jst[j] = "cancelled" THEN 1 ELSE 0)>>)
            /\ UNCHANGED <<jst, running>>
  /\ actor' = Can(j)
  /\ UNCHANGED <<cfg, queue, gate, evt, woken, batch, wt, wdl, sdl, edl, lastgood, sval, lthr, now>>

G_CLock(j) == pc[Can(j)] = "c_lock"
CLock(j) ==    \* with self._lock: remove the job if it is still queued
  /\ G_CLock(j)
  /\ IF \E i \in DOMAIN queue : queue[i] = j
       THEN /\ queue' = IF Bug = "rotate_on_cancel"
                           \* seeded model bug (change C07-r3m2): the search pops from the head and appends to the tail,
                           \* and stops in the middle of the cycle when it has found the job
                           THEN LET i == CHOOSE k \in DOMAIN queue : queue[k] = j
                                IN SubSeq(queue, i + 1, Len(queue)) \o SubSeq(queue, 1, i - 1)
                           ELSE SelectSeq(queue, LAMBDA x : x # j)
            /\ jst' = [jst EXCEPT ![j] = "cancelled"]
            /\ IF AsShipped_D6
                 THEN /\ pc' = [pc EXCEPT ![Can(j)] = "done"]
                      /\ Emit(<<E2("CancelRet", "canceller", now, j, 1),
                                ESA("Observed", "canceller", now, j, "CANCELLED_AND_NOTIFIED", -1, -1)>>)
                 ELSE /\ pc' = [pc EXCEPT ![Can(j)] = "c_qset"] /\ NoEmit
       ELSE /\ pc' = [pc EXCEPT ![Can(j)] = "done"]
            /\ Emit(<<E2("CancelRet", "canceller", now, j, 0)>>)
            /\ UNCHANGED <<queue, jst>>
  /\ actor' = Can(j)
  /\ UNCHANGED <<cfg, running, gate, evt, woken, batch, wt, wdl, sdl, edl, lastgood, sval, lthr, now>>

G_CQSet(j) == pc[Can(j)] = "c_qset"
CQSet(j) ==    \* (repaired code only) the queue shrank: event.set()
  /\ G_CQSet(j)
  /\ SetEvent
  /\ pc' = [pc EXCEPT ![Can(j)] = "done"]
  /\ Emit(<<E2("CancelRet", "canceller", now, j, 1),
            ESA("Observed", "canceller", now, j, "CANCELLED_AND_NOTIFIED", -1, -1)>>)
  /\ actor' = Can(j)
  /\ UNCHANGED <<cfg, queue, running, gate, jst, batch, wt, wdl, sdl, edl, lastgood, sval, lthr, now>>

G_CSet(j) == pc[Can(j)] = "c_set"
CSet(j) ==     \* the cancelled delegate's callback: event.set(); cancel() returns True
  /\ G_CSet(j)
  /\ SetEvent
  /\ pc' = [pc EXCEPT ![Can(j)] = "done"]
  /\ Emit(<<E2("CancelRet", "canceller", now, j, 1),
            ESA("Observed", "canceller", now, j, "CANCELLED_AND_NOTIFIED", -1, -1)>>)
  /\ actor' = Can(j)
  /\ UNCHANGED <<cfg, queue, running, gate, jst, batch, wt, wdl, sdl, edl, lastgood, sval, lthr, now>>

\* ------------------------------------------------------------------ the scripted count changes
G_ChTick == pc[CH] = "ch_sleep" /\ now >= ChangeAt
ChTick ==
  /\ G_ChTick
  /\ pc' = [pc EXCEPT ![CH] = "done"]
  /\ Emit(<<E2("CountChange", "main", now, -1, IF V1 = 99 THEN -1 ELSE IF V1 = 98 THEN -3 ELSE V1)>>)
  /\ actor' = CH
  /\ UNCHANGED <<cfg, queue, running, gate, evt, woken, jst, batch, wt, wdl, sdl, edl, lastgood, sval, lthr, now>>

\* ------------------------------------------------------------------ observer, time
G_OEnd == pc[OBS] = "o_sleep" /\ now >= Horizon
OEnd ==
  /\ G_OEnd
  /\ pc' = [pc EXCEPT ![OBS] = "done"]
  /\ Emit(<<E0("End", "main", now)>>)
  /\ actor' = OBS
  /\ UNCHANGED <<cfg, queue, running, gate, evt, woken, jst, batch, wt, wdl, sdl, edl, lastgood, sval, lthr, now>>

AnyEnabled ==
  \/ \E j \in Jobs : \/ G_SSleep(j) \/ G_SGate(j) \/ G_SEnter(j) \/ G_SWake(j) \/ G_SLock(j) \/ G_SSet(j)
                     \/ G_EFinish(j) \/ G_ESet(j) \/ G_ECbEnd(j) \/ G_CStart(j) \/ G_CLock(j) \/ G_CQSet(j) \/ G_CSet(j)
  \/ G_LTop \/ G_LPopSet \/ G_LEnter \/ G_LWake \/ G_LClear \/ G_OEnd \/ G_ChTick

Deadlines ==
  {cfgS[j] : j \in {x \in Jobs : pc[Sub(x)] = "s_sleep"}}
  \cup {sdl[j] : j \in {x \in Jobs : pc[Sub(x)] = "s_blocked"}}
  \cup {edl[j] : j \in {x \in Jobs : pc[Env(x)] \in {"e_sleep", "e_cb"}}}
  \cup {cfgK[j] : j \in {x \in Jobs : pc[Can(x)] = "c_sleep"}}
  \cup (IF pc[LOOP] = "l_blocked" THEN {wdl} ELSE {})
  \cup (IF pc[OBS] = "o_sleep" THEN {Horizon} ELSE {})
  \cup (IF pc[CH] = "ch_sleep" THEN {ChangeAt} ELSE {})

Tick ==
  /\ ~AnyEnabled /\ Deadlines # {}
  /\ now' = CHOOSE d \in Deadlines : \A x \in Deadlines : d <= x
  /\ actor' = <<"tick", 0>>
  /\ UNCHANGED <<cfg, pc, queue, running, gate, evt, woken, jst, batch, wt, wdl, sdl, edl, obs, viol, hist, lastgood, sval, lthr>>

Next ==
  \/ \E j \in Jobs : \/ SSleep(j) \/ SGate(j) \/ SEnter(j) \/ SWake(j) \/ SLock(j) \/ SSet(j)
                     \/ EFinish(j) \/ ESet(j) \/ ECbEnd(j) \/ CStart(j) \/ CLock(j) \/ CQSet(j) \/ CSet(j)
  \/ LTop \/ LPopSet \/ LEnter \/ LWake \/ LClear \/ OEnd \/ ChTick \/ Tick

Spec == Init /\ [][Next]_vars

\* ------------------------------------------------------------------ properties
ContractHolds == viol = "ok"
\* the clauses that the shipped code satisfies (C07_BlockOnlyWhileFull is refuted by D6)
ContractHoldsButD6 == viol \in {"ok", "C07_BlockOnlyWhileFull"}
CounterSound == Cardinality({j \in Jobs : jst[j] = "handed"}) + Len(batch) <= running
StopAtHorizon == now <= Horizon
View == <<cfg, pc, queue, running, gate, evt, woken, jst, batch, wt, wdl, sdl, edl, lastgood, sval, lthr, now, obs, viol>>
=============================================================================
