---------------------------- MODULE RetryObs ----------------------------
(* Contract of C05 ("Retry: exact attempt accounting, sequential attempts, exact back-off") and of the
   retry-related clauses of C06 ("Cancel: True means the work never starts; it stops retries").

   Events (fixed record, see ObsKit):
     Cfg(s = policy kind "exc" | "custom", a = max_attempts, b = sleep (ticks), c = exponent, k = max_sleep (ticks),
         f = 0 iff the submit thread is known to be contended: "absent contention" of the statement)
     SubmitCall(f) / SubmitRet(f)
     DelegateSubmit(f, s = "tap")         the retry layer submits the callable of f to its delegate (an attempt)
     Invoke(f, k) / InvokeEnd(f, k, a, b) the callable starts / ends (a = 0 value, 1 exception in exception_base,
                                           2 other exception; b = id of the value / exception object)
     DelegateState(f, s)                  the delegate's future of the current attempt was seen in state s
     ShouldRetry(f, k, a)                 policy.should_retry(k, ..) returned a (0/1) or raised (a = 2)
     SleepTime(f, k, a)                   policy.sleep_time(k, ..) returned a ticks, or raised (a = -2)
     Observed(f, s, a, b)                 the returned future was seen in state s with outcome (a, b)
     Callback(f)                          a done-callback of the returned future ran
     CancelCall(f) / CancelRet(f, a)      a client called cancel() on the returned future
     CancelRaise(f, s = exception class)  ... and the call raised
     ThreadExit(s = thread name, a = 1)   a thread ended with an exception (r = role of the thread)
     ShutdownCall / End
*)
EXTENDS ObsKit

SLACK == 3

ObsInit == [exact |-> TRUE,     \* FALSE when the harness knows the submit thread is contended (sync delegate, several jobs)
            kind |-> "custom", maxatt |-> 0, sleep |-> 0, expo |-> 1, maxsleep |-> 0,
            subs |-> EmptyMap,     \* f -> number of attempts handed to the delegate
            open |-> EmptyMap,     \* f -> 1 while the current attempt's callable has not ended / delegate not done
            ended |-> EmptyMap,    \* f -> number of attempts that ended
            endt |-> EmptyMap,     \* f -> time the last attempt ended
            endo |-> EmptyMap,     \* f -> <<a, b>> outcome of the last ended attempt
            polled |-> EmptyMap,   \* f -> number of should_retry consultations
            dec |-> EmptyMap,      \* f -> last decision: 1 retry, 0 final, 2 policy raised, -1 none yet
            delay |-> EmptyMap,    \* f -> sleep_time answer for the pending retry (ticks), -1 unknown
            ccall |-> {},          \* futures on which cancel() has been called
            cret |-> {},           \* futures on which some cancel() call has returned
            ctrue |-> {},          \* futures for which cancel() returned True
            fin |-> {},            \* futures seen FINISHED
            running |-> {},        \* futures whose callable is running right now (Invoke without InvokeEnd)
            crun |-> EmptyMap,     \* f -> TRUE if the callable was running when the pending cancel() was issued
            cfalse |-> EmptyMap,   \* f -> time at which a cancel() of f first returned False
            polt |-> EmptyMap,     \* f -> time of the policy's latest sleep_time answer
            down |-> FALSE]

RECURSIVE Pow(_, _)
Pow(x, n) == IF n <= 0 THEN 1 ELSE x * Pow(x, n - 1)
Backoff(st, k) == Min(st.sleep * Pow(st.expo, k - 1), st.maxsleep)

ObsNext(st, e) ==
  CASE e.ev = "Cfg" -> [st EXCEPT !.exact = (e.f # 0), !.kind = e.s, !.maxatt = e.a, !.sleep = e.b, !.expo = e.c, !.maxsleep = e.k]
    [] e.ev = "SubmitCall" -> [st EXCEPT !.subs = Put(@, e.f, 0), !.open = Put(@, e.f, 0), !.ended = Put(@, e.f, 0),
                                         !.polled = Put(@, e.f, 0), !.dec = Put(@, e.f, -1), !.delay = Put(@, e.f, -1)]
    [] e.ev = "DelegateSubmit" /\ e.s = "tap" /\ Has(st.subs, e.f) ->
          [st EXCEPT !.subs = Put(@, e.f, st.subs[e.f] + 1), !.open = Put(@, e.f, 1), !.dec = Put(@, e.f, -1)]
    [] e.ev = "Invoke" -> [st EXCEPT !.running = @ \cup {e.f}]
    [] e.ev = "InvokeEnd" /\ Has(st.ended, e.f) ->
          [st EXCEPT !.running = @ \ {e.f}, !.open = Put(@, e.f, 0), !.ended = Put(@, e.f, st.ended[e.f] + 1),
                     !.endt = Put(@, e.f, e.t), !.endo = Put(@, e.f, <<e.a, e.b>>)]
    [] e.ev = "ShouldRetry" /\ Has(st.polled, e.f) ->
          [st EXCEPT !.polled = Put(@, e.f, st.polled[e.f] + 1), !.dec = Put(@, e.f, e.a),
                     !.delay = Put(@, e.f, -1)]
    [] e.ev = "SleepTime" /\ Has(st.delay, e.f) ->
          [st EXCEPT !.delay = Put(@, e.f, e.a), !.dec = Put(@, e.f, IF e.a = -2 THEN 2 ELSE st.dec[e.f]),
                     !.polt = Put(@, e.f, e.t)]
    [] e.ev = "CancelCall" -> [st EXCEPT !.ccall = @ \cup {e.f}, !.crun = Put(@, e.f, e.f \in st.running)]
    [] e.ev = "CancelRet" -> [st EXCEPT !.cret = @ \cup {e.f}, !.ctrue = IF e.a = 1 THEN @ \cup {e.f} ELSE @,
                                        !.cfalse = IF e.a = 0 /\ ~Has(@, e.f) THEN Put(@, e.f, e.t) ELSE @]
    [] e.ev = "ShutdownCall" -> [st EXCEPT !.down = TRUE]
    [] e.ev = "Observed" /\ e.s = "FINISHED" -> [st EXCEPT !.fin = @ \cup {e.f}]
    [] OTHER -> st

IsAttempt(e) == e.ev = "DelegateSubmit" /\ e.s = "tap"
Retrying(st, e) == IsAttempt(e) /\ Has(st.subs, e.f) /\ st.subs[e.f] >= 1

Clauses(st, e) ==
  << <<"C05_Sequential",
        (IsAttempt(e) /\ Has(st.open, e.f)) => st.open[e.f] = 0>>,
     <<"C05_RetryOnlyIfPolicySaidSo",
        Retrying(st, e) => (st.dec[e.f] = 1 /\ st.ended[e.f] = st.subs[e.f])>>,
     <<"C05_NoEarly",
        (Retrying(st, e) /\ st.delay[e.f] >= 0) => e.t >= st.endt[e.f] + st.delay[e.f]>>,
     <<"C05_Exact",
        (Retrying(st, e) /\ st.delay[e.f] >= 0 /\ st.exact) => e.t <= st.endt[e.f] + st.delay[e.f] + SLACK>>,
     <<"C05_PolicyOncePerAttempt",
        (e.ev = "ShouldRetry" /\ Has(st.polled, e.f)) =>
            (e.k = st.ended[e.f] /\ st.polled[e.f] = e.k - 1 /\ st.open[e.f] = 0)>>,
     <<"C05_PolicyConsultedUnlessCancelled",
        e.ev = "End" => \A f \in DOMAIN st.polled :
            (f \notin st.ccall /\ ~st.down) => st.polled[f] = st.ended[f]>>,
     <<"C05_StopRule",
        (e.ev = "ShouldRetry" /\ st.kind \in {"exc", "excf"} /\ Has(st.endo, e.f)) =>
            e.a = (IF st.endo[e.f][1] = 1 /\ e.k < st.maxatt THEN 1 ELSE 0)>>,
     <<"C05_Delays",
        \* (whole-tick parameters: the formula in ticks; in every case the recording policy's own exact comparison, b)
        /\ (e.ev = "SleepTime" /\ st.kind = "exc") => e.a = Backoff(st, e.k)
        /\ (e.ev = "SleepTime" /\ st.kind \in {"exc", "excf"}) => e.b # 0>>,
     <<"C05_RetriedIfPolicySaidSo",
        e.ev = "End" => \A f \in DOMAIN st.dec :
            (st.dec[f] = 1 /\ f \notin st.ccall /\ ~st.down /\ st.delay[f] >= 0
               /\ st.endt[f] + st.delay[f] + SLACK < e.t) => st.subs[f] > st.ended[f]>>,
     <<"C05_FinalOutcomeDelivered",   \* once the policy declined (or raised) the future carries the outcome
        e.ev = "End" => \A f \in DOMAIN st.dec :
            (st.dec[f] \in {0, 2} /\ f \notin st.ccall /\ ~st.down /\ st.open[f] = 0) => f \in st.fin>>,
     <<"C05_NotDoneBeforeFinal",
        ((e.ev = "Observed" /\ e.s = "FINISHED") \/ (e.ev = "Callback" /\ e.f \notin st.ccall)) /\ Has(st.dec, e.f) =>
            (st.open[e.f] = 0 /\ st.ended[e.f] >= 1 /\ (st.dec[e.f] \in {0, 2} \/ e.f \in st.ccall))>>,
     <<"C03_StoppedFinalisedAtOnce",   \* a refused cancel() stops the retries: once the attempt is over and the policy has
        \* answered, the future carries that attempt's outcome at once - not when some other submission's back-off ends
        (e.ev = "Observed" /\ e.s = "FINISHED" /\ st.exact /\ Has(st.dec, e.f) /\ st.dec[e.f] = 1
            /\ Has(st.cfalse, e.f) /\ Has(st.polt, e.f) /\ st.cfalse[e.f] <= st.polt[e.f]) =>
          e.t <= st.polt[e.f] + SLACK>>,
     <<"C05_FinalOutcome",
        (e.ev = "Observed" /\ e.s = "FINISHED" /\ Has(st.endo, e.f)) =>
            (IF st.endo[e.f][1] > 0 THEN 1 ELSE 0) = e.a /\ st.endo[e.f][2] = e.b>>,
     <<"C02_QueriesNeverRaise",       \* running() / done() / cancelled() of the returned future never raise
        e.ev = "ProbeRaise" => FALSE>>,
     <<"C06_TrueMeansNeverStarts",
        ((IsAttempt(e) \/ e.ev = "Invoke") /\ e.f \in st.ctrue) => FALSE>>,
     <<"C06_AnyCancelStopsRetry",
        (IsAttempt(e) /\ e.f \in st.cret) => FALSE>>,
     <<"C06_RunningMeansFalse",
        (e.ev = "CancelRet" /\ Has(st.crun, e.f) /\ st.crun[e.f] /\ e.f \in st.running) => e.a = 0>>,
     <<"C06_TrueSticks",
        (e.ev = "Observed" /\ e.s = "FINISHED") => e.f \notin st.ctrue>>,
     <<"C02_CancelNeverRaises",
        e.ev = "CancelRaise" => FALSE>>,
     <<"C18_WorkerSurvives",
        (e.ev = "ThreadExit" /\ e.a = 1 /\ e.r = "retry") => FALSE>> >>
=============================================================================
