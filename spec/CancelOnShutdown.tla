---------------------------- MODULE CancelOnShutdown ----------------------------
(* Implementation-shaped specification of CancelOnShutdownExecutor (more_executors/_impl/cancel_on_shutdown.py)
   at the granularity of the engine's visible synchronisation operations:

       visible primitives = the shutdown gate (ShutdownHelper._lock, held for the whole of submit()),
                            executor._lock (RLock over the tracked set), virtual-time sleeps.

   Threads:  Sub(j)  client submitting callable j at cfgS[j]
             Env(j)  the delegate's work for j: done Dur ticks after submission (its done-callback discards the
                     future from the tracked set, without any lock)
             SH      the one thread calling shutdown() at ShutdownAt, OBS the harness observer
   AsShipped_D2 = TRUE models upstream 2.11.4: shutdown() takes executor._lock and then the gate, submit() takes
   the gate and then executor._lock (ABBA deadlock: C11_ShutdownReturns / C04).  FALSE models the repaired code:
   shutdown() flips the gate first and only then takes executor._lock for the snapshot.
   Bug = "snapshot_before_gate" (seeded change C10-r3m1): the snapshot is taken under executor._lock FIRST and the
   gate is closed afterwards ("never hold our lock and the gate together"): a submit() that runs completely in
   between returns a future the sweep does not cover.
*)
EXTENDS ShutdownObs

CONSTANTS Jobs, SubmitTimes, Durs, ShutdownAt, Horizon, KeepHist, AsShipped_D2, Bug

NoOne == <<"none", 0>>
SH == <<"sh", 0>>
OBS == <<"obs", 0>>
Sub(j) == <<"sub", j>>
Env(j) == <<"env", j>>
Threads == {SH, OBS} \cup UNION {{Sub(j), Env(j)} : j \in Jobs}

VARIABLES cfgS, cfgD, pc, gate, lock, isdown, tracked, fst, edl, now, obs, viol, hist, actor,
          stale      \* Bug = "snapshot_before_gate" only: the copy of the tracked set taken before the gate was closed
cfg == <<cfgS, cfgD>>
vars == <<cfgS, cfgD, pc, gate, lock, isdown, tracked, fst, edl, now, obs, viol, hist, actor, stale>>

RECURSIVE Feed(_, _, _)
Feed(o, v, evs) ==
  IF evs = <<>> THEN <<o, v>>
  ELSE LET e == Head(evs)
           ff == FirstFailed(Clauses(o, e))
       IN Feed(ObsNext(o, e), IF v = "ok" THEN ff ELSE v, Tail(evs))
Emit(evs) ==
  LET r == Feed(obs, viol, evs) IN
    /\ obs' = r[1] /\ viol' = r[2]
    /\ hist' = IF KeepHist THEN hist \o [i \in 1..Len(evs) |-> <<evs[i].ev, evs[i].f, evs[i].t>>] ELSE hist
NoEmit == UNCHANGED <<obs, viol, hist>>

Init ==
  /\ cfgS \in [Jobs -> SubmitTimes] /\ cfgD \in [Jobs -> Durs]
  /\ pc = [t \in Threads |-> IF t = SH THEN "sh_sleep" ELSE IF t = OBS THEN "o_sleep"
                              ELSE IF t[1] = "sub" THEN "s_sleep" ELSE "e_idle"]
  /\ gate = NoOne /\ lock = NoOne /\ isdown = FALSE /\ tracked = {}
  /\ fst = [j \in Jobs |-> "new"] /\ edl = [j \in Jobs |-> -1] /\ now = 0
  /\ obs = ObsNext(ObsInit, Ev("Cfg", "-", "main", 0, -1, -1, 1, 1, -1, "", <<>>))
  /\ viol = "ok" /\ hist = <<>> /\ actor = <<"-", 0>> /\ stale = {}

\* ------------------------------------------------------------------ submit()
G_SSleep(j) == pc[Sub(j)] = "s_sleep" /\ now >= cfgS[j]
SSleep(j) ==
  /\ G_SSleep(j)
  /\ pc' = [pc EXCEPT ![Sub(j)] = "s_gate"]
  /\ Emit(<<E1("SubmitCall", "client", now, j)>>)
  /\ actor' = Sub(j)
  /\ UNCHANGED <<stale, cfg, gate, lock, isdown, tracked, fst, edl, now>>

G_SGate(j) == pc[Sub(j)] = "s_gate" /\ gate = NoOne
SGate(j) ==    \* with ensure_alive(): raise if shut down, else go for executor._lock
  /\ G_SGate(j)
  /\ IF isdown
       THEN /\ pc' = [pc EXCEPT ![Sub(j)] = "done"] /\ UNCHANGED gate
            /\ Emit(<<ESA("SubmitRaise", "client", now, j, "RuntimeError", 1, -1)>>)
       ELSE /\ gate' = Sub(j) /\ pc' = [pc EXCEPT ![Sub(j)] = "s_lock"] /\ NoEmit
  /\ actor' = Sub(j)
  /\ UNCHANGED <<stale, cfg, lock, isdown, tracked, fst, edl, now>>

G_SLock(j) == pc[Sub(j)] = "s_lock" /\ lock = NoOne
SLock(j) ==    \* with self._lock: delegate.submit; _futures.add; add_done_callback(discard); return
  /\ G_SLock(j)
  /\ tracked' = IF Bug = "no_track" THEN tracked ELSE tracked \cup {j}
  /\ fst' = [fst EXCEPT ![j] = "pending"]
  /\ edl' = [edl EXCEPT ![j] = now + cfgD[j]]
  /\ gate' = NoOne
  \* seeded model bug submit_cancels_late (change C10-r4m1): having left the gate, submit() looks at the flag and cancels
  \* the future itself if it finds it set - a second cancel() when the sweep has covered the future already
  /\ pc' = [pc EXCEPT ![Sub(j)] = IF Bug = "submit_cancels_late" THEN "s_late" ELSE "done", ![Env(j)] = "e_sleep"]
  /\ Emit(<<ES("DelegateSubmit", "client", now, j, "tap")>>
          \o (IF Bug = "submit_cancels_late" THEN <<>> ELSE <<E1("SubmitRet", "client", now, j)>>))
  /\ actor' = Sub(j)
  /\ UNCHANGED <<stale, cfg, lock, isdown, now>>

G_SLate(j) == pc[Sub(j)] = "s_late"
SLate(j) ==    \* (model bug only)
  /\ G_SLate(j)
  /\ pc' = [pc EXCEPT ![Sub(j)] = "done"]
  /\ IF isdown
       THEN /\ fst' = [fst EXCEPT ![j] = IF @ = "pending" THEN "cancelled" ELSE @]
            /\ tracked' = tracked \ {j}
            /\ Emit(<<ES("CancelArrived", "client", now, j, "tap"), E1("SubmitRet", "client", now, j)>>)
       ELSE /\ UNCHANGED <<fst, tracked>> /\ Emit(<<E1("SubmitRet", "client", now, j)>>)
  /\ actor' = Sub(j)
  /\ UNCHANGED <<stale, cfg, gate, lock, isdown, edl, now>>

\* ------------------------------------------------------------------ the delegate's work
G_EFinish(j) == pc[Env(j)] = "e_sleep" /\ now >= edl[j]
EFinish(j) ==
  /\ G_EFinish(j)
  /\ pc' = [pc EXCEPT ![Env(j)] = "done"]
  /\ IF fst[j] = "pending"
       THEN /\ fst' = [fst EXCEPT ![j] = "done"] /\ tracked' = tracked \ {j}
            /\ Emit(<<Ev("DelegateState", "-", "env", now, j, -1, -1, -1, 1, "FINISHED", <<>>)>>)
       ELSE /\ UNCHANGED <<fst, tracked>> /\ NoEmit
  /\ actor' = Env(j)
  /\ UNCHANGED <<stale, cfg, gate, lock, isdown, edl, now>>

\* ------------------------------------------------------------------ shutdown()
\* the sweep and what follows it, once the snapshot `stale` has been taken (no further visible operation)
RECURSIVE SweepEvents(_, _, _)
SweepEvents(snp, st, polled) ==   \* polled = FALSE: the cancel() calls; TRUE: the state changes seen after the step
  IF snp = {} THEN <<>>
  ELSE LET j == CHOOSE x \in snp : \A y \in snp : x <= y IN
         (IF ~polled THEN <<ES("CancelArrived", "shutdown", now, j, "tap")>>
          ELSE IF st[j] = "pending" THEN <<Ev("DelegateState", "-", "shutdown", now, j, -1, -1, -1, 1, "CANCELLED", <<>>)>>
          ELSE <<>>)
         \o SweepEvents(snp \ {j}, st, polled)
Finish(snp) ==
  /\ fst' = [j \in Jobs |-> IF j \in snp /\ fst[j] = "pending" THEN "cancelled" ELSE fst[j]]
  /\ tracked' = tracked \ {j \in snp : fst[j] = "pending"}
  /\ pc' = [pc EXCEPT ![SH] = "done"]
  /\ LET sw == IF Bug = "skip_one" /\ snp # {} THEN snp \ {CHOOSE x \in snp : TRUE} ELSE snp IN
       Emit(SweepEvents(sw, fst, FALSE) \o
            <<Ev("DelegateShutdown", "-", "shutdown", now, -1, -1, 1, 0, 0, "tap", <<>>),
              Ev("DelegateShutdownRet", "-", "shutdown", now, -1, -1, -1, -1, -1, "tap", <<>>),
              ES("ShutdownRet", "shutdown", now, -1, "top")>>
            \o SweepEvents(sw, fst, TRUE))

G_ShSleep == pc[SH] = "sh_sleep" /\ now >= ShutdownAt
ShSleep ==     \* shutdown() is called; first visible op: executor._lock (as shipped) / the gate (repaired)
  /\ G_ShSleep
  /\ pc' = [pc EXCEPT ![SH] = IF AsShipped_D2 THEN "sh_lock1" ELSE IF Bug = "snapshot_before_gate" THEN "sh_snap" ELSE "sh_gate"]
  /\ Emit(<<Ev("ShutdownCall", "-", "shutdown", now, -1, -1, 1, 0, 0, "top", <<>>)>>)
  /\ actor' = SH
  /\ UNCHANGED <<stale, cfg, gate, lock, isdown, tracked, fst, edl, now>>

G_ShLock1 == pc[SH] = "sh_lock1" /\ lock = NoOne
ShLock1 ==     \* (as shipped) with self._lock: ... self._shutdown() wants the gate
  /\ G_ShLock1
  /\ lock' = SH /\ pc' = [pc EXCEPT ![SH] = "sh_gate"]
  /\ actor' = SH /\ NoEmit
  /\ UNCHANGED <<stale, cfg, gate, isdown, tracked, fst, edl, now>>

G_ShSnap == pc[SH] = "sh_snap" /\ lock = NoOne
ShSnap ==      \* (model bug) with self._lock: futures = self._futures.copy()  - before the gate is closed
  /\ G_ShSnap
  /\ stale' = tracked /\ pc' = [pc EXCEPT ![SH] = "sh_gate"]
  /\ actor' = SH /\ NoEmit
  /\ UNCHANGED <<cfg, gate, lock, isdown, tracked, fst, edl, now>>

G_ShGate == pc[SH] = "sh_gate" /\ gate = NoOne
ShGate ==      \* the gate: set is_shutdown
  /\ G_ShGate
  /\ isdown' = TRUE
  /\ IF AsShipped_D2
       THEN /\ lock' = NoOne /\ Finish(tracked)            \* snapshot under the lock already held, then sweep
       ELSE IF Bug = "snapshot_before_gate"
       THEN /\ Finish(stale) /\ UNCHANGED lock               \* the stale snapshot is swept
       ELSE /\ pc' = [pc EXCEPT ![SH] = "sh_lock2"] /\ NoEmit /\ UNCHANGED <<lock, fst, tracked>>
  /\ actor' = SH
  /\ UNCHANGED <<stale, cfg, gate, edl, now>>

G_ShLock2 == pc[SH] = "sh_lock2" /\ lock = NoOne
ShLock2 ==     \* (repaired) with self._lock: snapshot; then sweep, delegate.shutdown
  /\ G_ShLock2
  \* seeded model bug snapshot_live_iteration (change C10-r5m1): the snapshot is a comprehension over the LIVE set, which the
  \* done-callbacks of finishing futures shrink without the lock: a completion in the middle of it raises ("Set changed
  \* size during iteration") out of shutdown() - after the flag was set, before the sweep and the delegate's shutdown
  /\ IF Bug = "snapshot_live_iteration"
       THEN /\ stale' = tracked /\ pc' = [pc EXCEPT ![SH] = "sh_iter"] /\ NoEmit /\ UNCHANGED <<fst, tracked>>
       ELSE /\ Finish(tracked) /\ UNCHANGED stale
  /\ actor' = SH
  /\ UNCHANGED <<cfg, gate, lock, isdown, edl, now>>

G_ShIter == pc[SH] = "sh_iter"
ShIter ==      \* (model bug only) the iteration ends: unharmed, or with the exception
  /\ G_ShIter
  /\ IF tracked = stale
       THEN Finish(tracked)
       ELSE /\ pc' = [pc EXCEPT ![SH] = "done"] /\ UNCHANGED <<fst, tracked>>
            /\ Emit(<<Ev("ShutdownRaise", "-", "shutdown", now, -1, -1, -1, -1, -1, "top", <<>>)>>)
  /\ actor' = SH
  /\ UNCHANGED <<stale, cfg, gate, lock, isdown, edl, now>>

G_OEnd == pc[OBS] = "o_sleep" /\ now >= Horizon
OEnd ==
  /\ G_OEnd
  /\ pc' = [pc EXCEPT ![OBS] = "done"]
  /\ Emit(<<E0("End", "main", now)>>)
  /\ actor' = OBS
  /\ UNCHANGED <<stale, cfg, gate, lock, isdown, tracked, fst, edl, now>>

AnyEnabled ==
  \/ \E j \in Jobs : G_SSleep(j) \/ G_SGate(j) \/ G_SLock(j) \/ G_SLate(j) \/ G_EFinish(j)
  \/ G_ShSleep \/ G_ShLock1 \/ G_ShSnap \/ G_ShGate \/ G_ShLock2 \/ G_ShIter \/ G_OEnd
Deadlines ==
  {cfgS[j] : j \in {x \in Jobs : pc[Sub(x)] = "s_sleep"}}
  \cup {edl[j] : j \in {x \in Jobs : pc[Env(x)] = "e_sleep"}}
  \cup (IF pc[SH] = "sh_sleep" THEN {ShutdownAt} ELSE {})
  \cup (IF pc[OBS] = "o_sleep" THEN {Horizon} ELSE {})
Tick ==
  /\ ~AnyEnabled /\ Deadlines # {}
  /\ now' = CHOOSE d \in Deadlines : \A x \in Deadlines : d <= x
  /\ actor' = <<"tick", 0>>
  /\ UNCHANGED <<stale, cfg, pc, gate, lock, isdown, tracked, fst, edl, obs, viol, hist>>

Next ==
  \/ \E j \in Jobs : SSleep(j) \/ SGate(j) \/ SLock(j) \/ SLate(j) \/ EFinish(j)
  \/ ShSleep \/ ShLock1 \/ ShSnap \/ ShGate \/ ShLock2 \/ ShIter \/ OEnd \/ Tick
Spec == Init /\ [][Next]_vars

ContractHolds == viol = "ok"
\* the lock-order cycle itself, as a state: submit holds the gate and wants the lock, shutdown the reverse
NoABBA == ~(\E j \in Jobs : pc[Sub(j)] = "s_lock" /\ pc[SH] = "sh_gate" /\ lock = SH)
View == <<cfg, pc, gate, lock, isdown, tracked, fst, edl, now, obs, viol, stale>>
=============================================================================
