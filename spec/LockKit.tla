---------------------------- MODULE LockKit ----------------------------
(* Operators shared by LockProg (hand-written lock programs of the API calls) and LockCases (lock programs
   extracted from recorded executions of the real code): how a set of threads, each running a program of
   acquire / release operations, steps, and when it is stuck.
     P     function thread -> program; a program is a sequence of <<"a", lock>> / <<"r", lock>>
     R     set of locks a thread may re-acquire while it owns them
     pos   thread -> index of its next operation;  held   thread -> sequence of locks it owns *)
EXTENDS Naturals, Sequences, FiniteSets

Owner(P, held, l) == {t \in DOMAIN P : \E i \in DOMAIN held[t] : held[t][i] = l}

CanStep(P, R, pos, held, t) ==
  /\ pos[t] <= Len(P[t])
  /\ LET op == P[t][pos[t]] IN
       op[1] = "a" => (Owner(P, held, op[2]) = {} \/ (Owner(P, held, op[2]) = {t} /\ op[2] \in R))

HeldAfter(P, pos, held, t) ==
  LET op == P[t][pos[t]] IN
    IF op[1] = "a" THEN Append(held[t], op[2]) ELSE SelectSeq(held[t], LAMBDA x : x # op[2])

AllDone(P, pos) == \A t \in DOMAIN P : pos[t] > Len(P[t])

\* every unfinished thread waits for a lock that another thread owns
Stuck(P, R, pos, held) == ~AllDone(P, pos) /\ \A t \in DOMAIN P : ~CanStep(P, R, pos, held, t)
=============================================================================
