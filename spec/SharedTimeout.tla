---------------------------- MODULE SharedTimeout ----------------------------
(* f_timeout(future, t) and the executor it shares (more_executors/_impl/futures/timeout.py):

       LOCK = Lock(); EXECUTOR_REF = None                      # module level
       def f_timeout(future, timeout):
           return timeout_executor().submit_timeout(timeout, lambda: future)
       def timeout_executor():
           with LOCK:
               executor = EXECUTOR_REF and EXECUTOR_REF()       # weak reference: None once collected
               if not executor:
                   executor = Executors.sync().with_flat_map(..).with_timeout(None)   # starts a worker thread
                   EXECUTOR_REF = weakref.ref(executor)
               return executor

   Nobody but the library ever holds this executor.  What keeps it alive is (a) the local variable of a call in
   progress, (b) every future it returned that is still pending (its done-callback is a bound method of the
   executor; the callbacks are dropped when the future is done), (c) the local variable of the worker loop while
   it works on one iteration (WorkerLoop.tla).  When the last of these goes the object is freed at once (reference
   counting), the weakref callback sets the worker's event and the worker finds its reference dead and exits.  The
   next f_timeout() then builds a new executor with a new thread.

   Clients 1..NC each call f_timeout once; their input completes by itself (Complete) or not; the deadline passes
   (Due) at any moment after the submission; clients keep the future they got for ever (the strongest case for
   "a done future must not keep the executor alive").

   Checked on every interleaving of the clients' calls, the completions, the deadlines and every executor's worker
   loop (C09 / C12 for this entry point):
     * Settled            at quiescence no future is pending (a deadline that passed was applied: no job was
                          left on an executor whose thread is gone or sleeps without a timer),
     * ThreadsGone        at quiescence every worker thread that was started has exited,
     * NoLostJob          a pending future's executor is alive and its thread has not exited,
     * AtMostOneAlive     LOCK + weak reference: never two live shared executors,
     * ContractHolds      the C12 contract (ReclaimObs) on the events the model emits.
*)
EXTENDS ReclaimObs

CONSTANTS NC,        \* number of clients (= bound on executors ever created)
          MaxSelf,   \* at most this many inputs complete by themselves (the others are ended by their deadline)
          Bug

Clients == 1..NC
Execs == 1..NC

VARIABLES lock,      \* owner of the module lock (0 = free)
          ref,       \* referent of EXECUTOR_REF (0 = None); weak
          alive,     \* executors not yet freed
          nexec,     \* executors created so far
          cpc, clocal,       \* per client: program counter, strong local reference (0 = none)
          fut, fexec, due,   \* per client: state of the returned future, its executor, deadline passed
          jobs,      \* per executor: job list
          wpc, wref, wtj, evt,   \* per executor: worker pc, worker's strong local ref, jobs the timer was armed for, event
          willc,     \* per client: its input completes by itself at some point (otherwise only the deadline ends it)
          ended, obs, viol
vars == <<lock, ref, alive, nexec, cpc, clocal, fut, fexec, due, jobs, wpc, wref, wtj, evt, willc, ended, obs, viol>>

RECURSIVE Feed(_, _, _)
Feed(o, v, evs) ==
  IF evs = <<>> THEN <<o, v>>
  ELSE LET e == Head(evs)
           ff == FirstFailed(Clauses(o, e))
       IN Feed(ObsNext(o, e), IF v = "ok" THEN ff ELSE v, Tail(evs))
Emit(evs) == LET r == Feed(obs, viol, evs) IN obs' = r[1] /\ viol' = r[2]
NoEmit == UNCHANGED <<obs, viol>>

WName(e) == IF e = 1 THEN "TimeoutExecutor-internal" ELSE "TimeoutExecutor-internal#" \o ToString(e - 1)
EvThread(ev, e, a) == Ev(ev, WName(e), "timeout", 0, -1, -1, a, -1, -1, WName(e), <<>>)
EvObserved(c, s) == Ev("Observed", "-", "timeout", 0, c, -1, -1, -1, -1, s, <<>>)
EvPending(c) == Ev("Pending", "-", "client", 0, c, -1, -1, -1, -1, "", <<>>)

\* strong references to executor e
FutHolds(c, e) == fexec[c] = e /\ (fut[c] = "pending" \/ (Bug = "done_future_keeps_executor" /\ fut[c] # "none"))
Held(e) == wref[e] \/ (\E c \in Clients : clocal[c] = e \/ FutHolds(c, e))
Collectable == {e \in alive : ~Held(e)}

Init ==
  /\ lock = 0 /\ ref = 0 /\ alive = {} /\ nexec = 0
  /\ cpc = [c \in Clients |-> "start"] /\ clocal = [c \in Clients |-> 0]
  /\ fut = [c \in Clients |-> "none"] /\ fexec = [c \in Clients |-> 0] /\ due = [c \in Clients |-> FALSE]
  /\ jobs = [e \in Execs |-> {}]
  /\ wpc = [e \in Execs |-> "none"] /\ wref = [e \in Execs |-> FALSE] /\ wtj = [e \in Execs |-> {}]
  /\ evt = [e \in Execs |-> FALSE]
  /\ willc \in {w \in [Clients -> BOOLEAN] : Cardinality({c \in Clients : w[c]}) <= MaxSelf}
  /\ ended = FALSE
  \* nobody but the library ever refers to the shared executor: "the last user reference is dropped" from the start
  /\ obs = ObsNext(ObsInit, Ev("Action", "-", "main", 0, -1, -1, -1, -1, -1, "drop", <<>>))
  /\ viol = "ok"

\* ------------------------------------------------------------------ reference counting: freed at once
Collect(e) ==
  /\ e \in Collectable
  /\ alive' = alive \ {e}
  /\ evt' = IF Bug = "no_weakref_callback" THEN evt ELSE [evt EXCEPT ![e] = TRUE]     \* weakref.ref(self, lambda _: event.set())
  /\ NoEmit
  /\ UNCHANGED <<lock, ref, nexec, cpc, clocal, fut, fexec, due, jobs, wpc, wref, wtj, willc, ended>>

Quiet == Collectable = {}      \* every other step waits for pending frees (they happen inside the dropping step)

\* ------------------------------------------------------------------ a client's f_timeout()
CLock(c) ==
  /\ Quiet /\ cpc[c] = "start" /\ (lock = 0 \/ Bug = "no_lock")
  /\ lock' = c /\ cpc' = [cpc EXCEPT ![c] = "locked"]
  /\ NoEmit
  /\ UNCHANGED <<ref, alive, nexec, clocal, fut, fexec, due, jobs, wpc, wref, wtj, evt, willc, ended>>

\* executor = EXECUTOR_REF and EXECUTOR_REF(): a strong reference, or None
CDeref(c) ==
  /\ Quiet /\ cpc[c] = "locked"
  /\ clocal' = [clocal EXCEPT ![c] = IF ref \in alive THEN ref ELSE 0]
  /\ cpc' = [cpc EXCEPT ![c] = "derefd"]
  /\ NoEmit
  /\ UNCHANGED <<lock, ref, alive, nexec, fut, fexec, due, jobs, wpc, wref, wtj, evt, willc, ended>>

\* if not executor: build one (its constructor starts the worker thread) and publish the weak reference
CCreate(c) ==
  /\ Quiet /\ cpc[c] = "derefd"
  /\ IF clocal[c] # 0
       THEN UNCHANGED <<ref, alive, nexec, clocal, wpc>> /\ NoEmit
       ELSE LET n == nexec + 1 IN
            /\ nexec' = n /\ alive' = alive \cup {n} /\ clocal' = [clocal EXCEPT ![c] = n]
            /\ ref' = IF Bug = "ref_not_published" THEN ref ELSE n
            /\ wpc' = [wpc EXCEPT ![n] = "top"]
            /\ Emit(<<EvThread("ThreadStart", n, -1)>>)
  /\ cpc' = [cpc EXCEPT ![c] = "have"]
  /\ UNCHANGED <<lock, fut, fexec, due, jobs, wref, wtj, evt, willc, ended>>

CUnlock(c) ==
  /\ Quiet /\ cpc[c] = "have"
  /\ lock' = (IF lock = c THEN 0 ELSE lock) /\ cpc' = [cpc EXCEPT ![c] = "released"]
  /\ NoEmit
  /\ UNCHANGED <<ref, alive, nexec, clocal, fut, fexec, due, jobs, wpc, wref, wtj, evt, willc, ended>>

\* submit_timeout(): the future exists (its done-callback refers to the executor), the job is appended ...
CAppend(c) ==
  /\ Quiet /\ cpc[c] = "released"
  /\ fut' = [fut EXCEPT ![c] = "pending"] /\ fexec' = [fexec EXCEPT ![c] = clocal[c]]
  /\ jobs' = [jobs EXCEPT ![clocal[c]] = @ \cup {c}]
  /\ cpc' = [cpc EXCEPT ![c] = "appended"]
  /\ Emit(<<EvPending(c)>>)
  /\ UNCHANGED <<lock, ref, alive, nexec, clocal, due, wpc, wref, wtj, evt, willc, ended>>

\* ... and the worker is woken
CSet(c) ==
  /\ Quiet /\ cpc[c] = "appended"
  /\ evt' = IF Bug = "no_set_on_submit" THEN evt ELSE [evt EXCEPT ![clocal[c]] = TRUE]
  /\ cpc' = [cpc EXCEPT ![c] = "set"]
  /\ NoEmit
  /\ UNCHANGED <<lock, ref, alive, nexec, clocal, fut, fexec, due, jobs, wpc, wref, wtj, willc, ended>>

\* f_timeout returns: the frame's reference to the executor goes away
CReturn(c) ==
  /\ Quiet /\ cpc[c] = "set"
  /\ clocal' = [clocal EXCEPT ![c] = 0] /\ cpc' = [cpc EXCEPT ![c] = "returned"]
  /\ NoEmit
  /\ UNCHANGED <<lock, ref, alive, nexec, fut, fexec, due, jobs, wpc, wref, wtj, evt, willc, ended>>

\* ------------------------------------------------------------------ the environment
\* the input completes: the returned future is done, its callbacks run (_on_future_done: event.set()) and are dropped
Complete(c) ==
  /\ Quiet /\ fut[c] = "pending" /\ willc[c]
  /\ fut' = [fut EXCEPT ![c] = "done"]
  /\ evt' = [evt EXCEPT ![fexec[c]] = TRUE]
  /\ Emit(<<EvObserved(c, "FINISHED")>>)
  /\ UNCHANGED <<lock, ref, alive, nexec, cpc, clocal, fexec, due, jobs, wpc, wref, wtj, willc, ended>>

\* the deadline of c's future passes
Due(c) ==
  /\ Quiet /\ fut[c] = "pending" /\ ~due[c]
  /\ due' = [due EXCEPT ![c] = TRUE]
  /\ NoEmit
  /\ UNCHANGED <<lock, ref, alive, nexec, cpc, clocal, fut, fexec, jobs, wpc, wref, wtj, evt, willc, ended>>

\* ------------------------------------------------------------------ the worker loop of executor e
WDeref(e) ==      \* executor = executor_ref(); if not executor: break
  /\ Quiet /\ wpc[e] = "top"
  /\ IF e \in alive
       THEN wref' = [wref EXCEPT ![e] = TRUE] /\ wpc' = [wpc EXCEPT ![e] = "work"] /\ NoEmit
       ELSE UNCHANGED wref /\ wpc' = [wpc EXCEPT ![e] = "exited"] /\ Emit(<<EvThread("ThreadExit", e, 0)>>)
  /\ UNCHANGED <<lock, ref, alive, nexec, cpc, clocal, fut, fexec, due, jobs, wtj, evt, willc, ended>>

\* partition under the jobs lock: done futures are discarded, overdue ones taken out
WPartition(e) ==
  /\ Quiet /\ wpc[e] = "work"
  /\ jobs' = [jobs EXCEPT ![e] = {c \in @ : fut[c] = "pending" /\ ~due[c]}]
  /\ wtj' = [wtj EXCEPT ![e] = {c \in jobs[e] : fut[c] = "pending"}]     \* (overdue ones first; see WCancel)
  /\ wpc' = [wpc EXCEPT ![e] = "cancel"]
  /\ NoEmit
  /\ UNCHANGED <<lock, ref, alive, nexec, cpc, clocal, fut, fexec, due, wref, evt, willc, ended>>

Overdue(e) == {c \in wtj[e] : c \notin jobs[e]}
\* cancel one overdue future (outside the lock); its callbacks set the event
WCancel(e) ==
  /\ Quiet /\ wpc[e] = "cancel" /\ Overdue(e) # {}
  /\ LET c == CHOOSE x \in Overdue(e) : TRUE IN
       /\ wtj' = [wtj EXCEPT ![e] = @ \ {c}]
       /\ IF fut[c] = "pending"
            THEN /\ fut' = [fut EXCEPT ![c] = "done"] /\ evt' = [evt EXCEPT ![e] = TRUE]
                 /\ Emit(<<EvObserved(c, "CANCELLED_AND_NOTIFIED")>>)
            ELSE UNCHANGED <<fut, evt>> /\ NoEmit
  /\ UNCHANGED <<lock, ref, alive, nexec, cpc, clocal, fexec, due, jobs, wpc, wref, willc, ended>>

\* the wait time is computed from the pending jobs; the frame ends: `del executor`
WDel(e) ==
  /\ Quiet /\ wpc[e] = "cancel" /\ Overdue(e) = {}
  /\ wref' = [wref EXCEPT ![e] = (Bug = "worker_keeps_ref")]
  /\ wpc' = [wpc EXCEPT ![e] = "wait"]
  /\ NoEmit
  /\ UNCHANGED <<lock, ref, alive, nexec, cpc, clocal, fut, fexec, due, jobs, wtj, evt, willc, ended>>

WWait(e) ==       \* event.wait(wait_time)
  /\ Quiet /\ wpc[e] = "wait"
  /\ wpc' = [wpc EXCEPT ![e] = IF evt[e] THEN "clear" ELSE "blocked"]
  /\ NoEmit
  /\ UNCHANGED <<lock, ref, alive, nexec, cpc, clocal, fut, fexec, due, jobs, wref, wtj, evt, willc, ended>>

\* woken by the event, or by the timer armed for the earliest deadline among the jobs that were pending
WWake(e) ==
  /\ Quiet /\ wpc[e] = "blocked" /\ (evt[e] \/ \E c \in wtj[e] : due[c])
  /\ wpc' = [wpc EXCEPT ![e] = "clear"]
  /\ NoEmit
  /\ UNCHANGED <<lock, ref, alive, nexec, cpc, clocal, fut, fexec, due, jobs, wref, wtj, evt, willc, ended>>

WClear(e) ==
  /\ Quiet /\ wpc[e] = "clear"
  /\ evt' = [evt EXCEPT ![e] = FALSE] /\ wpc' = [wpc EXCEPT ![e] = "top"]
  /\ NoEmit
  /\ UNCHANGED <<lock, ref, alive, nexec, cpc, clocal, fut, fexec, due, jobs, wref, wtj, willc, ended>>

Core ==
  \/ \E e \in Execs : Collect(e) \/ WDeref(e) \/ WPartition(e) \/ WCancel(e) \/ WDel(e) \/ WWait(e) \/ WWake(e) \/ WClear(e)
  \/ \E c \in Clients : CLock(c) \/ CDeref(c) \/ CCreate(c) \/ CUnlock(c) \/ CAppend(c) \/ CSet(c) \/ CReturn(c)
                        \/ Complete(c) \/ Due(c)

Quiescent == ~ENABLED Core

Finish ==
  /\ Quiescent /\ ~ended
  /\ ended' = TRUE
  /\ Emit(<<Ev("End", "main", "main", 0, -1, -1, -1, -1, -1, "", <<>>)>>)
  /\ UNCHANGED <<lock, ref, alive, nexec, cpc, clocal, fut, fexec, due, jobs, wpc, wref, wtj, evt, willc>>

Next == Core \/ Finish
Spec == Init /\ [][Next]_vars

\* ------------------------------------------------------------------ properties
Settled        == Quiescent => \A c \in Clients : fut[c] = "done"
ThreadsGone    == Quiescent => \A e \in Execs : wpc[e] \in {"none", "exited"}
NoLostJob      == \A c \in Clients : fut[c] = "pending" => (fexec[c] \in alive /\ wpc[fexec[c]] # "exited")
AtMostOneAlive == Cardinality(alive) <= 1
EveryoneServed == Quiescent => \A c \in Clients : cpc[c] = "returned"
ContractHolds  == viol = "ok"
=============================================================================
