---------------------------- MODULE FutureImpl ----------------------------
(* Implementation-shaped specification of the library's derived future (_Future / MapFuture in
   more_executors/_impl/common.py and map.py) under concurrent use: the re-implemented callback list, the
   per-future RLock `_me_lock`, cancel() = veto through the delegate, then the stdlib cancel and notification,
   callbacks always invoked outside the lock.

   visible primitive = the future's _me_lock; one action = acquire it, do the critical section, release,
   run up to the next acquisition.  Threads:
       SET      the delegate's completion: done-callback -> set_result / set_exception under the lock,
                then _me_invoke_callbacks() outside it
       XC       somebody else cancels the delegate (then _me_delegate_cancelled(), repaired D3)
       Can(i)   clients calling cancel()
       Add(k)   clients calling add_done_callback(cb_k)
       W        a client blocked in result()
   How / when each of them acts is chosen by TLC (all interleavings); Outcome \in {"value", "xcancel", "never"}.
*)
EXTENDS FutureObs

CONSTANTS NCan, NAdd, Outcomes, DelegateCancellable, Bug

NoOne == <<"none", 0>>
SET == <<"set", 0>>
W == <<"w", 0>>
W2 == <<"w", 2>>      \* a second client, blocked in concurrent.futures.wait(): released through the future's waiter list,
                      \* i.e. by set_result / set_exception / set_running_or_notify_cancel - not by the bare cancel()
Can(i) == <<"can", i>>
Add(k) == <<"add", k>>
Threads == {SET, W, W2} \cup {Can(i) : i \in 1..NCan} \cup {Add(k) : k \in 1..NAdd}

VARIABLES outcome, pc, lock, state, cbs, dstate, cancelling, torun, obs, viol, actor
vars == <<outcome, pc, lock, state, cbs, dstate, cancelling, torun, obs, viol, actor>>

RECURSIVE Feed(_, _, _)
Feed(o, v, evs) ==
  IF evs = <<>> THEN <<o, v>>
  ELSE LET e == Head(evs)
           ff == FirstFailed(Clauses(o, e))
       IN Feed(ObsNext(o, e), IF v = "ok" THEN ff ELSE v, Tail(evs))
Emit(evs) == LET r == Feed(obs, viol, evs) IN obs' = r[1] /\ viol' = r[2]
NoEmit == UNCHANGED <<obs, viol>>
EvT(ev, thr, f, k, a, b, s) == Ev(ev, thr, "client", 0, f, k, a, b, -1, s, <<>>)
ThrName(t) == IF t[1] = "can" THEN (IF t[2] = 1 THEN "can1" ELSE "can2") ELSE "t"

Init ==
  /\ outcome \in Outcomes
  /\ pc = [t \in Threads |-> IF t = SET THEN "start" ELSE IF t \in {W, W2} THEN "w_call" ELSE "call"]
  /\ lock = NoOne /\ state = "PENDING" /\ cbs = <<>> /\ dstate = "pending" /\ cancelling = FALSE
  /\ torun = [t \in Threads |-> <<>>]
  /\ obs = ObsInit /\ viol = "ok" /\ actor = NoOne

Done == state # "PENDING"

\* ---------------------------------------------------------------- completion through the delegate
SetDelegate ==  \* the delegate finishes (value) or is cancelled by someone else; its callback wants our lock
  /\ pc[SET] = "start" /\ outcome # "never" /\ dstate = "pending"
  /\ dstate' = IF outcome = "value" THEN "done" ELSE "cancelled"
  /\ pc' = [pc EXCEPT ![SET] = "lock"]
  /\ actor' = SET /\ NoEmit
  /\ UNCHANGED <<outcome, lock, state, cbs, cancelling, torun>>

SetLocked ==    \* with _me_lock: set_result (or, for a cancelled delegate, cancel + notify); take the callbacks
  /\ pc[SET] = "lock" /\ lock = NoOne
  /\ IF Done \/ (dstate = "cancelled" /\ cancelling)
       THEN \* try_set_result on a finished future is tolerated; our own cancel() handles its delegate
            /\ pc' = [pc EXCEPT ![SET] = "done"] /\ UNCHANGED <<state, cbs, torun>> /\ NoEmit
       \* seeded model bug no_notify_on_xcancel (change C02-r4m1): _me_delegate_cancelled leaves out
       \* set_running_or_notify_cancel(): the state stays CANCELLED, wait() / as_completed() are never told
       ELSE /\ state' = IF dstate = "done" THEN "FINISHED"
                         ELSE IF Bug = "no_notify_on_xcancel" THEN "CANCELLED" ELSE "CANCELLED_AND_NOTIFIED"
            /\ torun' = [torun EXCEPT ![SET] = cbs]
            /\ cbs' = IF Bug = "keep_callbacks" THEN cbs ELSE <<>>
            /\ pc' = [pc EXCEPT ![SET] = "invoke"]
            /\ Emit(<<EvT("Observed", "set", 1, -1, IF dstate = "done" THEN 0 ELSE -1, IF dstate = "done" THEN 7 ELSE -1,
                          IF dstate = "done" THEN "FINISHED"
                          ELSE IF Bug = "no_notify_on_xcancel" THEN "CANCELLED" ELSE "CANCELLED_AND_NOTIFIED")>>)
  /\ actor' = SET
  /\ UNCHANGED <<outcome, lock, dstate, cancelling>>

Invoke(t) ==    \* _me_invoke_callbacks(), outside the lock: one callback per step
  /\ pc[t] = "invoke"
  /\ IF torun[t] = <<>>
       THEN /\ pc' = [pc EXCEPT ![t] = IF t[1] = "can" THEN "ret_true" ELSE "done"] /\ NoEmit /\ UNCHANGED torun
       \* (callback 1 raises; the loop logs it and goes on.  Seeded model bug stop_at_raising_callback (change C02-r4m2):
       \*  the try/except sits around the whole loop and the list was swapped out first - the rest is discarded)
       ELSE /\ torun' = [torun EXCEPT ![t] = IF Bug = "stop_at_raising_callback" /\ Head(@) = 1 THEN <<>> ELSE Tail(@)]
            /\ UNCHANGED pc
            /\ Emit(<<EvT("Callback", "t", 1, Head(torun[t]), IF Done THEN 1 ELSE 0, -1, "")>>)
  /\ actor' = t
  /\ UNCHANGED <<outcome, lock, state, cbs, dstate, cancelling>>

\* ---------------------------------------------------------------- cancel()
CanCall(i) ==
  /\ pc[Can(i)] = "call"
  /\ pc' = [pc EXCEPT ![Can(i)] = "lock"]
  /\ Emit(<<EvT("CancelCall", ThrName(Can(i)), 1, -1, -1, -1, "")>>)
  /\ actor' = Can(i)
  /\ UNCHANGED <<outcome, lock, state, cbs, dstate, cancelling, torun>>

CanLocked(i) == \* with _me_lock: cancelled? done? _me_cancel() -> delegate.cancel(); stdlib cancel; notify
  /\ pc[Can(i)] = "lock" /\ lock = NoOne
  /\ LET t == Can(i) IN
     IF state \in CancelledStates
       THEN /\ pc' = [pc EXCEPT ![t] = "done"] /\ UNCHANGED <<state, cbs, torun, dstate>>
            /\ Emit(<<EvT("CancelRet", ThrName(t), 1, -1, 1, -1, "")>>)
       ELSE IF Done \/ ~(dstate = "cancelled" \/ (dstate = "pending" /\ DelegateCancellable))
         THEN \* finished already, or the delegate refuses (running / done)
              /\ pc' = [pc EXCEPT ![t] = "done"] /\ UNCHANGED <<state, cbs, torun, dstate>>
              /\ Emit(<<EvT("CancelRet", ThrName(t), 1, -1, IF Bug = "true_when_done" /\ Done THEN 1 ELSE 0, -1, "")>>)
         ELSE /\ dstate' = "cancelled"
              /\ state' = "CANCELLED_AND_NOTIFIED"
              /\ torun' = [torun EXCEPT ![t] = cbs]
              /\ cbs' = <<>>
              /\ pc' = [pc EXCEPT ![t] = "invoke"]
              /\ Emit(<<EvT("Observed", ThrName(t), 1, -1, -1, -1, "CANCELLED_AND_NOTIFIED")>>)
  /\ actor' = Can(i)
  /\ UNCHANGED <<outcome, lock, cancelling>>

CanRet(i) ==
  /\ pc[Can(i)] = "ret_true"
  /\ pc' = [pc EXCEPT ![Can(i)] = "done"]
  /\ Emit(<<EvT("CancelRet", ThrName(Can(i)), 1, -1, 1, -1, "")>>)
  /\ actor' = Can(i)
  /\ UNCHANGED <<outcome, lock, state, cbs, dstate, cancelling, torun>>

\* ---------------------------------------------------------------- add_done_callback()
AddCall(k) ==
  /\ pc[Add(k)] = "call"
  /\ pc' = [pc EXCEPT ![Add(k)] = "lock"]
  /\ Emit(<<EvT("AddCbCall", "t", 1, k, -1, -1, "")>>)
  /\ actor' = Add(k)
  /\ UNCHANGED <<outcome, lock, state, cbs, dstate, cancelling, torun>>

AddLocked(k) == \* with _me_lock: not done -> append and return; done -> call it directly (outside the lock)
  /\ pc[Add(k)] = "lock" /\ lock = NoOne
  /\ IF ~Done \/ Bug = "append_when_done"
       THEN /\ cbs' = Append(cbs, k) /\ pc' = [pc EXCEPT ![Add(k)] = "done"]
            /\ Emit(<<EvT("AddCbRet", "t", 1, k, -1, -1, "")>>)
       ELSE /\ UNCHANGED cbs /\ pc' = [pc EXCEPT ![Add(k)] = "direct"] /\ NoEmit
  /\ actor' = Add(k)
  /\ UNCHANGED <<outcome, lock, state, dstate, cancelling, torun>>

AddDirect(k) ==
  /\ pc[Add(k)] = "direct"
  /\ pc' = [pc EXCEPT ![Add(k)] = "done"]
  /\ Emit(<<EvT("Callback", "t", 1, k, 1, -1, ""), EvT("AddCbRet", "t", 1, k, -1, -1, "")>>)
  /\ actor' = Add(k)
  /\ UNCHANGED <<outcome, lock, state, cbs, dstate, cancelling, torun>>

\* ---------------------------------------------------------------- a waiter in result()
WCall ==
  /\ pc[W] = "w_call"
  /\ pc' = [pc EXCEPT ![W] = "w_wait"]
  /\ Emit(<<EvT("WaitCall", "t", 1, 1, -1, -1, "result")>>)
  /\ actor' = W
  /\ UNCHANGED <<outcome, lock, state, cbs, dstate, cancelling, torun>>
WRet ==         \* the condition is notified by every completion
  /\ pc[W] = "w_wait" /\ Done
  /\ pc' = [pc EXCEPT ![W] = "done"]
  /\ Emit(<<EvT("WaitRet", "t", 1, 1, -1, -1, "")>>)
  /\ actor' = W
  /\ UNCHANGED <<outcome, lock, state, cbs, dstate, cancelling, torun>>

WCall2 ==
  /\ pc[W2] = "w_call"
  /\ pc' = [pc EXCEPT ![W2] = "w_wait"]
  /\ Emit(<<EvT("WaitCall", "t", 1, 2, -1, -1, "wait")>>)
  /\ actor' = W2
  /\ UNCHANGED <<outcome, lock, state, cbs, dstate, cancelling, torun>>
WRet2 ==        \* the waiter list is notified by FINISHED / CANCELLED_AND_NOTIFIED only
  /\ pc[W2] = "w_wait" /\ state \in {"FINISHED", "CANCELLED_AND_NOTIFIED"}
  /\ pc' = [pc EXCEPT ![W2] = "done"]
  /\ Emit(<<EvT("WaitRet", "t", 1, 2, -1, -1, "")>>)
  /\ actor' = W2
  /\ UNCHANGED <<outcome, lock, state, cbs, dstate, cancelling, torun>>

Quiescent == \A t \in Threads : /\ pc[t] \in {"done", "w_wait", "start"}
                                  /\ (pc[t] = "start" => outcome = "never")
                                  /\ (pc[t] = "w_wait" /\ t = W => ~Done)      \* nothing is enabled any more
                                  /\ (pc[t] = "w_wait" /\ t = W2 => state \notin {"FINISHED", "CANCELLED_AND_NOTIFIED"})
Finish ==       \* the harness' End
  /\ Quiescent /\ actor # <<"end", 0>>
  /\ Emit(<<EvT("End", "main", -1, -1, -1, -1, "")>>)
  /\ actor' = <<"end", 0>>
  /\ UNCHANGED <<outcome, pc, lock, state, cbs, dstate, cancelling, torun>>

Next ==
  \/ SetDelegate \/ SetLocked \/ (\E t \in Threads : Invoke(t))
  \/ (\E i \in 1..NCan : CanCall(i) \/ CanLocked(i) \/ CanRet(i))
  \/ (\E k \in 1..NAdd : AddCall(k) \/ AddLocked(k) \/ AddDirect(k))
  \/ WCall \/ WRet \/ WCall2 \/ WRet2 \/ Finish
Spec == Init /\ [][Next]_vars

ContractHolds == viol = "ok"
\* no callback is left behind in the list of a finished future once everybody is done
NoCallbackLeft == Quiescent /\ Done => cbs = <<>>
View == <<outcome, pc, lock, state, cbs, dstate, cancelling, torun, obs, viol>>
=============================================================================
