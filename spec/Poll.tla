---------------------------- MODULE Poll ----------------------------
(* Implementation-shaped specification of PollExecutor (more_executors/_impl/poll.py) at the granularity of the
   engine's visible synchronisation operations:

       visible primitives = the shutdown gate, executor._lock (RLock over _poll_descriptors; note that
                            _register_poll calls _poll_event.set() while holding it), executor._poll_event,
                            virtual-time sleeps of the driver threads.

   The per-future lock is never held across a visible operation here (set_result / cancel release it before
   running callbacks), so resolving a future is atomic in this model.

   Threads:  Sub(j)   client submitting callable j at cfgS[j]   (submit() has no visible op after the gate)
             Env(j)   the delegate's work: ends Dur ticks after submission, fails if cfgFail[j]; its
                      done-callback registers the descriptor (or fails the future)
             Can(j)   client calling cancel() at cfgK[j] (>= 90000: never)
             NOTIF    client calling notify() at NotifyAt (>= 90000: never)
             LOOP     _poll_loop; the poll function yields a value for future j on the cfgY[j]-th call that shows
                      it (0 = never) and raises on call number PollRaiseAt (0 = never)
   CancelFn \in {"none", "true", "false", "raise"}.
*)
EXTENDS PollObs

CONSTANTS Jobs, SubmitTimes, Dur, YieldAt, FailVals, CancelTimes, NotifyAt, PollRaiseAt, CancelFn, Interval,
          PollDur,       \* virtual time the poll function takes before it yields / raises (0: none): delegates may
                         \* complete - and register descriptors - while a call is in progress
          Horizon, KeepHist, Bug

NoOne == <<"none", 0>>
LOOP == <<"loop", 0>>
OBS  == <<"obs", 0>>
NOTIF == <<"notif", 0>>
Sub(j) == <<"sub", j>>
Env(j) == <<"env", j>>
Can(j) == <<"can", j>>
Threads == {LOOP, OBS, NOTIF} \cup UNION {{Sub(j), Env(j), Can(j)} : j \in Jobs}

VARIABLES cfgS, cfgY, cfgFail, cfgK,
          pc, descs, lock, gate, evt, woken, fst, stage, calls, snap, pos, seen, wdl, edl, cdl, now,
          cpos, cfound,   \* Bug = "dereg_in_place" only: index and result of a canceller's unlocked scan of the LIVE list
          obs, viol, hist, actor

cfg  == <<cfgS, cfgY, cfgFail, cfgK>>
vars == <<cfgS, cfgY, cfgFail, cfgK, pc, descs, lock, gate, evt, woken, fst, stage, calls, snap, pos, seen, wdl,
          edl, cdl, now, cpos, cfound, obs, viol, hist, actor>>
scan == <<cpos, cfound>>

RECURSIVE Feed(_, _, _)
Feed(o, v, evs) ==
  IF evs = <<>> THEN <<o, v>>
  ELSE LET e == Head(evs)
           ff == FirstFailed(Clauses(o, e))
       IN Feed(ObsNext(o, e), IF v = "ok" THEN ff ELSE v, Tail(evs))
Emit(evs) ==
  LET r == Feed(obs, viol, evs) IN
    /\ obs' = r[1] /\ viol' = r[2]
    /\ hist' = IF KeepHist THEN hist \o [i \in 1..Len(evs) |-> <<evs[i].ev, evs[i].f, evs[i].t>>] ELSE hist
NoEmit == UNCHANGED <<obs, viol, hist>>

Init ==
  /\ cfgS \in [Jobs -> SubmitTimes] /\ cfgY \in [Jobs -> YieldAt] /\ cfgFail \in [Jobs -> FailVals]
  /\ cfgK \in [Jobs -> CancelTimes]
  /\ pc = [t \in Threads |-> IF t = LOOP THEN "l_top" ELSE IF t = OBS THEN "o_sleep"
                              ELSE IF t = NOTIF THEN (IF NotifyAt < 90000 THEN "n_sleep" ELSE "done")
                              ELSE IF t[1] = "sub" THEN "s_sleep" ELSE IF t[1] = "env" THEN "e_idle" ELSE "c_idle"]
  /\ descs = <<>> /\ lock = NoOne /\ gate = NoOne /\ evt = FALSE /\ woken = FALSE
  /\ fst = [j \in Jobs |-> "new"] /\ stage = [j \in Jobs |-> "none"]
  /\ calls = 0 /\ snap = <<>> /\ pos = 1 /\ seen = [j \in Jobs |-> 0]
  /\ wdl = -1 /\ edl = [j \in Jobs |-> -1] /\ cdl = -1 /\ now = 0
  /\ cpos = [j \in Jobs |-> 0] /\ cfound = [j \in Jobs |-> FALSE]
  /\ obs = ObsNext(ObsInit, Ev("Cfg", "-", "main", 0, -1, -1, -1, -1, -1, CancelFn, <<>>))
  /\ viol = "ok" /\ hist = <<>> /\ actor = <<"-", 0>>

SetEvent == evt' = TRUE /\ woken' = (woken \/ pc[LOOP] = "l_blocked")
ResId(j) == 100 + j
YId(j) == 200 + j
FailId(j) == 300 + j
RaiseId == 400

\* ------------------------------------------------------------------ submit()
G_SSleep(j) == pc[Sub(j)] = "s_sleep" /\ now >= cfgS[j]
SSleep(j) ==
  /\ G_SSleep(j)
  /\ pc' = [pc EXCEPT ![Sub(j)] = "s_gate"]
  /\ Emit(<<E1("SubmitCall", "client", now, j)>>)
  /\ actor' = Sub(j)
  /\ UNCHANGED <<scan, cfg, descs, lock, gate, evt, woken, fst, stage, calls, snap, pos, seen, wdl, edl, cdl, now>>

G_SGate(j) == pc[Sub(j)] = "s_gate" /\ gate = NoOne
SGate(j) ==    \* the whole of submit(): delegate.submit, PollFuture(...), return
  /\ G_SGate(j)
  /\ fst' = [fst EXCEPT ![j] = "pending"]
  /\ stage' = [stage EXCEPT ![j] = "delegate"]
  /\ edl' = [edl EXCEPT ![j] = now + Dur]
  /\ pc' = [pc EXCEPT ![Sub(j)] = "done", ![Env(j)] = "e_sleep",
                      ![Can(j)] = IF cfgK[j] < 90000 THEN "c_sleep" ELSE "c_never"]
  /\ Emit(<<E1("SubmitRet", "client", now, j)>>)
  /\ actor' = Sub(j)
  /\ UNCHANGED <<scan, cfg, descs, lock, gate, evt, woken, calls, snap, pos, seen, wdl, cdl, now>>

\* ------------------------------------------------------------------ delegate completion
G_EFinish(j) == pc[Env(j)] = "e_sleep" /\ now >= edl[j]
EFinish(j) ==
  /\ G_EFinish(j)
  /\ IF stage[j] = "dcancelled"
       THEN /\ pc' = [pc EXCEPT ![Env(j)] = "done"] /\ NoEmit /\ UNCHANGED <<fst, stage>>
       ELSE IF cfgFail[j]
         THEN \* delegate failed: copy_future_exception; the future's first callback deregisters (executor._lock)
              /\ fst' = [fst EXCEPT ![j] = IF fst[j] = "pending" THEN "done" ELSE fst[j]]
              /\ stage' = [stage EXCEPT ![j] = "failed"]
              /\ pc' = [pc EXCEPT ![Env(j)] = IF fst[j] = "pending" THEN "e_dereg" ELSE "done"]
              /\ Emit(<<E3("InvokeEnd", "env", now, j, 2, FailId(j))>> \o
                      (IF fst[j] = "pending" THEN <<ESA("Observed", "env", now, j, "FINISHED", 1, FailId(j))>>
                       ELSE <<E2("DelegateDone", "env", now, j, 1)>>))
         ELSE \* success: _register_poll -> executor._lock
              /\ pc' = [pc EXCEPT ![Env(j)] = "e_reg"]
              /\ Emit(<<E3("InvokeEnd", "env", now, j, 0, ResId(j))>>)
              /\ UNCHANGED <<fst, stage>>
  /\ actor' = Env(j)
  /\ UNCHANGED <<scan, cfg, descs, lock, gate, evt, woken, calls, snap, pos, seen, wdl, edl, cdl, now>>

G_EReg(j) == pc[Env(j)] = "e_reg" /\ lock = NoOne
EReg(j) ==     \* with self._lock: append descriptor; future._clear_delegate(); next visible op: _poll_event.set()
  /\ G_EReg(j)
  /\ lock' = Env(j)
  /\ descs' = IF Bug = "no_register" THEN descs ELSE Append(descs, j)
  /\ stage' = [stage EXCEPT ![j] = "polling"]
  /\ pc' = [pc EXCEPT ![Env(j)] = "e_regset"]
  /\ actor' = Env(j) /\ NoEmit
  /\ UNCHANGED <<scan, cfg, gate, evt, woken, fst, calls, snap, pos, seen, wdl, edl, cdl, now>>

G_ERegSet(j) == pc[Env(j)] = "e_regset"
ERegSet(j) ==
  /\ G_ERegSet(j)
  /\ IF Bug = "no_set_on_register" THEN UNCHANGED <<evt, woken>> ELSE SetEvent
  /\ lock' = NoOne
  /\ pc' = [pc EXCEPT ![Env(j)] = "done"]
  /\ Emit(<<E2("DelegateDone", "env", now, j, 0)>>)
  /\ actor' = Env(j)
  /\ UNCHANGED <<scan, cfg, descs, gate, fst, stage, calls, snap, pos, seen, wdl, edl, cdl, now>>

G_EDereg(j) == pc[Env(j)] = "e_dereg" /\ lock = NoOne
EDereg(j) ==   \* _clear_executor -> _deregister_poll (nothing registered for a failed delegate)
  /\ G_EDereg(j)
  /\ descs' = SelectSeq(descs, LAMBDA x : x # j)
  /\ pc' = [pc EXCEPT ![Env(j)] = "done"]
  /\ Emit(<<E2("DelegateDone", "env", now, j, 1)>>)
  /\ actor' = Env(j)
  /\ UNCHANGED <<scan, cfg, lock, gate, evt, woken, fst, stage, calls, snap, pos, seen, wdl, edl, cdl, now>>

\* ------------------------------------------------------------------ the poll loop
\* run the poll function from descriptor position p on: returns <<events, next position, job to deregister or 0>>
RECURSIVE PollFrom(_, _, _, _)
PollFrom(sn, p, k, st) ==
  IF p > Len(sn) THEN <<<<>>, p, 0>>
  ELSE LET j == sn[p]
           due == cfgY[j] > 0 /\ seen[j] + 1 >= cfgY[j]
       IN IF ~due THEN PollFrom(sn, p + 1, k, st)
          ELSE IF st[j] = "pending"
            THEN <<<<EK("Yield", "poll", now, j, k, 0, YId(j), ""),
                     ESA("Observed", "poll", now, j, "FINISHED", 0, YId(j))>>, p, j>>
            ELSE LET rest == PollFrom(sn, p + 1, k, st) IN
                   <<<<EK("Yield", "poll", now, j, k, 0, YId(j), ""), EK("YieldRet", "poll", now, j, k, -1, -1, "")>>
                       \o rest[1], rest[2], rest[3]>>

\* finish the call: PollRet, then event.wait(interval)
EndCall(evs, k) ==
  /\ pc' = [pc EXCEPT ![LOOP] = "l_wait"]
  /\ seen' = [j \in Jobs |-> IF \E i \in DOMAIN snap' : snap'[i] = j THEN seen[j] + 1 ELSE seen[j]]
  /\ Emit(evs \o <<EK("PollRet", "poll", now, -1, k, 0, -1, "")>>)

\* the body of poll call k over the snapshot sn (`call` = events already due, e.g. PollCall): raise, or yield up to
\* the first deregistration / the end
RunFn(sn, k, call) ==
  IF PollRaiseAt = k /\ sn # <<>>
    THEN \* the poll function raises: every future it was SHOWN fails; first one deregisters
         \* (seeded model bug raise_fails_live: ... every future registered by now fails)
         LET base == IF Bug = "raise_fails_live" THEN descs ELSE sn
             pend == SelectSeq(base, LAMBDA j : fst[j] = "pending") IN
           /\ fst' = [j \in Jobs |-> IF \E i \in DOMAIN pend : pend[i] = j THEN "done" ELSE fst[j]]
           /\ pos' = Len(sn) + 1
           /\ seen' = seen
           /\ pc' = [pc EXCEPT ![LOOP] = IF pend = <<>> THEN "l_wait" ELSE "l_rdereg"]
           /\ Emit(call \o <<EK("PollRet", "poll", now, -1, k, 1, RaiseId, "")>> \o
                   [i \in DOMAIN pend |-> ESA("Observed", "poll", now, pend[i], "FINISHED", 1, RaiseId)])
    ELSE LET r == PollFrom(sn, 1, k, fst) IN
           IF r[3] = 0
             THEN /\ pos' = r[2] /\ UNCHANGED fst /\ EndCall(call \o r[1], k)
             ELSE /\ pos' = r[2] /\ fst' = [fst EXCEPT ![r[3]] = "done"] /\ seen' = seen
                  /\ pc' = [pc EXCEPT ![LOOP] = "l_dereg"]
                  /\ Emit(call \o r[1])

G_LSnap == pc[LOOP] = "l_top" /\ lock = NoOne
LSnap ==       \* with self._lock: snapshot; then the poll function runs up to its first deregistration / its end
  /\ G_LSnap
  /\ LET k == calls + 1
         sn == descs
         xs == [i \in 1..(2 * Len(sn)) |-> IF i % 2 = 1 THEN sn[(i + 1) \div 2] ELSE ResId(sn[i \div 2])]
         call == <<Ev("PollCall", "-", "poll", now, -1, k, -1, -1, -1, "", xs)>>
     IN /\ calls' = k /\ snap' = sn
        /\ IF PollDur = 0
             THEN RunFn(sn, k, call) /\ UNCHANGED cdl
             ELSE \* the poll function takes time: the call is in progress until cdl
                  /\ pc' = [pc EXCEPT ![LOOP] = "l_call"] /\ cdl' = now + PollDur
                  /\ Emit(call) /\ UNCHANGED <<fst, pos, seen>>
  /\ actor' = LOOP
  /\ UNCHANGED <<scan, cfg, descs, lock, gate, evt, woken, stage, wdl, edl, now>>

G_LCall == pc[LOOP] = "l_call" /\ now >= cdl
LCall ==       \* ... the poll function comes to its yields / its raise
  /\ G_LCall
  /\ snap' = snap /\ calls' = calls
  /\ RunFn(snap, calls, <<>>)
  /\ actor' = LOOP
  /\ UNCHANGED <<scan, cfg, descs, lock, gate, evt, woken, stage, wdl, edl, cdl, now>>

G_LDereg == pc[LOOP] = "l_dereg" /\ lock = NoOne
LDereg ==      \* the resolved future's first callback: _deregister_poll; then the poll function continues
  /\ G_LDereg
  /\ LET j == snap[pos]
         r == PollFrom(snap, pos + 1, calls, fst)
         ret == <<EK("YieldRet", "poll", now, j, calls, -1, -1, "")>>
     IN /\ descs' = IF Bug = "no_deregister" THEN descs ELSE SelectSeq(descs, LAMBDA x : x # j)
        /\ snap' = snap
        /\ IF r[3] = 0
             THEN /\ pos' = r[2] /\ UNCHANGED fst /\ EndCall(ret \o r[1], calls)
             ELSE /\ pos' = r[2] /\ fst' = [fst EXCEPT ![r[3]] = "done"] /\ seen' = seen
                  /\ UNCHANGED pc
                  /\ Emit(ret \o r[1])
  /\ actor' = LOOP
  /\ UNCHANGED <<scan, cfg, lock, gate, evt, woken, stage, calls, wdl, edl, cdl, now>>

G_LRDereg == pc[LOOP] = "l_rdereg" /\ lock = NoOne
LRDereg ==     \* after a raising poll function: the failed futures deregister one by one (executor._lock each)
  /\ G_LRDereg
  /\ LET left == SelectSeq(descs, LAMBDA x : \E i \in DOMAIN snap : snap[i] = x /\ fst[x] = "done")
     IN IF left = <<>>
          THEN /\ pc' = [pc EXCEPT ![LOOP] = "l_wait"] /\ UNCHANGED descs
          ELSE /\ descs' = SelectSeq(descs, LAMBDA x : x # left[1])
               /\ pc' = [pc EXCEPT ![LOOP] = IF Len(left) = 1 THEN "l_wait" ELSE "l_rdereg"]
  /\ actor' = LOOP /\ NoEmit
  /\ UNCHANGED <<scan, cfg, lock, gate, evt, woken, fst, stage, calls, snap, pos, seen, wdl, edl, cdl, now>>

G_LEnter == pc[LOOP] = "l_wait"
LEnter ==
  /\ G_LEnter
  /\ IF evt THEN /\ pc' = [pc EXCEPT ![LOOP] = "l_clear"] /\ UNCHANGED wdl
            ELSE /\ pc' = [pc EXCEPT ![LOOP] = "l_blocked"] /\ wdl' = now + Interval + 1
  /\ actor' = LOOP /\ NoEmit
  /\ UNCHANGED <<scan, cfg, descs, lock, gate, evt, woken, fst, stage, calls, snap, pos, seen, edl, cdl, now>>

G_LWake == pc[LOOP] = "l_blocked" /\ (woken \/ now >= wdl)
LWake ==
  /\ G_LWake
  /\ woken' = FALSE
  /\ pc' = [pc EXCEPT ![LOOP] = "l_clear"]
  /\ actor' = LOOP /\ NoEmit
  /\ UNCHANGED <<scan, cfg, descs, lock, gate, evt, fst, stage, calls, snap, pos, seen, wdl, edl, cdl, now>>

G_LClear == pc[LOOP] = "l_clear"
LClear ==
  /\ G_LClear
  /\ evt' = FALSE
  /\ pc' = [pc EXCEPT ![LOOP] = "l_top"]
  /\ actor' = LOOP /\ NoEmit
  /\ UNCHANGED <<scan, cfg, descs, lock, gate, woken, fst, stage, calls, snap, pos, seen, wdl, edl, cdl, now>>

\* ------------------------------------------------------------------ cancel()
\* _run_cancel_fn looks the future's descriptor up WITHOUT the executor lock (the caller holds the future's lock, the
\* poll thread takes them in the other order).  That is sound because _deregister_poll replaces the list by a new one
\* (copy-on-write): the unlocked reader iterates over the object it started with, so its answer is the one of a single
\* instant (`registered` below).  Bug = "dereg_in_place" (seeded change C08-r3m1) deletes the entry in place instead:
\* the reader's index walks over the LIVE list, one element per step, and a deletion in front of it makes it skip one.
CancelDecide(j, registered, call) ==
  LET consult == stage[j] = "polling" /\ CancelFn # "none" /\ registered
      fnevs == IF consult THEN <<E3("CancelFnCall", "canceller", now, j, -1, ResId(j)),
                                 E2("CancelFnRet", "canceller", now, j,
                                    IF CancelFn = "true" THEN 1 ELSE IF CancelFn = "false" THEN 0 ELSE 2)>>
               ELSE <<>>
      allowed == IF stage[j] = "delegate" THEN TRUE      \* manual delegate futures are cancellable while pending
                 ELSE IF consult THEN CancelFn = "true" ELSE TRUE
  IN IF fst[j] = "cancelled"
       THEN /\ pc' = [pc EXCEPT ![Can(j)] = "done"] /\ UNCHANGED <<fst, stage>>
            /\ Emit(call \o <<E2("CancelRet", "canceller", now, j, 1)>>)
       ELSE IF fst[j] = "done" \/ stage[j] = "failed" \/ pc[Env(j)] \in {"e_reg"}
         THEN \* finished, or the delegate is done but not yet registered: delegate.cancel() is False
              /\ pc' = [pc EXCEPT ![Can(j)] = "done"] /\ UNCHANGED <<fst, stage>>
              /\ Emit(call \o <<E2("CancelRet", "canceller", now, j, 0)>>)
         ELSE IF allowed
           THEN /\ fst' = [fst EXCEPT ![j] = "cancelled"]
                /\ stage' = [stage EXCEPT ![j] = IF stage[j] = "delegate" THEN "dcancelled" ELSE stage[j]]
                /\ pc' = [pc EXCEPT ![Can(j)] = "c_dereg"]
                /\ Emit(call \o fnevs \o <<ESA("Observed", "canceller", now, j, "CANCELLED_AND_NOTIFIED", -1, -1)>>)
           ELSE /\ pc' = [pc EXCEPT ![Can(j)] = "done"] /\ UNCHANGED <<fst, stage>>
                /\ Emit(call \o fnevs \o <<E2("CancelRet", "canceller", now, j, 0)>>)

G_CStart(j) == pc[Can(j)] = "c_sleep" /\ now >= cfgK[j]
CStart(j) ==
  /\ G_CStart(j)
  /\ LET call == <<E1("CancelCall", "canceller", now, j)>> IN
       IF Bug = "dereg_in_place" /\ fst[j] = "pending" /\ stage[j] = "polling" /\ CancelFn # "none"
         THEN /\ pc' = [pc EXCEPT ![Can(j)] = "c_scan"]
              /\ cpos' = [cpos EXCEPT ![j] = 1] /\ cfound' = [cfound EXCEPT ![j] = FALSE]
              /\ Emit(call) /\ UNCHANGED <<fst, stage>>
         ELSE /\ CancelDecide(j, \E i \in DOMAIN descs : descs[i] = j, call) /\ UNCHANGED scan
  /\ actor' = Can(j)
  /\ UNCHANGED <<cfg, descs, lock, gate, evt, woken, calls, snap, pos, seen, wdl, edl, cdl, now>>

G_CScan(j) == pc[Can(j)] = "c_scan"
CScan(j) ==    \* (model bug only) one element of the live list per step
  /\ G_CScan(j)
  /\ IF cpos[j] > Len(descs)
       THEN /\ CancelDecide(j, cfound[j], <<>>) /\ UNCHANGED scan
       ELSE /\ cfound' = [cfound EXCEPT ![j] = @ \/ descs[cpos[j]] = j]
            /\ cpos' = [cpos EXCEPT ![j] = @ + 1]
            /\ NoEmit /\ UNCHANGED <<pc, fst, stage>>
  /\ actor' = Can(j)
  /\ UNCHANGED <<cfg, descs, lock, gate, evt, woken, calls, snap, pos, seen, wdl, edl, cdl, now>>

G_CDereg(j) == pc[Can(j)] = "c_dereg" /\ lock = NoOne
CDereg(j) ==   \* the cancelled future's first callback: _deregister_poll
  /\ G_CDereg(j)
  /\ descs' = SelectSeq(descs, LAMBDA x : x # j)
  /\ pc' = [pc EXCEPT ![Can(j)] = "done"]
  /\ Emit(<<E2("CancelRet", "canceller", now, j, 1)>>)
  /\ actor' = Can(j)
  /\ UNCHANGED <<scan, cfg, lock, gate, evt, woken, fst, stage, calls, snap, pos, seen, wdl, edl, cdl, now>>

\* ------------------------------------------------------------------ notify(), observer, time
G_NWake == pc[NOTIF] = "n_sleep" /\ now >= NotifyAt
NWake ==
  /\ G_NWake
  /\ pc' = [pc EXCEPT ![NOTIF] = "n_set"]
  /\ Emit(<<E0("NotifyCall", "client", now)>>)
  /\ actor' = NOTIF
  /\ UNCHANGED <<scan, cfg, descs, lock, gate, evt, woken, fst, stage, calls, snap, pos, seen, wdl, edl, cdl, now>>
G_NSet == pc[NOTIF] = "n_set"
NSet ==
  /\ G_NSet
  /\ SetEvent
  /\ pc' = [pc EXCEPT ![NOTIF] = "done"]
  /\ actor' = NOTIF /\ NoEmit
  /\ UNCHANGED <<scan, cfg, descs, lock, gate, fst, stage, calls, snap, pos, seen, wdl, edl, cdl, now>>

G_OEnd == pc[OBS] = "o_sleep" /\ now >= Horizon
OEnd ==
  /\ G_OEnd
  /\ pc' = [pc EXCEPT ![OBS] = "done"]
  /\ Emit(<<E0("End", "main", now)>>)
  /\ actor' = OBS
  /\ UNCHANGED <<scan, cfg, descs, lock, gate, evt, woken, fst, stage, calls, snap, pos, seen, wdl, edl, cdl, now>>

AnyEnabled ==
  \/ \E j \in Jobs : \/ G_SSleep(j) \/ G_SGate(j) \/ G_EFinish(j) \/ G_EReg(j) \/ G_ERegSet(j) \/ G_EDereg(j)
                     \/ G_CStart(j) \/ G_CScan(j) \/ G_CDereg(j)
  \/ G_LSnap \/ G_LCall \/ G_LDereg \/ G_LRDereg \/ G_LEnter \/ G_LWake \/ G_LClear \/ G_NWake \/ G_NSet \/ G_OEnd

Deadlines ==
  {cfgS[j] : j \in {x \in Jobs : pc[Sub(x)] = "s_sleep"}}
  \cup {edl[j] : j \in {x \in Jobs : pc[Env(x)] = "e_sleep"}}
  \cup {cfgK[j] : j \in {x \in Jobs : pc[Can(x)] = "c_sleep"}}
  \cup (IF pc[LOOP] = "l_blocked" THEN {wdl} ELSE {})
  \cup (IF pc[LOOP] = "l_call" THEN {cdl} ELSE {})
  \cup (IF pc[NOTIF] = "n_sleep" THEN {NotifyAt} ELSE {})
  \cup (IF pc[OBS] = "o_sleep" THEN {Horizon} ELSE {})

Tick ==
  /\ ~AnyEnabled /\ Deadlines # {}
  /\ now' = CHOOSE d \in Deadlines : \A x \in Deadlines : d <= x
  /\ actor' = <<"tick", 0>>
  /\ UNCHANGED <<scan, cfg, pc, descs, lock, gate, evt, woken, fst, stage, calls, snap, pos, seen, wdl, edl, cdl, obs, viol, hist>>

Next ==
  \/ \E j \in Jobs : \/ SSleep(j) \/ SGate(j) \/ EFinish(j) \/ EReg(j) \/ ERegSet(j) \/ EDereg(j)
                     \/ CStart(j) \/ CScan(j) \/ CDereg(j)
  \/ LSnap \/ LCall \/ LDereg \/ LRDereg \/ LEnter \/ LWake \/ LClear \/ NWake \/ NSet \/ OEnd \/ Tick

Spec == Init /\ [][Next]_vars

ContractHolds == viol = "ok"
\* every registered descriptor belongs to a future that is still unresolved or is being deregistered right now
NoStaleDescriptorAtEnd == pc[OBS] = "done" => \A i \in DOMAIN descs : fst[descs[i]] = "pending"
StopAtHorizon == now <= Horizon
View == <<cfg, pc, descs, lock, gate, evt, woken, fst, stage, calls, snap, pos, seen, wdl, edl, cdl, now, obs, viol, scan>>
=============================================================================
