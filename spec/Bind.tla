---------------------------- MODULE Bind ----------------------------
(* Specification of Executors.bind / flat_bind / _customize / CanCustomize name propagation
   (more_executors/_impl/executors.py, bind.py, wrap.py) for C19, as a transcription plus a program
   enumeration: TLC enumerates chain programs

       chain of layers (types from LayerTypes, depth <= MaxDepth)  x  bind position 0..depth
       x  callable kind (1 function, 2 functools.partial, 3 callable object, 4 future-returning)
       x  bind / flat_bind  x  outcome script of fn  x  name given to the base or not
       x  name given explicitly to one layer mid-chain or not

   and, for each, builds the three forms of BindObs with the *operations of the library* (With = a with_*
   call on an executor or on a bound callable, Bind, FlatBind), evaluates them with the sequential
   semantics of a layer stack (R below), and feeds the resulting events to the contract BindObs:
   ContractHolds says that customising a bound callable rebuilds the same stack (same outcome term, same
   number of invocations), that flat_bind is bind + flat_map(identity), and that the operational name
   propagation agrees with the declarative oracle BindObs!ExpName for every layer of every program.

   AsShipped_D10 = TRUE models upstream 2.11.4: a bound callable carries no name, so
   CanCustomize.__propagate_name finds nothing and every layer created by with_* after bind() is called
   "default" (finding D10; refuted by C19_NameInThreadNames).  FALSE models the intended behaviour.
   Bug seeds a model bug (negative controls): "drop_chain" (customising a bound callable forgets the layers
   built before), "flat_bind_plain" (flat_bind does not flatten).

   Sequential semantics of a stack (the oracle also used by the real-code replay): terms are sequences of
   digits, innermost first: 1 value of fn, 2 retryable exception, 3 other exception, 4 TypeError of a flat_map
   whose function did not return a future, 5 "a future holding the term before it", 8 + position = tagged by
   the map / flat_map / poll layer at that position.
*)
EXTENDS BindObs

CONSTANTS MaxDepth, LayerTypes, CallKinds, Flats, Scripts, BaseNames, MidNamed, BaseKinds,
          AsShipped_D10, Bug, KeepHist

TagTypes    == {"map", "flat_map", "poll"}
ThreadTypes == {"retry", "poll", "throttle", "timeout"}
MaxAttempts == 3

VARIABLES chain, bindpos, kind, flat, script, basename, midpos, basekind, pc, obs, viol, hist, actor
prog == <<chain, bindpos, kind, flat, script, basename, midpos, basekind>>
vars == <<chain, bindpos, kind, flat, script, basename, midpos, basekind, pc, obs, viol, hist, actor>>

RECURSIVE Feed(_, _, _)
Feed(o, v, evs) ==
  IF evs = <<>> THEN <<o, v>>
  ELSE LET e == Head(evs)
           ff == FirstFailed(Clauses(o, e))
       IN Feed(ObsNext(o, e), IF v = "ok" THEN ff ELSE v, Tail(evs))
HistOf(evs) == [i \in 1..Len(evs) |-> <<evs[i].ev, evs[i].f, evs[i].k, evs[i].a, evs[i].b, evs[i].c>>]
Emit(evs) ==
  LET r == Feed(obs, viol, evs) IN
    /\ obs' = r[1] /\ viol' = r[2]
    /\ hist' = IF KeepHist THEN hist \o HistOf(evs) ELSE hist

Chains == UNION {[1..d -> LayerTypes] : d \in 0..MaxDepth}

Init ==
  /\ chain \in Chains /\ bindpos \in 0..MaxDepth /\ bindpos <= Len(chain)
  /\ kind \in CallKinds /\ flat \in Flats /\ script \in Scripts
  /\ basename \in BaseNames /\ basekind \in BaseKinds
  /\ midpos \in 0..MaxDepth /\ midpos <= Len(chain) /\ (midpos > 0 => MidNamed)
  /\ pc = "setup" /\ obs = ObsInit /\ viol = "ok" /\ hist = <<>> /\ actor = <<"-", 0>>

\* ------------------------------------------------------------------ the library's operations
ExplicitAt(i) == IF midpos = i THEN 2 ELSE 0
LayerRec(type, pos, nm, ab) == [type |-> type, pos |-> pos, name |-> nm, ab |-> ab]
Base == [kind |-> "exec", chain |-> <<>>, name |-> basename, bname |-> basename]   \* name 0 = "default"
Bind(ex) == [ex EXCEPT !.kind = "bound", !.bname = ex.name]             \* BoundCallable(executor, fn): copies the name

\* obj.with_<type>(name = explicit if > 0)
With(obj, type, pos, explicit) ==
  IF obj.kind = "exec"
    THEN \* CanCustomize.__propagate_name: the executor's own name unless one is given
         LET nm == IF explicit > 0 THEN explicit ELSE obj.name
         IN [obj EXCEPT !.chain = Append(@, LayerRec(type, pos, nm, FALSE)), !.name = nm]
    ELSE \* Executors._customize on a BoundCallable: new layer on its executor, fn bound again
         \* seeded model bug stale_bind_name (change C19-r4m1): the callable is shallow-copied around the new executor and
         \* keeps the name captured at bind() time - a layer named explicitly after bind() is not inherited from
         LET seen == IF AsShipped_D10 THEN 0 ELSE IF Bug = "stale_bind_name" THEN obj.bname ELSE obj.name
             nm   == IF explicit > 0 THEN explicit ELSE seen
             kept == IF Bug = "drop_chain" THEN <<>> ELSE obj.chain
         IN [obj EXCEPT !.chain = Append(kept, LayerRec(type, pos, nm, TRUE)), !.name = nm]

FlatBind(ex) == IF Bug = "flat_bind_plain" THEN Bind(ex) ELSE With(Bind(ex), "flatten", 0, 0)

RECURSIVE FoldLayers(_, _, _)
FoldLayers(obj, i, j) == IF i > j THEN obj ELSE FoldLayers(With(obj, chain[i], i, ExplicitAt(i)), i + 1, j)

FormObj(form) ==
  LET pre == FoldLayers(Base, 1, bindpos)
      mid == IF form = 1 THEN (IF flat = 1 THEN With(pre, "flatten", 0, 0) ELSE pre)
             ELSE IF form = 2 THEN (IF flat = 1 THEN With(Bind(pre), "flatten", 0, 0) ELSE Bind(pre))
             ELSE FlatBind(pre)
  IN FoldLayers(mid, bindpos + 1, Len(chain))

\* ------------------------------------------------------------------ sequential semantics of a stack
\* outcome of fn per invocation (the last entry repeats): V value, E retryable exception, F other exception
ScriptOf == [V |-> <<"V">>, EV |-> <<"E", "V">>, EEV |-> <<"E", "E", "V">>, EEE |-> <<"E", "E", "E">>,
             F |-> <<"F">>, EF |-> <<"E", "F">>]
ScriptAt(n) == LET sq == ScriptOf[script] IN sq[IF n <= Len(sq) THEN n ELSE Len(sq)]
FnOutcome(n) ==
  LET o == ScriptAt(n)
      d == IF o = "V" THEN 1 ELSE IF o = "E" THEN 2 ELSE 3
  IN IF kind = 4 THEN <<d, 5>> ELSE <<d>>
IsExc(t) == Len(t) = 1 /\ t[1] \in {2, 3, 4}
Front(t) == SubSeq(t, 1, Len(t) - 1)

RECURSIVE R(_, _, _), Retry(_, _, _, _)
\* R(ch, k, n): submit to layer k of ch (0 = the base executor) when fn has been invoked n times so far
R(ch, k, n) ==
  IF k = 0 THEN <<FnOutcome(n + 1), n + 1>>
  ELSE IF ch[k].type = "retry" THEN Retry(ch, k, n, 1)
  ELSE LET r == R(ch, k - 1, n)
           t == r[1]
       IN IF ch[k].type \in TagTypes
            THEN <<IF IsExc(t) THEN t ELSE Append(t, 8 + ch[k].pos), r[2]>>
          ELSE IF ch[k].type = "flatten"
            THEN <<IF IsExc(t) THEN t ELSE IF t[Len(t)] = 5 THEN Front(t) ELSE <<4>>, r[2]>>
          ELSE r                               \* throttle, timeout (large), cancel_on_shutdown: identities
Retry(ch, k, n, attempt) ==
  LET r == R(ch, k - 1, n)
  IN IF r[1] = <<2>> /\ attempt < MaxAttempts THEN Retry(ch, k, r[2], attempt + 1) ELSE r

RECURSIVE Enc(_)
Enc(t) == IF t = <<>> THEN 0 ELSE Enc(Front(t)) * 16 + t[Len(t)]

\* ------------------------------------------------------------------ events of one program
EvF(ev, f, k, a, b, c, s) == Ev(ev, "-", "main", 0, f, k, a, b, c, s, <<>>)

SetupEvents ==
  <<EvF("Cfg", -1, kind, Len(chain), bindpos, flat, basekind),
    EvF("Layer", -1, 0, basename, -1, -1, basekind)>>
  \o [i \in 1..Len(chain) |-> EvF("Layer", -1, i, ExplicitAt(i), -1, -1, chain[i])]

FormEvents(form) ==
  LET ch == FormObj(form).chain
      r  == R(ch, Len(ch), 0)
      t  == r[1]
  IN <<EvF("FormOutcome", 1, -1, form, Enc(t), r[2], "")>>
     \o (IF flat = 1 /\ kind = 4
           THEN <<EvF("Flattened", 1, -1, form, IF \A i \in DOMAIN t : t[i] # 5 THEN 1 ELSE 0, -1, "")>>
           ELSE <<>>)

NameEvents(form) ==
  LET ch  == FormObj(form).chain
      thr == SelectSeq(ch, LAMBDA L : L.type \in ThreadTypes)
  IN (IF basekind = "pool"
        THEN <<EvF("ThreadNamed", form, 0, IF basename > 0 THEN basename ELSE 9, 0, 1, "pool")>> ELSE <<>>)
     \o [i \in 1..Len(thr) |->
           EvF("ThreadNamed", form, thr[i].pos, thr[i].name, IF thr[i].ab THEN 1 ELSE 0, 1, thr[i].type)]

Forms == IF flat = 1 THEN <<1, 2, 3>> ELSE <<1, 2>>

Step(from, to, evs) ==
  /\ pc = from /\ pc' = to
  /\ Emit(evs)
  /\ actor' = <<"main", 0>>
  /\ UNCHANGED prog

Next ==
  \/ Step("setup", "f1", SetupEvents)
  \/ Step("f1", "f2", FormEvents(1))
  \/ Step("f2", IF flat = 1 THEN "f3" ELSE "fdone", FormEvents(2))
  \/ Step("f3", "fdone", FormEvents(3))
  \/ Step("fdone", "names", <<EvF("FormsDone", -1, -1, -1, -1, -1, "")>>)
  \/ Step("names", "end",
          NameEvents(1) \o NameEvents(2) \o (IF flat = 1 THEN NameEvents(3) ELSE <<>>))
  \/ Step("end", "done", <<EvF("End", -1, -1, -1, -1, -1, "")>>)

Spec == Init /\ [][Next]_vars

\* ------------------------------------------------------------------ properties
ContractHolds == viol = "ok"
ContractHoldsButD10 == viol \in {"ok", "C19_NameInThreadNames"}
\* the stack built through a bound callable is the stack built on the executor (independent of the contract)
SameStack ==
  LET strip(ch) == [i \in DOMAIN ch |-> <<ch[i].type, ch[i].pos>>]
  IN Bug = "none" => /\ strip(FormObj(1).chain) = strip(FormObj(2).chain)
                     /\ (flat = 1 => strip(FormObj(3).chain) = strip(FormObj(2).chain))
View == <<prog, pc, obs, viol>>
=============================================================================
