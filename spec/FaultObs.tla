---------------------------- MODULE FaultObs ----------------------------
(* Contract of C18: "Faults in user code stay with their own future; worker threads survive".
   Generic over every scenario family: it only looks at
     ThreadExit(s = name, r = role, a = 1 iff it ended with an exception)   r in retry/poll/throttle/timeout = the
                                     library's own worker threads
     CancelRaise(f, s = class) / AddCbRaise / ResultRaise(f, s = class) / SubmitRaise(f, s = class, a)
     SubmitCall / SubmitRet / Final(f = 99, ...)   the liveness probe: a fresh submission after the faults
     ShutdownCall, End
   ("affects only the future(s) it belongs to" is judged by the sequential oracle StackObs on the same traces:
    the faulting layers are part of the oracle, every other future must carry its own outcome.)
*)
EXTENDS ObsKit

WorkerRoles == {"retry", "poll", "throttle", "timeout"}
InternalErrors == {"InvalidStateError", "AssertionError", "KeyError", "AttributeError", "IndexError", "TypeError"}

ObsInit == [down |-> FALSE, ended |-> FALSE, probe |-> "none"]

ObsNext(st, e) ==
  CASE e.ev = "ShutdownCall" -> [st EXCEPT !.down = TRUE]
    [] e.ev = "End" -> [st EXCEPT !.ended = TRUE]      \* afterwards the scenario drops the executors
    [] e.ev = "SubmitCall" /\ e.f = 99 -> [st EXCEPT !.probe = "called"]
    [] e.ev = "SubmitRet" /\ e.f = 99 -> [st EXCEPT !.probe = "accepted"]
    [] e.ev = "Final" /\ e.f = 99 /\ e.s = "FINISHED" -> [st EXCEPT !.probe = "done"]   \* (its outcome is the oracle's business)
    [] OTHER -> st

Clauses(st, e) ==
  << <<"C18_WorkerSurvives",
        (e.ev = "ThreadExit" /\ e.r \in WorkerRoles /\ ~st.ended) => (st.down /\ e.a = 0)>>,
     <<"C18_NoEscapeFromFutureMethods",
        (e.ev \in {"CancelRaise", "AddCbRaise"}) => FALSE>>,
     <<"C18_NoInternalErrorFromResult",
        e.ev = "ResultRaise" => e.s \notin InternalErrors>>,
     <<"C18_SubmitStillWorks",
        (e.ev = "SubmitRaise" /\ ~st.down) => FALSE>>,
     <<"C18_ProbeCompletes",
        (e.ev = "End" /\ ~st.down) => st.probe \in {"none", "done"}>> >>
=============================================================================
