---------------------------- MODULE Proxy ----------------------------
(* State-machine specification of f_proxy / f_nocancel (more_executors/_impl/futures/proxy.py,
   nocancel.py, map.py MapFuture) for C17: states of the input future f  x  operation class  x  timeout
   ->  what the caller observes.  One case (f = 1) per behaviour; the case is chosen in Init, so one
   TLC run enumerates the whole table and every interleaving of the threads below.

   Granularity: one action = "thread t wakes up (virtual-time sleep over / condition notified / timed
   wait expired) and runs until it sleeps, blocks or ends" - the engine's scheduling points when no
   primitive is declared visible (scenario option "visible"): the only blocking operation of this
   mechanism is the caller's Future.result(timeout) on the wrapper, i.e. a timed Condition.wait.

   Threads:   <<"op", c>>   caller c: at virtual time cfgS[c] applies one operation of class cfgK[c] to the
                            wrapper (class 1 forwarded: ProxyFuture.__result = self.result(timeout), then the
                            operator on the value - which returns (cfgR[c] = 1) or raises (cfgR[c] = 2);
                            class 2 not forwarded: answers from the wrapper object itself)
              <<"comp", 1>> the owner of f: resolves it cfgD ticks after the start (states 3, 5); the
                            wrapper is resolved by f's done-callback inside the same step and its waiters
                            are notified
              <<"can", x>>  (kind 2 only) calls cancel() on the f_nocancel wrapper at time cfgC[x]
              OBS           ends the execution at Horizon
   Time: a timed wait of T ticks gets the deadline now + T + 1; Tick only when nothing else is enabled.

   Ghost state: obs / viol = the contract ProxyObs fed with the events the actions generate; TLC checks
   viol = "ok" (every clause of C17) on every reachable state.  Bug seeds a model bug (negative controls).
*)
EXTENDS ProxyObs

CONSTANTS Callers,       \* e.g. {1, 2}
          Cancellers,    \* e.g. {1, 2}
          FStates,       \* subset of 1..5 (see ProxyObs Cfg)
          Kinds,         \* subset of {1, 2}: f_proxy / f_nocancel
          TimeoutVals,   \* candidate timeouts in ticks; NoTmo stands for "no timeout given"
          NoTmo,
          CompDelays,    \* when the owner resolves f (states 3, 5)
          OpTimes,       \* when a caller applies its operation
          CancelTimes,   \* when a canceller calls cancel()
          Horizon, KeepHist, Bug

OBS  == <<"obs", 0>>
COMP == <<"comp", 1>>
Op(c)  == <<"op", c>>
Can(x) == <<"can", x>>
Threads == {OBS, COMP} \cup {Op(c) : c \in Callers} \cup {Can(x) : x \in Cancellers}

VARIABLES cfgF, cfgW, cfgT, cfgD, cfgS, cfgK, cfgR, cfgC,
          pc, fst, wst, notified, wdl, now, obs, viol, hist, actor

cfg  == <<cfgF, cfgW, cfgT, cfgD, cfgS, cfgK, cfgR, cfgC>>
vars == <<cfgF, cfgW, cfgT, cfgD, cfgS, cfgK, cfgR, cfgC, pc, fst, wst, notified, wdl, now, obs, viol, hist, actor>>

VID == 7   \* id of the outcome object (value or exception) of f; the wrapper must carry the same one

RECURSIVE Feed(_, _, _)
Feed(o, v, evs) ==
  IF evs = <<>> THEN <<o, v>>
  ELSE LET e == Head(evs)
           ff == FirstFailed(Clauses(o, e))
       IN Feed(ObsNext(o, e), IF v = "ok" THEN ff ELSE v, Tail(evs))
HistOf(evs) == [i \in 1..Len(evs) |-> <<evs[i].ev, evs[i].f, evs[i].k, evs[i].a, evs[i].b, evs[i].t>>]
Emit(evs) ==
  LET r == Feed(obs, viol, evs) IN
    /\ obs' = r[1] /\ viol' = r[2]
    /\ hist' = IF KeepHist THEN hist \o HistOf(evs) ELSE hist

EvTmo(T) == IF T = NoTmo THEN -1 ELSE T
\* events of the main thread's first step: the case is configured; a future created resolved / failed
\* (states 1, 2) is seen finished together with its wrapper
InitEvents(F, W, T) ==
  <<Ev("Cfg", "-", "main", 0, 1, -1, F, EvTmo(T), W, "", <<>>)>>
  \o (IF F \in {1, 2}
        THEN <<EK("DelegateState", "main", 0, 1, -1, F - 1, VID, "FINISHED"),
               EK("Observed", "main", 0, 1, -1, F - 1, VID, "FINISHED")>>
        ELSE <<>>)

SetMin(S) == CHOOSE x \in S : \A y \in S : x <= y

Init ==
  /\ cfgF \in FStates /\ cfgW \in Kinds /\ cfgT \in TimeoutVals /\ cfgD \in CompDelays
  /\ IF cfgW = 1
       THEN /\ cfgS \in [Callers -> OpTimes] /\ cfgK \in [Callers -> {1, 2}] /\ cfgR \in [Callers -> {1, 2}]
            /\ cfgC = [x \in Cancellers |-> 0]
       ELSE /\ cfgS = [c \in Callers |-> 0] /\ cfgK = [c \in Callers |-> 2] /\ cfgR = [c \in Callers |-> 1]
            /\ cfgC \in [Cancellers -> CancelTimes]
            /\ cfgT = SetMin(TimeoutVals)
  /\ pc = [t \in Threads |->
             IF t = OBS THEN "o_sleep"
             ELSE IF t = COMP THEN (IF cfgF \in {3, 5} THEN "k_sleep" ELSE "done")
             ELSE IF t[1] = "op" THEN (IF cfgW = 1 THEN "c_sleep" ELSE "done")
             ELSE (IF cfgW = 2 THEN "x_sleep" ELSE "done")]
  /\ fst = (IF cfgF = 1 THEN "value" ELSE IF cfgF = 2 THEN "exc" ELSE "pending")
  /\ wst = (IF cfgF = 1 THEN "value" ELSE IF cfgF = 2 THEN "exc" ELSE "pending")
  /\ notified = {} /\ wdl = [c \in Callers |-> -1] /\ now = 0
  /\ LET r == Feed(ObsInit, "ok", InitEvents(cfgF, cfgW, cfgT)) IN obs = r[1] /\ viol = r[2]
  /\ hist = (IF KeepHist THEN HistOf(InitEvents(cfgF, cfgW, cfgT)) ELSE <<>>)
  /\ actor = <<"-", 0>>

\* ------------------------------------------------------------------ a caller's operation
FDone == IF fst = "pending" THEN 0 ELSE 1
\* what a forwarded operation gives once the wrapper is resolved
RetOf(c, k) == IF wst = "value" THEN EK("OpRet", "client", now, 1, k, cfgR[c], cfgR[c], "")
                                ELSE EK("OpRet", "client", now, 1, k, 2, 3, "")
WithC(e, cval) == [e EXCEPT !.c = cval]
CallEv(c) == WithC(EK("OpCall", "client", now, 1, c, -1, -1, "op"), cfgK[c])

G_COp(c) == pc[Op(c)] = "c_sleep" /\ now >= cfgS[c]
COp(c) ==
  /\ G_COp(c)
  /\ IF cfgK[c] = 2 /\ Bug # "block_nonfwd"
       THEN \* answered by the wrapper object itself: never looks at the result
            /\ Emit(<<CallEv(c), WithC(EK("OpRet", "client", now, 1, c, 1, -1, ""), FDone)>>)
            /\ pc' = [pc EXCEPT ![Op(c)] = "done"]
            /\ UNCHANGED wdl
       ELSE IF wst # "pending"
         THEN /\ Emit(<<CallEv(c), WithC(RetOf(c, c), FDone)>>)
              /\ pc' = [pc EXCEPT ![Op(c)] = "done"]
              /\ UNCHANGED wdl
         ELSE \* self.result(timeout): Condition.wait(timeout) on the wrapper
              /\ Emit(<<CallEv(c)>>)
              /\ pc' = [pc EXCEPT ![Op(c)] = "c_wait"]
              /\ wdl' = [wdl EXCEPT ![c] = IF cfgT = NoTmo \/ Bug = "timeout_ignored" THEN -1
                                           ELSE now + cfgT + 1]
  /\ actor' = Op(c)
  /\ UNCHANGED <<cfg, fst, wst, notified, now>>

G_CWake(c) == pc[Op(c)] = "c_wait" /\ (c \in notified \/ (wdl[c] >= 0 /\ now >= wdl[c]))
CWake(c) ==    \* the wait returns: result() looks at the state again
  /\ G_CWake(c)
  /\ notified' = notified \ {c}
  /\ pc' = [pc EXCEPT ![Op(c)] = "done"]
  /\ IF wst # "pending"
       THEN Emit(<<WithC(RetOf(c, c), FDone)>>)
       ELSE Emit(<<WithC(EK("OpRet", "client", now, 1, c, 2, 4, ""), FDone)>>)
  /\ actor' = Op(c)
  /\ UNCHANGED <<cfg, fst, wst, wdl, now>>

\* ------------------------------------------------------------------ the owner of f
G_KSet == pc[COMP] = "k_sleep" /\ now >= cfgD
KSet ==        \* f.set_result / set_exception; done-callback resolves the wrapper; waiters notified
  /\ G_KSet
  /\ pc' = [pc EXCEPT ![COMP] = "done"]
  /\ LET a == IF cfgF = 3 THEN 0 ELSE 1 IN
       /\ IF fst = "pending"
            THEN /\ fst' = (IF a = 0 THEN "value" ELSE "exc")
                 /\ wst' = (IF a = 0 THEN "value" ELSE "exc")
                 /\ notified' = notified \cup {c \in Callers : pc[Op(c)] = "c_wait"}
                 /\ Emit(<<E2("InputSet", "client", now, 1, a),
                           EK("DelegateState", "client", now, 1, -1, a, VID, "FINISHED"),
                           EK("Observed", "client", now, 1, -1, a, VID, "FINISHED")>>)
            ELSE \* (only with Bug = "forward_cancel": f was cancelled under the owner's feet)
                 /\ Emit(<<E2("InputSet", "client", now, 1, a)>>)
                 /\ UNCHANGED <<fst, wst, notified>>
  /\ actor' = COMP
  /\ UNCHANGED <<cfg, wdl, now>>

\* ------------------------------------------------------------------ cancel() on the f_nocancel wrapper
G_XCancel(x) == pc[Can(x)] = "x_sleep" /\ now >= cfgC[x]
XCancel(x) ==
  /\ G_XCancel(x)
  /\ pc' = [pc EXCEPT ![Can(x)] = "done"]
  /\ IF Bug = "forward_cancel"
       THEN /\ Emit(<<E1("CancelCall", "canceller", now, 1), ES("CancelArrived", "canceller", now, 1, "input"),
                      E2("CancelRet", "canceller", now, 1, IF fst = "pending" THEN 1 ELSE 0)>>)
            /\ fst' = (IF fst = "pending" THEN "cancelled" ELSE fst)
       ELSE /\ Emit(<<E1("CancelCall", "canceller", now, 1), E2("CancelRet", "canceller", now, 1, 0)>>)
            /\ UNCHANGED fst
  /\ actor' = Can(x)
  /\ UNCHANGED <<cfg, wst, notified, wdl, now>>

\* ------------------------------------------------------------------ observer
G_OEnd == pc[OBS] = "o_sleep" /\ now >= Horizon
OEnd ==
  /\ G_OEnd
  /\ pc' = [pc EXCEPT ![OBS] = "done"]
  /\ Emit(<<E0("End", "main", now)>>)
  /\ actor' = OBS
  /\ UNCHANGED <<cfg, fst, wst, notified, wdl, now>>

\* ------------------------------------------------------------------ time
AnyEnabled ==
  \/ \E c \in Callers : G_COp(c) \/ G_CWake(c)
  \/ \E x \in Cancellers : G_XCancel(x)
  \/ G_KSet \/ G_OEnd

Deadlines ==
  {cfgS[c] : c \in {x \in Callers : pc[Op(x)] = "c_sleep"}}
  \cup {wdl[c] : c \in {x \in Callers : pc[Op(x)] = "c_wait" /\ wdl[x] >= 0}}
  \cup {cfgC[x] : x \in {y \in Cancellers : pc[Can(y)] = "x_sleep"}}
  \cup (IF pc[COMP] = "k_sleep" THEN {cfgD} ELSE {})
  \cup (IF pc[OBS] = "o_sleep" THEN {Horizon} ELSE {})

Tick ==
  /\ ~AnyEnabled /\ Deadlines # {}
  /\ now' = SetMin(Deadlines)
  /\ actor' = <<"tick", 0>>
  /\ UNCHANGED <<cfg, pc, fst, wst, notified, wdl, obs, viol, hist>>

Next ==
  \/ \E c \in Callers : COp(c) \/ CWake(c)
  \/ \E x \in Cancellers : XCancel(x)
  \/ KSet \/ OEnd \/ Tick

Spec == Init /\ [][Next]_vars

\* ------------------------------------------------------------------ properties
ContractHolds == viol = "ok"                     \* every clause of ProxyObs (C17), always
TypeOK == /\ now \in Nat /\ fst \in {"pending", "value", "exc", "cancelled"} /\ wst \in {"pending", "value", "exc"}
          /\ \A t \in Threads : pc[t] \in {"o_sleep", "k_sleep", "c_sleep", "c_wait", "x_sleep", "done"}
\* a caller blocked for ever is only possible for a forwarded operation without timeout on a future nobody resolves
NoStuckCaller ==
  \A c \in Callers : (pc[Op(c)] = "c_wait" /\ pc[OBS] = "done") =>
      (cfgK[c] = 1 /\ cfgT = NoTmo /\ fst = "pending")
\* the wrapper follows the input (the only path that resolves it is f's done-callback)
WrapperFollows == (fst \in {"value", "exc"}) => wst = fst
View == <<cfg, pc, fst, wst, notified, wdl, now, obs, viol>>
=============================================================================
