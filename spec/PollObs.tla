---------------------------- MODULE PollObs ----------------------------
(* Contract of C08: "Poll: one poll at a time, exact descriptor set, first yield wins, prompt polls".

   Events (fixed record, see ObsKit):
     SubmitCall(f) / SubmitRet(f)
     InvokeEnd(f, a, b)            the delegate's work for f ended (a = 0: value with id b; a > 0: exception id b)
     DelegateDone(f, a)            the delegate future's completion INCLUDING its done-callbacks has returned
                                   (a = 0 success, 1 failure); only then must f be shown to the poll function
     (A poll call "begins" when the executor takes its descriptor snapshot, a few instructions before the poll
      function is entered, which is where PollCall is recorded.  Hence "must be shown" is demanded of futures that
      were ready before the PREVIOUS call returned and "must not be shown" of futures whose resolving call had
      returned before the PREVIOUS call returned; the promptness clause makes sure a newly eligible future triggers
      another poll at once, and a stale descriptor shows up in every later call.)
     PollCall(k, xs)               the poll function is entered for the k-th time; xs = <<f1, r1, f2, r2, ...>>:
                                   the futures it is shown and the delegate result id each descriptor carries
     Yield(f, k, a, b)             inside call k the poll function yields for f (a = 0 value / 1 exception, id b)
     YieldRet(f, k)                ... and that yield call has returned
     PollRet(k, a, b)              call k returned (a = 0) or raised exception id b (a = 1)
     NotifyCall                    a client called notify()
     CancelCall(f) / CancelRet(f, a)
     CancelFnCall(f, b) / CancelFnRet(f, a)   the cancel function was consulted for f with result id b and
                                   answered a (1 True, 0 False, 2 raised)
     Observed(f, s, a, b)          the returned future was seen in state s with outcome (a, b)
     Cfg(s = behaviour of the cancel function: none | true | false | raise)   (optional)
     ShutdownCall, End
*)
EXTENDS ObsKit

SLACK == 3

ObsInit == [open |-> 0,            \* index of the poll call in progress (0 = none)
            calls |-> 0,
            shown |-> <<>>,        \* futures shown to the call in progress
            lastret |-> 0,         \* time the last poll call returned
            res |-> EmptyMap,      \* f -> id of the delegate's result (delegate succeeded)
            failed |-> EmptyMap,   \* f -> id of the delegate's exception
            ready |-> {},          \* delegate completion incl. callbacks has returned, successfully
            old |-> {},            \* ... and had done so before the previous poll call returned (surely registered)
            rold |-> {},           \* futures whose resolving call had returned before the previous poll call returned
                                   \* (surely deregistered before this call's descriptor snapshot)
            src |-> EmptyMap,      \* f -> <<a, b>>: the first thing that resolved f (yield / poll raise / delegate failure)
            resolving |-> {},      \* futures for which a resolving call (yield, cancel) has started
            resolved |-> {},       \* futures for which a resolving call has returned
            cancelling |-> {}, vetoed |-> {},
            cfn |-> "",            \* how the cancel function answers (Cfg), "" = not told
            cpoll |-> {},          \* futures that were surely in the polling stage when their pending cancel() was issued

            want |-> -1,           \* a poll is owed since this time (eligibility / notify), -1: none owed
            pend |-> {},           \* futures the poll thread is in the middle of resolving (a yield that has not returned,
                                   \* the futures a raising poll function was shown and that are not terminal yet)
            lastblk |-> 0,         \* latest time at which one of those was inside a client's cancel() - whose (user-supplied,
                                   \* possibly slow) cancel function keeps the future's lock, so the poll thread had to wait
            down |-> FALSE]

Pairs(xs) == [i \in 1..(Len(xs) \div 2) |-> <<xs[2 * i - 1], xs[2 * i]>>]
Shown(xs) == [i \in 1..(Len(xs) \div 2) |-> xs[2 * i - 1]]

ObsNext0(st, e) ==
  CASE e.ev = "InvokeEnd" -> IF e.a = 0 THEN [st EXCEPT !.res = Put(@, e.f, e.b)]
                             ELSE [st EXCEPT !.failed = Put(@, e.f, e.b),
                                             !.src = IF Has(@, e.f) THEN @ ELSE Put(@, e.f, <<1, e.b>>)]
    [] e.ev = "DelegateDone" /\ e.a = 0 ->
          [st EXCEPT !.ready = @ \cup {e.f},
                     !.want = IF e.f \in st.resolving \cup st.resolved THEN @ ELSE (IF @ >= 0 THEN @ ELSE e.t)]
    [] e.ev = "NotifyCall" -> [st EXCEPT !.want = IF @ >= 0 THEN @ ELSE e.t]
    [] e.ev = "PollCall" -> [st EXCEPT !.open = e.k, !.calls = e.k, !.shown = Shown(e.xs), !.want = -1]
    [] e.ev = "Yield" -> [st EXCEPT !.resolving = @ \cup {e.f}, !.pend = @ \cup {e.f},
                                    !.src = IF Has(@, e.f) THEN @ ELSE Put(@, e.f, <<e.a, e.b>>)]
    [] e.ev = "YieldRet" -> [st EXCEPT !.resolved = @ \cup {e.f}, !.pend = @ \ {e.f}]
    [] e.ev = "Observed" /\ e.s = "FINISHED" -> [st EXCEPT !.resolved = @ \cup {e.f}, !.pend = @ \ {e.f}]
    [] e.ev = "Observed" /\ e.s \in CancelledStates -> [st EXCEPT !.pend = @ \ {e.f}]
    [] e.ev = "PollRet" ->
          [st EXCEPT !.open = 0, !.lastret = e.t, !.shown = <<>>, !.old = st.ready, !.rold = st.resolved,
                     !.pend = IF e.a = 1 THEN @ \cup (SeqToSet(st.shown) \ st.resolved) ELSE @,
                     !.resolving = IF e.a = 1 THEN @ \cup SeqToSet(st.shown) ELSE @,
                     \* (the futures it was shown are failed right after the raise: resolved once seen FINISHED)
                     !.src = IF e.a = 1
                               THEN [f \in DOMAIN @ \cup SeqToSet(st.shown) |-> IF Has(@, f) THEN @[f] ELSE <<1, e.b>>]
                               ELSE @]
    [] e.ev = "Cfg" -> [st EXCEPT !.cfn = e.s]
    [] e.ev = "CancelCall" -> [st EXCEPT !.cancelling = @ \cup {e.f}, !.resolving = @ \cup {e.f},
                                         !.vetoed = @ \ {e.f},
                                         \* registered before the previous poll call returned, nobody resolving it
                                         !.cpoll = IF e.f \in st.old /\ e.f \notin st.resolving /\ e.f \notin st.resolved
                                                     THEN @ \cup {e.f} ELSE @ \ {e.f}]
    [] e.ev = "CancelRet" -> [st EXCEPT !.cancelling = @ \ {e.f},
                                        !.resolved = IF e.a = 1 THEN @ \cup {e.f} ELSE @]
    [] e.ev = "CancelFnRet" /\ e.a # 1 -> [st EXCEPT !.vetoed = @ \cup {e.f}]
    [] e.ev = "ShutdownCall" -> [st EXCEPT !.down = TRUE, !.want = -1]
    [] OTHER -> st

ObsNext(st, e) ==
  LET st1 == ObsNext0(st, e) IN
    [st1 EXCEPT !.lastblk = IF st1.pend \cap st1.cancelling # {} THEN e.t ELSE @]

NoDup(s) == \A i, j \in DOMAIN s : i # j => s[i] # s[j]

Clauses(st, e) ==
  << <<"C08_NoOverlap",
        e.ev = "PollCall" => st.open = 0>>,
     <<"C08_CallsNumbered",
        e.ev = "PollCall" => e.k = st.calls + 1>>,
     <<"C08_NoDuplicateDescriptor",
        e.ev = "PollCall" => NoDup(Shown(e.xs))>>,
     <<"C08_DescriptorsMust",
        e.ev = "PollCall" => \A f \in st.old : (f \notin st.resolving /\ f \notin st.resolved) =>
                                  f \in SeqToSet(Shown(e.xs))>>,
     <<"C08_DescriptorsMustNot",
        e.ev = "PollCall" => \A i \in DOMAIN Shown(e.xs) :
             \* (a future whose cancel() has not returned yet may still be shown: its deregistration is part of that call -
             \*  also when a yield for it, blocked behind a slow cancel function, has meanwhile returned without effect)
             LET f == Shown(e.xs)[i] IN Has(st.res, f) /\ (f \notin st.rold \/ f \in st.cancelling) /\ ~Has(st.failed, f)>>,
     <<"C08_ResultCarried",
        e.ev = "PollCall" => \A i \in DOMAIN Pairs(e.xs) :
             LET p == Pairs(e.xs)[i] IN Has(st.res, p[1]) => st.res[p[1]] = p[2]>>,
     <<"C08_FirstYieldWins",
        (e.ev = "Observed" /\ e.s = "FINISHED") => (Has(st.src, e.f) /\ st.src[e.f] = <<e.a, e.b>>)>>,
     <<"C08_PromptPoll",
        \* (not while the poll thread waits for a future that a client is cancelling - the client's cancel function runs
        \*  under that future's lock for as long as it likes; as soon as that is over)
        (st.want >= 0 /\ st.open = 0 /\ ~st.down /\ st.pend \cap st.cancelling = {}) =>
            e.t <= Max(Max(st.want, st.lastret), st.lastblk) + SLACK>>,
     <<"C08_CancelFnOnlyWhenPolling",
        e.ev = "CancelFnCall" => (Has(st.res, e.f) /\ st.res[e.f] = e.b /\ e.f \in st.cancelling
                                  /\ e.f \notin st.resolved)>>,
     <<"C08_Veto",
        (e.ev = "CancelRet" /\ e.f \in st.vetoed) => e.a = 0>>,
     <<"C08_VetoWhilePolling",    \* a cancel function that always refuses: no cancel() of a future that was in the polling
                                 \* stage when the call was issued comes back True (unless a yield resolved it meanwhile,
                                 \* in which case it is not cancelled either)
        (e.ev = "CancelRet" /\ e.a = 1 /\ e.f \in st.cpoll) => st.cfn \notin {"false", "raise"}>>,
     <<"C08_VetoedNotCancelled",
        (e.ev = "Observed" /\ e.s \in CancelledStates) => e.f \notin st.vetoed>> >>
=============================================================================
