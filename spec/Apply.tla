---------------------------- MODULE Apply ----------------------------
(* C16: transcription of more_executors/_impl/futures/apply.py (_wrap_args, _wrapped_f_apply, fn_runner) as
   recursive TLA+ operators, checked against the contract ApplyObs.

   f_apply curries one argument at a time:   with wa = _wrap_args(...) = <<key_1, x_1>>, ..., <<key_n, x_n>>
       F_0 = future_fn
       F_j = flat_map(x_j,  x -> map(F_(j-1),  fn -> fn_runner(fn, key_j, x)))
       out = map(F_n,  fn -> fn())
   where fn_runner(fn, key, x)( *args, **kwargs) = fn(x, *args, **kwargs)   (insert at index 0)  if key is ARGS
                                                  fn( *args, **kwargs + {key: x})                 otherwise.
   Function values are data here:  <<"fn">>  is the user's function,  <<"runner", F, key, x>>  a closure made
   by fn_runner; Call evaluates a call down to the arguments the user's function finally receives.

   TLC checks
     * CurriedEqualsDirect: for all arities 0..MaxPos x 0..MaxKw the curried application equals the direct one
       (exhaustive evaluation of the insert-at-index-0 construction),
     * ContractHolds: for every arity, every set of failing inputs (at most MaxFails), fn failing or not and
       EVERY completion order of the n + 1 input futures, the events of the modelled futures (when is the
       function called, with what, what does the output become) satisfy every clause of ApplyObs.
   Bug = "append" seeds the obvious mistake (args.append(x) instead of insert(0, x)) as a negative control.
*)
EXTENDS ApplyObs

CONSTANTS MaxPos, MaxKw, MaxFails, Bug

ARGS == 0
P == <<"P", 0>>

\* _wrap_args: <<key, index of the input future>>, positional first, then keywords
WrapArgs(np, nk) == [j \in 1..(np + nk) |-> IF j <= np THEN <<ARGS, j>> ELSE <<j - np, j>>]

\* calling a (possibly curried) function value: the arguments the user's function receives
RECURSIVE Call(_, _, _)
Call(F, args, kwargs) ==
  IF F[1] = "fn" THEN [args |-> args, kwargs |-> kwargs]
  ELSE IF F[3] = ARGS
         THEN Call(F[2], IF Bug = "append" THEN Append(args, F[4]) ELSE <<F[4]>> \o args, kwargs)
         ELSE Call(F[2], args, Put(kwargs, F[3], F[4]))

Curried(np, nk) ==
  LET wa == WrapArgs(np, nk)
      F[j \in 0..(np + nk)] == IF j = 0 THEN <<"fn">> ELSE <<"runner", F[j - 1], wa[j][1], ValId(wa[j][2])>>
  IN Call(F[np + nk], <<>>, EmptyMap)
Direct(np, nk) == [args |-> [i \in 1..np |-> ValId(i)], kwargs |-> [k \in 1..nk |-> ValId(np + k)]]

\* encoding of a call as in FnCalled.xs
Flat(c) ==
  LET ks == SelectSeq([k \in 1..MaxKw |-> k], LAMBDA k : k \in DOMAIN c.kwargs)
  IN c.args \o [j \in 1..(2 * Len(ks)) |-> IF j % 2 = 1 THEN ks[(j + 1) \div 2] ELSE c.kwargs[ks[j \div 2]]]

\* outcome of the future F_j given the set `res` of resolved inputs and the failing ones `fl`
RECURSIVE StageOut(_, _, _, _)
StageOut(j, wa, res, fl) ==
  IF j = 0 THEN (IF 0 \notin res THEN P ELSE IF 0 \in fl THEN <<"E", ExcId(0)>> ELSE <<"V", <<"fn">> >>)
  ELSE LET x == wa[j][2] IN
       IF x \notin res THEN P                               \* flat_map waits for x_j first
       ELSE IF x \in fl THEN <<"E", ExcId(x)>>
       ELSE LET p == StageOut(j - 1, wa, res, fl) IN         \* ... then for the map over F_(j-1)
            IF p[1] = "V" THEN <<"V", <<"runner", p[2], wa[j][1], ValId(x)>> >> ELSE p

VARIABLES np, nk, fails, fnFails, res, out, phase, obs, viol
vars == <<np, nk, fails, fnFails, res, out, phase, obs, viol>>

RECURSIVE Feed(_, _, _)
Feed(o, v, evs) ==
  IF evs = <<>> THEN <<o, v>>
  ELSE LET e == Head(evs)
           ff == FirstFailed(Clauses(o, e))
       IN Feed(ObsNext(o, e), IF v = "ok" THEN ff ELSE v, Tail(evs))
Emit(evs) == LET r == Feed(obs, viol, evs) IN obs' = r[1] /\ viol' = r[2]

Init ==
  /\ np \in 0..MaxPos /\ nk \in 0..MaxKw
  /\ fails \in {s \in SUBSET (0..(np + nk)) : Cardinality(s) <= MaxFails}
  /\ fnFails \in BOOLEAN
  /\ res = {} /\ out = P /\ phase = "run"
  /\ obs = ObsNext(ObsInit, Ev("Cfg", "-", "main", 0, -1, -1, np, nk, -1, "", <<>>)) /\ viol = "ok"

\* input i resolves (on whatever thread); every callback chain it releases runs before the step ends
Resolve(i) ==
  /\ phase = "run" /\ i \in 0..(np + nk) /\ i \notin res
  /\ res' = res \cup {i}
  /\ LET wa == WrapArgs(np, nk)
         top == StageOut(np + nk, wa, res', fails)
         setEv == Ev("InputSet", "-", "env", 0, -1, i, IF i \in fails THEN 1 ELSE 0,
                     IF i \in fails THEN ExcId(i) ELSE ValId(i), -1, "", <<>>)
     IN IF out # P \/ top = P
          THEN /\ Emit(<<setEv>>) /\ UNCHANGED out
        ELSE IF top[1] = "E"
          THEN /\ Emit(<<setEv>>) /\ out' = top
        ELSE LET c == Call(top[2], <<>>, EmptyMap)            \* out = map(F_n, fn -> fn())
                 callEv == Ev("FnCalled", "-", "env", 0, -1, -1, Len(c.args), -1,
                              Cardinality(DOMAIN c.kwargs), "", Flat(c))
             IN IF fnFails
                  THEN /\ Emit(<<setEv, callEv, E3("FnRaise", "env", 0, -1, -1, FNEXC)>>)
                       /\ out' = <<"E", FNEXC>>
                  ELSE /\ Emit(<<setEv, callEv>>) /\ out' = <<"V", Flat(c)>>
  /\ UNCHANGED <<np, nk, fails, fnFails, phase>>

Finish ==
  /\ phase = "run" /\ res = 0..(np + nk)
  /\ phase' = "done"
  /\ Emit(<<CASE out[1] = "V" -> Ev("Result", "-", "main", 0, -1, -1, 0, -1, -1, "FINISHED", out[2])
              [] out[1] = "E" -> Ev("Result", "-", "main", 0, -1, -1, 1, out[2], -1, "FINISHED", <<>>)
              [] OTHER -> Ev("Result", "-", "main", 0, -1, -1, -1, -1, -1, "PENDING", <<>>),
            E0("End", "main", 0)>>)
  /\ UNCHANGED <<np, nk, fails, fnFails, res, out>>

Next == Finish \/ \E i \in 0..(MaxPos + MaxKw) : Resolve(i)
Spec == Init /\ [][Next]_vars

ContractHolds == viol = "ok"
CurriedEqualsDirect ==
  \A a \in 0..MaxPos, k \in 0..MaxKw :
     LET c == Curried(a, k)
         d == Direct(a, k)
     IN /\ c.args = d.args
        /\ DOMAIN c.kwargs = DOMAIN d.kwargs
        /\ \A x \in DOMAIN d.kwargs : c.kwargs[x] = d.kwargs[x]
\* the function is called in the very step in which the last input resolves, never before
CalledExactlyWhenComplete ==
  (obs.calls = 1) <=> (res = 0..(np + nk) /\ fails = {})
ResolvedWhenComplete == (phase = "done") => out # P
=============================================================================
