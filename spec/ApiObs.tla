---------------------------- MODULE ApiObs ----------------------------
(* API-level contract for traces recorded from the repository's own test suite running with real threads and real time
   (mxv/suite_plugin.py).  Every clause speaks about the ORDER of events only (they are appended under one global
   lock: an event recorded after a call returned really happened after it), never about durations; histories may be
   partial (threads of an earlier test still running), so every clause only uses what the same trace established.

   Events:  SubmitCall(c = executor, k = token) / SubmitRet(f, k, c) / SubmitRaise(k, c, s)
            Invoke(k)                     the callable handed over with token k starts running
            CancelCall(f) / CancelRet(f, a) / CancelRaise(f, s)
            AddCbRet(f, k) / Callback(f, k, a = 1 iff done)
            ShutdownCall(c) / ShutdownRet(c);  Final(f, s);  End
   Clauses (subset of the properties that needs no model of time):
     C02  cancel() never raises; a True return sticks (the future is cancelled at the end); a done-callback runs at
          most once and only on a done future
     C06  once cancel() has returned True for the future a submission returned, its callable is never started
     C11  a submit() that begins after shutdown() of the same executor has returned does not succeed
*)
EXTENDS ObsKit

ObsInit == [tok |-> EmptyMap,      \* token -> future the submission returned
            ctrue |-> {},          \* futures whose cancel() returned True
            ran |-> {},            \* <<f, k>> callbacks that ran
            down |-> {},           \* executors whose shutdown() has returned
            late |-> {}]           \* tokens of submissions that began after their executor's shutdown() returned

ObsNext(st, e) ==
  CASE e.ev = "SubmitCall" /\ e.c \in st.down -> [st EXCEPT !.late = @ \cup {e.k}]
    [] e.ev = "SubmitRet" -> [st EXCEPT !.tok = Put(@, e.k, e.f)]
    [] e.ev = "CancelRet" /\ e.a = 1 -> [st EXCEPT !.ctrue = @ \cup {e.f}]
    [] e.ev = "Callback" -> [st EXCEPT !.ran = @ \cup {<<e.f, e.k>>}]
    [] e.ev = "ShutdownRet" /\ e.c > 0 -> [st EXCEPT !.down = @ \cup {e.c}]
    [] OTHER -> st

Clauses(st, e) ==
  << <<"C02_CancelNeverRaises",
        e.ev = "CancelRaise" => FALSE>>,
     <<"C02_CancelTrueSticks",
        (e.ev = "Final" /\ e.f \in st.ctrue) => e.s \in CancelledStates>>,
     <<"C02_CallbackAtMostOnce",
        e.ev = "Callback" => <<e.f, e.k>> \notin st.ran>>,
     <<"C02_CallbackOnlyWhenDone",
        e.ev = "Callback" => e.a = 1>>,
     <<"C06_TrueMeansNeverStarts",
        (e.ev = "Invoke" /\ Has(st.tok, e.k)) => st.tok[e.k] \notin st.ctrue>>,
     <<"C11_SubmitRefusedAfter",
        e.ev = "SubmitRet" => e.k \notin st.late>> >>
=============================================================================
