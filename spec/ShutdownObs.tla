---------------------------- MODULE ShutdownObs ----------------------------
(* Contract of C10 ("Cancel-on-shutdown covers every future the executor ever accepted") and C11
   ("Shutdown: submit refuses afterwards, idempotent, propagates, joins, returns").

   Events (fixed record, see ObsKit), recorded on a stack whose top executor is shut down by one thread:
     Layer(k, s = type)                       stack description (bottom -> top); Cfg(a = 1 iff the top layer is a
                                              CancelOnShutdownExecutor whose returned futures are tapped as "tap<top>")
     SubmitCall(f) / SubmitRet(f) / SubmitRaise(f, a = 1 iff RuntimeError('cannot schedule new futures after shutdown'))
     ShutdownCall(s = "top", a = wait, b = cancel_futures, c = number of keyword arguments) / ShutdownRet / ShutdownRaise
     DelegateShutdown(s = "tap<i>", a = wait, b = cancel_futures, c = number of keyword arguments)
     CancelArrived(f, s = "tap<i>", r = role of the calling thread)   cancel() arriving at a future returned by tap i
     DelegateState(f, c = i, s = state)       state change of such a future
     ThreadStart(s = name) / ThreadExit(s = name)   (r = role: retry / poll / throttle / timeout = the executors'
                                              own worker threads)
     Outcome(a)  engine classification at the end: 0 finished, 1 stuck (nothing can run), 2 horizon
     BlockedAtEnd(thr, s = kind of operation)  a thread still blocked when the execution ended
     End
*)
EXTENDS ObsKit

WorkerRoles == {"retry", "poll", "throttle", "timeout"}
\* threads on which a cancel() reaching a future of the cancel-on-shutdown layer is the LIBRARY's doing: the thread inside
\* shutdown() (the sweep) and the submitting threads (which call nothing but submit(): a cancel made on one of them is made
\* by submit() itself).  Cancels by the scenario's canceller threads are the user's.
LibCancelRoles == {"shutdown", "client"}

ObsInit == [cos |-> 0,             \* index of the tap whose futures the cancel-on-shutdown layer returns (0: none)
            ntaps |-> 0,
            returned |-> {},       \* futures returned by submit() of the top executor
            calling |-> EmptyMap,  \* f -> TRUE if its SubmitCall came after shutdown() had returned
            opencalls |-> {},      \* submit() calls that have neither returned nor raised yet
            done |-> {},           \* returned futures seen done (at the cos tap level)
            att |-> EmptyMap,      \* f -> number of cancel() calls made by the shutdown thread
            shcalls |-> 0, shrets |-> 0, wait |-> -1, nkw |-> -1, cf |-> -1,
            dsh |-> EmptyMap,      \* tap -> number of DelegateShutdown calls
            dshopen |-> FALSE,     \* the cancel-on-shutdown layer's delegate.shutdown() call is in progress
            shthreads |-> {},      \* threads that called shutdown()
            dshok |-> TRUE,        \* every DelegateShutdown so far carried the same arguments
            live |-> {},           \* names of the executors' own worker threads that started and did not exit
            died |-> {}]           \* ... that ended with an exception

TapOf(e) == IF e.s = "tap1" THEN 1 ELSE IF e.s = "tap2" THEN 2 ELSE IF e.s = "tap3" THEN 3 ELSE IF e.s = "tap4" THEN 4
            ELSE IF e.s = "tap5" THEN 5 ELSE IF e.s = "tap6" THEN 6 ELSE IF e.s = "tap7" THEN 7 ELSE IF e.s = "tap" THEN 1 ELSE 0

ObsNext(st, e) ==
  CASE e.ev = "Layer" -> [st EXCEPT !.ntaps = @ + 1, !.cos = IF e.s = "cos" THEN e.k ELSE 0]
    [] e.ev = "Cfg" -> [st EXCEPT !.cos = e.a, !.ntaps = e.b]
    [] e.ev = "SubmitCall" -> [st EXCEPT !.calling = Put(@, e.f, st.shrets >= 1), !.opencalls = @ \cup {e.f}]
    [] e.ev = "SubmitRet" -> [st EXCEPT !.returned = @ \cup {e.f}, !.att = IF Has(@, e.f) THEN @ ELSE Put(@, e.f, 0),
                                        !.opencalls = @ \ {e.f}]
    [] e.ev = "SubmitRaise" -> [st EXCEPT !.opencalls = @ \ {e.f}]
    [] e.ev = "DelegateState" /\ e.c = st.cos /\ e.s \in Terminal -> [st EXCEPT !.done = @ \cup {e.f}]
    [] e.ev = "CancelArrived" /\ TapOf(e) = st.cos /\ st.cos > 0 /\ e.r \in LibCancelRoles /\ ~st.dshopen ->
          [st EXCEPT !.att = Put(@, e.f, Get(@, e.f, 0) + 1)]
    [] e.ev = "ShutdownCall" -> [st EXCEPT !.shcalls = @ + 1, !.wait = IF st.shcalls = 0 THEN e.a ELSE @,
                                           !.cf = IF st.shcalls = 0 THEN e.b ELSE @,
                                           !.nkw = IF st.shcalls = 0 THEN e.c ELSE @,
                                           !.shthreads = @ \cup {e.thr}]
    [] e.ev = "DelegateShutdownRet" /\ TapOf(e) = st.cos /\ st.cos > 0 -> [st EXCEPT !.dshopen = FALSE]
    [] e.ev = "ShutdownRet" -> [st EXCEPT !.shrets = @ + 1]
    [] e.ev = "DelegateShutdown" ->
          [st EXCEPT !.dsh = Put(@, TapOf(e), Get(@, TapOf(e), 0) + 1),
                     !.dshopen = IF TapOf(e) = st.cos /\ st.cos > 0 THEN TRUE ELSE @,
                     \* the very arguments of the (first) shutdown() call: wait, cancel_futures, nothing added or dropped
                     !.dshok = @ /\ e.a = st.wait /\ e.b = st.cf /\ e.c = st.nkw]
    [] e.ev = "ThreadStart" /\ e.r \in WorkerRoles -> [st EXCEPT !.live = @ \cup {e.s}]
    [] e.ev = "ThreadExit" /\ e.r \in WorkerRoles ->
          [st EXCEPT !.live = @ \ {e.s}, !.died = IF e.a = 1 THEN @ \cup {e.s} ELSE @]
    [] OTHER -> st

\* C10 speaks of "the one thread calling shutdown()"; with several concurrent callers the overtaken ones return early
OneCaller(st) == Cardinality(st.shthreads) <= 1
FirstShutdownRet(st, e) == e.ev = "ShutdownRet" /\ st.shrets = 0 /\ OneCaller(st)

Clauses(st, e) ==
  << <<"C10_SweepCoversAll",
        (FirstShutdownRet(st, e) /\ st.cos > 0) =>
            \A f \in st.returned : f \notin st.done => Get(st.att, f, 0) = 1>>,
     <<"C10_AtMostOneCancel",
        \* (arrivals while the top executor's delegate.shutdown() call is in progress come from the layers below)
        (e.ev = "CancelArrived" /\ st.cos > 0 /\ TapOf(e) = st.cos /\ e.r \in LibCancelRoles /\ ~st.dshopen /\ OneCaller(st))
            => Get(st.att, e.f, 0) = 0>>,
     <<"C10_RacingSubmitCovered",
        (e.ev = "End" /\ st.cos > 0 /\ st.shrets >= 1 /\ OneCaller(st)) =>
            \A f \in st.returned : f \notin st.done => Get(st.att, f, 0) = 1>>,
     <<"C10_InnerShutDown",
        (FirstShutdownRet(st, e) /\ st.cos > 0) => Get(st.dsh, st.cos, 0) = 1>>,
     <<"C11_SubmitRefusedAfter",
        (e.ev = "SubmitRet" /\ Has(st.calling, e.f)) => ~st.calling[e.f]>>,
     <<"C11_LateSubmitReturns",      \* a submit() begun after shutdown() returned does not hang: it has raised by the end
        e.ev = "End" => \A f \in st.opencalls : ~(Has(st.calling, f) /\ st.calling[f])>>,
     <<"C11_RacingSubmitReturns",    \* "a submit() racing with shutdown() either raises that error or returns a future":
        \* once shutdown() has returned no earlier submit() is still inside the call at the end (every scripted
        \* callable terminates, so nothing a blocking submit() could be waiting for is still outstanding)
        (e.ev = "End" /\ st.shrets >= 1) => st.opencalls = {}>>,
     <<"C11_RefusalIsTheDocumentedError",
        (e.ev = "SubmitRaise" /\ st.shcalls >= 1) => e.a = 1>>,
     <<"C11_Idempotent",
        e.ev = "ShutdownRaise" => FALSE>>,
     <<"C11_PropagatedOnceSameArgs",    \* (a caller overtaken by a concurrent shutdown() may return before the other one
        \*  has propagated: "exactly once" is then demanded at the end and "never twice" always)
        (e.ev = "ShutdownRet" /\ Cardinality(st.shthreads) = 1) =>
            (st.dshok /\ \A i \in 1..st.ntaps : Get(st.dsh, i, 0) = 1)>>,
     <<"C11_NeverPropagatedTwice",
        e.ev = "DelegateShutdown" => Get(st.dsh, TapOf(e), 0) = 0>>,
     <<"C11_PropagatedByTheEnd",
        (e.ev = "End" /\ st.shrets >= 1) => (st.dshok /\ \A i \in 1..st.ntaps : Get(st.dsh, i, 0) = 1)>>,
     <<"C11_WorkerExitedWhenWaited",
        (e.ev = "ShutdownRet" /\ st.wait = 1 /\ OneCaller(st)) => st.live = {}>>,
     <<"C11_ShutdownReturns",
        e.ev = "End" => st.shrets = st.shcalls>>,
     <<"C04_NoThreadBlockedForever",
        (e.ev = "BlockedAtEnd" /\ e.r \in {"client", "shutdown", "canceller"}) => e.s \notin {"acquire", "cvwait", "join", "spin"}>>,
     <<"C18_WorkerSurvives",
        (e.ev = "ThreadExit" /\ e.a = 1 /\ e.r \in WorkerRoles) => FALSE>> >>
=============================================================================
