---------------------------- MODULE ApiObsTrace ----------------------------
(* Batch validation of recorded executions of the real library against the contract ApiObs
   (code -> spec).  The file named by the environment variable TRACE_FILE holds a JSON array of
   traces; each trace is an array of event records with the fixed field set of ObsKit.  Every trace
   gets exactly one line <<"VERDICT", tid, verdict, step>>: "ok", or the name of the first clause
   that failed and the index of the offending event.  TLC never stops early, so one bad trace does
   not hide the others.  Run with -workers 1. *)
EXTENDS ApiObs, Json, IOUtils
Traces == JsonDeserialize(IOEnv.TRACE_FILE)
VARIABLES tid, l, verdict, st
tvars == <<tid, l, verdict, st>>
TraceInit == tid \in 1..Len(Traces) /\ l = 1 /\ verdict = "ok" /\ st = ObsInit
TraceStep ==
  /\ verdict = "ok" /\ l <= Len(Traces[tid])
  /\ LET e == Traces[tid][l]
         v == FirstFailed(Clauses(st, e))
     IN  /\ verdict' = v
         /\ st' = IF v = "ok" THEN ObsNext(st, e) ELSE st
         /\ l' = IF v = "ok" THEN l + 1 ELSE l
  /\ UNCHANGED tid
TraceSpec == TraceInit /\ [][TraceStep]_tvars
Finished == verdict # "ok" \/ l > Len(Traces[tid])
Report == Finished => PrintT(<<"VERDICT", tid, verdict, l>>)
=============================================================================
