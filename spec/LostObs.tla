---------------------------- MODULE LostObs ----------------------------
(* Contract of C03: "No future is lost: once its underlying work is finished, the future finishes".

   Recorded on executor stacks (same events as StackObs) plus
     ExternalCancel(f, c = i, a)    somebody outside the stack cancelled the future that tap i had returned for f
                                    (a = 1: that cancel succeeded)
     Observed(f, s, t)              state changes of the top-level future
   Clauses
     C03_AllDoneAtEnd         every future the (not shut down) executor returned is terminal at the end of the
                              execution; the horizon is far beyond everything the configuration implies
     C03_ExternalCancelEnds   ... in particular one whose inner future was cancelled from outside: it ends
                              cancelled or failed, not pending for ever
     C03_NoFallbackTimer      with a single submission (no contention) the future is done no later than the time
                              implied by the configuration: submit time + attempts x duration + retry sleeps +
                              poll interval (if the poll function resolves on its second call) + the flat-mapped
                              future's own delay, plus a few ticks of slack - in particular NOT 2 s / 30 s later
                              (the throttle thread's re-check timers) or one poll interval later than necessary.
   The number of attempts comes from the sequential oracle StackObs!Run.
*)
EXTENDS ObsKit
S == INSTANCE StackObs

SLACK == 25
PollInterval == 200
InnerDelay == 50

ObsInit == [base |-> S!ObsInit, nsubs |-> 0, subt |-> EmptyMap, dur |-> EmptyMap, donet |-> EmptyMap,
            xc |-> {}, returned |-> {}, down |-> FALSE, contended |-> FALSE]

ObsNext(st, e) ==
  LET b == S!ObsNext(st.base, e) IN
  CASE e.ev = "Sub" -> [st EXCEPT !.base = b, !.nsubs = @ + 1, !.dur = Put(@, e.f, e.a)]
    [] e.ev = "Base" -> [st EXCEPT !.base = b, !.contended = (e.s = "sync")]
    [] e.ev = "SubmitCall" -> [st EXCEPT !.base = b, !.subt = Put(@, e.f, e.t)]
    [] e.ev = "SubmitRet" -> [st EXCEPT !.base = b, !.returned = @ \cup {e.f}]
    [] e.ev = "Observed" /\ e.s \in Terminal /\ ~Has(st.donet, e.f) -> [st EXCEPT !.base = b, !.donet = Put(@, e.f, e.t)]
    [] e.ev = "ExternalCancel" /\ e.a = 1 -> [st EXCEPT !.base = b, !.xc = @ \cup {e.f}]
    [] e.ev = "ShutdownCall" -> [st EXCEPT !.base = b, !.down = TRUE]
    [] OTHER -> [st EXCEPT !.base = b]

Layers(st) == st.base.layers
MaxSleep(st) == LET ls == Layers(st) IN
                  IF \E i \in DOMAIN ls : ls[i].s = "retry"
                    THEN CHOOSE m \in {ls[i].b : i \in {x \in DOMAIN ls : ls[x].s = "retry"}} :
                           \A i \in {x \in DOMAIN ls : ls[x].s = "retry"} : ls[i].b <= m
                    ELSE 0
NPollSecond(st) == Cardinality({i \in DOMAIN Layers(st) : Layers(st)[i].s = "poll" /\ Layers(st)[i].xs[3] = 2})
NLater(st) == Cardinality({i \in DOMAIN Layers(st) : Layers(st)[i].s = "flat_map" /\ Layers(st)[i].xs[1] = 5})
Attempts(st, f) == S!Expected(st.base, f)[2]
\* every attempt may pass through every flat-mapped / polled layer again (they sit above or below the retry layer)
Bound(st, f) ==
  LET n == Attempts(st, f) IN
    st.subt[f] + n * (st.dur[f] + NLater(st) * InnerDelay + NPollSecond(st) * (PollInterval + 2)) + (n - 1) * (MaxSleep(st) + 2) + SLACK

Judged(st, f) == f \in st.returned /\ ~st.down /\ f \notin st.base.cancelled /\ f < 90

Clauses(st, e) ==
  << <<"C03_AllDoneAtEnd",
        (e.ev = "Final" /\ Judged(st, e.f) /\ e.f \notin st.xc) => e.s \in Terminal>>,
     <<"C03_ExternalCancelEnds",
        (e.ev = "Final" /\ e.f \in st.returned /\ ~st.down /\ e.f \in st.xc) => e.s \in Terminal>>,
     <<"C03_NoFallbackTimer",
        (e.ev = "Final" /\ Judged(st, e.f) /\ e.f \notin st.xc /\ st.nsubs = 1 /\ Has(st.donet, e.f)
           /\ Has(st.subt, e.f) /\ Has(st.dur, e.f)) => st.donet[e.f] <= Bound(st, e.f)>> >>
=============================================================================
