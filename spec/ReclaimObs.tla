---------------------------- MODULE ReclaimObs ----------------------------
(* Contract of C12: "Worker threads and references are reclaimed; pending futures keep working".

   Events:
     ThreadStart(s = name, r = role) / ThreadExit(s = name, r = role)     r in retry / poll / throttle / timeout
     Action(s = "drop" | "exit" | "shutdown")   the last user reference to the executor is dropped / the interpreter
                                                exit hook fires / shutdown(wait=False) is called
     Pending(f)                                 future f was still pending when the action happened
     Observed(f, s)                             state changes of the tracked futures
     WeakDead(s = what, k = job, a)             after the user dropped everything belonging to finished job k and ran
                                                gc.collect(): a = 1 iff the weak reference to its
                                                future / callable / argument / result is dead
     End
   Scenario mode "ftshared" (f_timeout's shared executor, SharedTimeout.tla): nobody but the library ever holds that
   executor, so Action("drop") is the first event; Pending(f) is emitted just before each f_timeout() call.
*)
EXTENDS ObsKit

WorkerRoles == {"retry", "poll", "throttle", "timeout"}

ObsInit == [live |-> {}, acted |-> FALSE, action |-> "", pending |-> {}, done |-> {}]

ObsNext(st, e) ==
  CASE e.ev = "ThreadStart" /\ e.r \in WorkerRoles -> [st EXCEPT !.live = @ \cup {e.s}]
    [] e.ev = "ThreadExit" /\ e.r \in WorkerRoles -> [st EXCEPT !.live = @ \ {e.s}]
    [] e.ev = "Action" -> [st EXCEPT !.acted = TRUE, !.action = e.s]
    [] e.ev = "Pending" -> [st EXCEPT !.pending = @ \cup {e.f}]
    [] e.ev = "Observed" /\ e.s \in Terminal -> [st EXCEPT !.done = @ \cup {e.f}]
    [] OTHER -> st

Clauses(st, e) ==
  << <<"C12_ThreadExits",
        (e.ev = "End" /\ st.acted) => st.live = {}>>,
     <<"C12_WorkerSurvivesUntilAsked",
        (e.ev = "ThreadExit" /\ e.r \in WorkerRoles) => (st.acted /\ e.a = 0)>>,
     <<"C12_NoRetention",
        e.ev = "WeakDead" => e.a = 1>>,
     <<"C12_PendingStillCompletes",
        (e.ev = "End" /\ st.action = "drop") => st.pending \subseteq st.done>> >>
=============================================================================
