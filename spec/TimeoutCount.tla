---------------------------- MODULE TimeoutCount ----------------------------
(* The counter more_executors_timeout_total ("futures cancelled due to timeout", C20) along one pass of
   TimeoutExecutor._job_loop_iter (more_executors/_impl/timeout.py):

       with _jobs_lock:  partition the jobs: overdue = not done and past the deadline          (Scan)
       for job in overdue:  if job.future.cancel(): TIMEOUT.inc()                               (CancelOne)

   Between the partition and a job's cancel() the user may cancel that future (UserCancel) or its work may end
   (Finish).  concurrent.futures.Future.cancel() answers True on a future that is ALREADY cancelled, so

       AsShipped_D18 = TRUE   (the code as it is) counts a future the user cancelled in that window: the counter is one
                              too high for ever - known finding D18 of property C20;
       AsShipped_D18 = FALSE  a counter incremented only when the timeout thread's own call changed the future's state
                              (what an exact repair would have to establish atomically with other cancellers).

   The deadlines are abstracted away: every future of Futs is overdue when the pass begins.  TLC refutes CountExact for
   the shipped variant in three steps (Scan, UserCancel(f), CancelOne(f)): the negative control of mxv/controls.py; the
   real executions that show it are matched by the signature of D18 in known_findings.json.
*)
EXTENDS Naturals, FiniteSets

CONSTANTS Futs, AsShipped_D18

VARIABLES st,       \* f -> "pending" | "ucancelled" (by the user) | "tcancelled" (by the timeout thread) | "done"
          pc,       \* the timeout thread: "scan" | "cancel" | "idle"
          ov,       \* overdue futures it has partitioned and still has to cancel
          count     \* more_executors_timeout_total
vars == <<st, pc, ov, count>>

Init == st = [f \in Futs |-> "pending"] /\ pc = "scan" /\ ov = {} /\ count = 0

Scan ==
  /\ pc = "scan"
  /\ ov' = {f \in Futs : st[f] = "pending"}
  /\ pc' = IF ov' = {} THEN "idle" ELSE "cancel"
  /\ UNCHANGED <<st, count>>

CancelOne(f) ==
  /\ pc = "cancel" /\ f \in ov
  /\ ov' = ov \ {f}
  /\ pc' = IF ov' = {} THEN "idle" ELSE "cancel"
  /\ CASE st[f] = "pending"    -> st' = [st EXCEPT ![f] = "tcancelled"] /\ count' = count + 1
       [] st[f] = "ucancelled" -> UNCHANGED st /\ count' = (IF AsShipped_D18 THEN count + 1 ELSE count)   \* cancel() is True
       [] OTHER                -> UNCHANGED <<st, count>>                                              \* done: False

UserCancel(f) == st[f] = "pending" /\ st' = [st EXCEPT ![f] = "ucancelled"] /\ UNCHANGED <<pc, ov, count>>
Finish(f)     == st[f] = "pending" /\ st' = [st EXCEPT ![f] = "done"] /\ UNCHANGED <<pc, ov, count>>

Next == Scan \/ \E f \in Futs : CancelOne(f) \/ UserCancel(f) \/ Finish(f)
Spec == Init /\ [][Next]_vars

\* the counter is the number of futures a timeout cancelled - at every instant
CountExact == count = Cardinality({f \in Futs : st[f] = "tcancelled"})
TypeOK == count \in 0..Cardinality(Futs) /\ ov \subseteq Futs
=============================================================================
