---------------------------- MODULE ExitRegistry ----------------------------
(* The registry of shutdown-aware events (more_executors/_impl/event.py) against the worker loops that sleep on them:

       class ShutdownAwareEventHandler:
           def clean_events(self, *_):                  # weakref callback of a registered Event
               with self.lock:
                   self.events = [r for r in self.events if r()]          # a NEW list replaces the old one
           def on_exiting(self):                        # atexit hook - takes no lock
               self.shutdown = True
               for r in self.events:                    # iterates (by index) the list object current at this moment
                   evt = r();  evt and evt.set()
           def get_event(self):
               with self.lock:
                   out = Event(); self.events.append(weakref.ref(out, self.clean_events)); return out   # IN PLACE

   Every executor with a worker thread gets one such event at construction; its loop checks `is_shutdown()` at the top
   of every iteration and then sleeps on the event.  Executors are constructed (threads c<x>) and some are dropped again
   (their worker finds the weak reference dead, exits, the Event dies with the thread's frame and clean_events runs in
   that thread) while the interpreter-exit hook runs in another thread.

   Why it works, and what TLC checks on every interleaving: an event registered before the hook's loop begins is in
   the list object the loop iterates (appends are in place, rebuilds copy under the lock); one registered later
   belongs to a worker whose first flag check comes after `shutdown = True`.  Hence
     * ThreadsGone     once the hook has returned and everybody has finished, no worker is left sleeping,
     * ContractHolds   the C12 contract (ReclaimObs) over the events the model emits.
   Seeded model bugs (controls): flag set after the loop; rebuild in place (the index iteration skips an entry);
   rebuild without the lock (an append between its read and its write is lost).
*)
EXTENDS ReclaimObs

CONSTANTS NE,          \* executors ever constructed
          Drops,       \* subset of 1..NE: executors their creator drops again
          Bug

X == 1..NE
Free == <<"-", 0>>
Lists == 1..(NE + 2)   \* list objects ever created (the initial one + one per rebuild)

VARIABLES lock,        \* Free | <<"c", x>> | <<"k", x>>
          lst, cur, nl,          \* list objects (sequences of event ids), the one self.events refers to, how many exist
          flag,                  \* GLOBAL_HANDLER.shutdown
          cpc,                   \* creator of x: "start" | "locked" | "appended" | "made" | "done"
          xalive,                \* executor x exists and is referenced by its user
          ealive,                \* Event x exists (its weak reference is live)
          evt,                   \* Event x is set
          wpc,                   \* worker of x: "none" | "check" | "wait" | "blocked" | "clear" | "klock" | "kread" | "kwrite" | "kunlock" | "exited"
          ksnap,                 \* per worker: the filtered copy its rebuild computed
          hpc, hlist, hpos,      \* the exit hook: "idle" | "flag" | "iter" | "done"; list object and index of its loop
          ended, obs, viol
vars == <<lock, lst, cur, nl, flag, cpc, xalive, ealive, evt, wpc, ksnap, hpc, hlist, hpos, ended, obs, viol>>

RECURSIVE Feed(_, _, _)
Feed(o, v, evs) ==
  IF evs = <<>> THEN <<o, v>>
  ELSE LET e == Head(evs)
           ff == FirstFailed(Clauses(o, e))
       IN Feed(ObsNext(o, e), IF v = "ok" THEN ff ELSE v, Tail(evs))
Emit(evs) == LET r == Feed(obs, viol, evs) IN obs' = r[1] /\ viol' = r[2]
NoEmit == UNCHANGED <<obs, viol>>

WName(x) == "RetryExecutor-w" \o ToString(x)
EvThread(ev, x, a) == Ev(ev, WName(x), "retry", 0, -1, -1, a, -1, -1, WName(x), <<>>)
EvAction(s) == Ev("Action", "-", "main", 0, -1, -1, -1, -1, -1, s, <<>>)

Init ==
  /\ lock = Free /\ lst = [l \in Lists |-> <<>>] /\ cur = 1 /\ nl = 1 /\ flag = FALSE
  /\ cpc = [x \in X |-> "start"] /\ xalive = [x \in X |-> FALSE] /\ ealive = [x \in X |-> FALSE]
  /\ evt = [x \in X |-> FALSE] /\ wpc = [x \in X |-> "none"] /\ ksnap = [x \in X |-> <<>>]
  /\ hpc = "idle" /\ hlist = 0 /\ hpos = 0 /\ ended = FALSE
  /\ obs = ObsInit /\ viol = "ok"

\* ------------------------------------------------------------------ constructing an executor: get_event()
CLock(x) ==
  /\ cpc[x] = "start" /\ lock = Free
  /\ lock' = <<"c", x>> /\ cpc' = [cpc EXCEPT ![x] = "locked"] /\ NoEmit
  /\ UNCHANGED <<lst, cur, nl, flag, xalive, ealive, evt, wpc, ksnap, hpc, hlist, hpos, ended>>

CAppend(x) ==      \* self.events.append(weakref.ref(out, ...)): in place, on the list object current now
  /\ cpc[x] = "locked"
  /\ ealive' = [ealive EXCEPT ![x] = TRUE]
  /\ lst' = [lst EXCEPT ![cur] = Append(@, x)]
  /\ cpc' = [cpc EXCEPT ![x] = "appended"] /\ NoEmit
  /\ UNCHANGED <<lock, cur, nl, flag, xalive, evt, wpc, ksnap, hpc, hlist, hpos, ended>>

CUnlock(x) ==
  /\ cpc[x] = "appended"
  /\ lock' = Free /\ cpc' = [cpc EXCEPT ![x] = "made"] /\ NoEmit
  /\ UNCHANGED <<lst, cur, nl, flag, xalive, ealive, evt, wpc, ksnap, hpc, hlist, hpos, ended>>

CStart(x) ==       \* the rest of the constructor: the worker thread starts
  /\ cpc[x] = "made"
  /\ xalive' = [xalive EXCEPT ![x] = TRUE] /\ wpc' = [wpc EXCEPT ![x] = "check"]
  /\ cpc' = [cpc EXCEPT ![x] = IF x \in Drops THEN "todrop" ELSE "done"]
  /\ Emit(<<EvThread("ThreadStart", x, -1)>>)
  /\ UNCHANGED <<lock, lst, cur, nl, flag, ealive, evt, ksnap, hpc, hlist, hpos, ended>>

CDrop(x) ==        \* the user drops the executor: its own weakref callback sets the event
  /\ cpc[x] = "todrop"
  /\ xalive' = [xalive EXCEPT ![x] = FALSE] /\ evt' = [evt EXCEPT ![x] = TRUE]
  /\ cpc' = [cpc EXCEPT ![x] = "done"]
  /\ Emit(<<EvAction("drop")>>)
  /\ UNCHANGED <<lock, lst, cur, nl, flag, ealive, wpc, ksnap, hpc, hlist, hpos, ended>>

\* ------------------------------------------------------------------ the worker loop of x
WCheck(x) ==       \* executor = ref(); if not executor: break; if ... is_shutdown(): break
  /\ wpc[x] = "check"
  /\ IF ~xalive[x]
       THEN \* the frame dies, the Event with it: clean_events runs here, in this thread
            /\ ealive' = [ealive EXCEPT ![x] = FALSE] /\ wpc' = [wpc EXCEPT ![x] = "klock"] /\ NoEmit
       ELSE IF flag
         THEN /\ wpc' = [wpc EXCEPT ![x] = "exited"] /\ UNCHANGED ealive
              /\ Emit(<<EvThread("ThreadExit", x, 0)>>)
         ELSE wpc' = [wpc EXCEPT ![x] = "wait"] /\ UNCHANGED ealive /\ NoEmit
  /\ UNCHANGED <<lock, lst, cur, nl, flag, cpc, xalive, evt, ksnap, hpc, hlist, hpos, ended>>

WWait(x) ==
  /\ wpc[x] = "wait"
  /\ wpc' = [wpc EXCEPT ![x] = IF evt[x] THEN "clear" ELSE "blocked"] /\ NoEmit
  /\ UNCHANGED <<lock, lst, cur, nl, flag, cpc, xalive, ealive, evt, ksnap, hpc, hlist, hpos, ended>>

WWake(x) ==
  /\ wpc[x] = "blocked" /\ evt[x]
  /\ wpc' = [wpc EXCEPT ![x] = "clear"] /\ NoEmit
  /\ UNCHANGED <<lock, lst, cur, nl, flag, cpc, xalive, ealive, evt, ksnap, hpc, hlist, hpos, ended>>

WClear(x) ==
  /\ wpc[x] = "clear"
  /\ evt' = [evt EXCEPT ![x] = FALSE] /\ wpc' = [wpc EXCEPT ![x] = "check"] /\ NoEmit
  /\ UNCHANGED <<lock, lst, cur, nl, flag, cpc, xalive, ealive, ksnap, hpc, hlist, hpos, ended>>

\* clean_events, run by the exiting worker of a dropped executor
KLock(x) ==
  /\ wpc[x] = "klock" /\ (lock = Free \/ Bug = "rebuild_unlocked")
  /\ lock' = (IF Bug = "rebuild_unlocked" THEN lock ELSE <<"k", x>>)
  /\ wpc' = [wpc EXCEPT ![x] = "kread"] /\ NoEmit
  /\ UNCHANGED <<lst, cur, nl, flag, cpc, xalive, ealive, evt, ksnap, hpc, hlist, hpos, ended>>

KRead(x) ==        \* [r for r in self.events if r()]
  /\ wpc[x] = "kread"
  /\ ksnap' = [ksnap EXCEPT ![x] = SelectSeq(lst[cur], LAMBDA y : ealive[y])]
  /\ wpc' = [wpc EXCEPT ![x] = "kwrite"] /\ NoEmit
  /\ UNCHANGED <<lock, lst, cur, nl, flag, cpc, xalive, ealive, evt, hpc, hlist, hpos, ended>>

KWrite(x) ==       \* self.events = <the new list>
  /\ wpc[x] = "kwrite"
  /\ IF Bug = "rebuild_in_place"
       THEN lst' = [lst EXCEPT ![cur] = ksnap[x]] /\ UNCHANGED <<cur, nl>>
       ELSE lst' = [lst EXCEPT ![nl + 1] = ksnap[x]] /\ cur' = nl + 1 /\ nl' = nl + 1
  /\ wpc' = [wpc EXCEPT ![x] = "kunlock"] /\ NoEmit
  /\ UNCHANGED <<lock, flag, cpc, xalive, ealive, evt, ksnap, hpc, hlist, hpos, ended>>

KUnlock(x) ==
  /\ wpc[x] = "kunlock"
  /\ lock' = (IF lock = <<"k", x>> THEN Free ELSE lock)
  /\ wpc' = [wpc EXCEPT ![x] = "exited"]
  /\ Emit(<<EvThread("ThreadExit", x, 0)>>)
  /\ UNCHANGED <<lst, cur, nl, flag, cpc, xalive, ealive, evt, ksnap, hpc, hlist, hpos, ended>>

\* ------------------------------------------------------------------ the interpreter-exit hook (no lock)
HFlag ==
  /\ hpc = "idle"
  /\ flag' = (Bug # "flag_after_loop") /\ hpc' = "flag"
  /\ Emit(<<EvAction("exit")>>)
  /\ UNCHANGED <<lock, lst, cur, nl, cpc, xalive, ealive, evt, wpc, ksnap, hlist, hpos, ended>>

HIter ==           \* for r in self.events: the list object current now, by index
  /\ hpc = "flag"
  /\ hlist' = cur /\ hpos' = 1 /\ hpc' = "iter" /\ NoEmit
  /\ UNCHANGED <<lock, lst, cur, nl, flag, cpc, xalive, ealive, evt, wpc, ksnap, ended>>

HStep ==
  /\ hpc = "iter"
  /\ IF hpos <= Len(lst[hlist])
       THEN LET y == lst[hlist][hpos] IN
            /\ evt' = IF ealive[y] THEN [evt EXCEPT ![y] = TRUE] ELSE evt
            /\ hpos' = hpos + 1 /\ UNCHANGED <<hpc, flag>>
       ELSE /\ hpc' = "done" /\ flag' = TRUE /\ UNCHANGED <<evt, hpos>>
  /\ NoEmit
  /\ UNCHANGED <<lock, lst, cur, nl, cpc, xalive, ealive, wpc, ksnap, hlist, ended>>

Core ==
  \/ HFlag \/ HIter \/ HStep
  \/ \E x \in X : CLock(x) \/ CAppend(x) \/ CUnlock(x) \/ CStart(x) \/ CDrop(x)
                  \/ WCheck(x) \/ WWait(x) \/ WWake(x) \/ WClear(x) \/ KLock(x) \/ KRead(x) \/ KWrite(x) \/ KUnlock(x)

Quiescent == ~ENABLED Core

Finish ==
  /\ Quiescent /\ ~ended
  /\ ended' = TRUE
  /\ Emit(<<Ev("End", "main", "main", 0, -1, -1, -1, -1, -1, "", <<>>)>>)
  /\ UNCHANGED <<lock, lst, cur, nl, flag, cpc, xalive, ealive, evt, wpc, ksnap, hpc, hlist, hpos>>

Next == Core \/ Finish
Spec == Init /\ [][Next]_vars

\* ------------------------------------------------------------------ properties
ThreadsGone   == Quiescent => \A x \in X : wpc[x] \in {"none", "exited"}
HookReturns   == Quiescent => hpc = "done"
\* every live event is reachable from the registry whenever nobody is in the middle of an update
Registered    == (lock = Free /\ \A x \in X : wpc[x] \notin {"kread", "kwrite", "kunlock"}) =>
                   \A x \in X : (ealive[x] /\ cpc[x] \notin {"locked"}) => \E i \in DOMAIN lst[cur] : lst[cur][i] = x
ContractHolds == viol = "ok"
=============================================================================
