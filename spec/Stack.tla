---------------------------- MODULE Stack ----------------------------
(* Program enumeration and self-consistency of the C01 oracle (StackObs.Run).

   TLC enumerates every program = (layer stack of depth <= MaxDepth over LayerKinds, outcome script of the
   callable); for each it
     * checks lemmas about the sequential semantics (the oracle must be a sane reading of the English
       statement: exactly one invocation without a retry layer, never more than the product of the retry
       limits, identity layers do not change the outcome, a successful outcome carries the value of the LAST
       invocation under all tags in stack order, a callable's own exception is passed by identity), and
     * prints the program (<<"PROG", kinds, script>>), which the checker turns into one real execution family
       of the library (spec -> code): the same layer stack is built with the public Executors API and run
       under many schedules, and every recorded execution is judged by StackObs (code -> spec).
*)
EXTENDS StackObs

CONSTANTS MaxDepth, Emit

LayerKinds == {"map_tag", "map_raise", "map_efn_tag", "map_efn_raise", "map_efn_reraise", "map_both",
               "flat_tag", "flat_later", "flat_nonfuture", "flat_none", "flat_efn_fail", "flat_efn_nonfuture",
               "map_fn_none", "map_efn_none",
               "retry2", "retry3", "poll_first", "poll_second",
               "throttle1", "throttle_none", "timeout", "cos"}
ScriptSet == {<<0>>, <<1, 0>>, <<1, 1, 1>>, <<2>>, <<1, 2>>, <<1, 1, 0>>}

LayerEv(kind, i) ==
  LET t == CASE kind \in {"map_tag", "map_raise", "map_efn_tag", "map_efn_raise", "map_efn_reraise", "map_both",
                          "map_fn_none", "map_efn_none"} -> "map"
             [] kind \in {"flat_tag", "flat_later", "flat_nonfuture", "flat_none", "flat_efn_fail", "flat_efn_nonfuture"} -> "flat_map"
             [] kind \in {"retry2", "retry3"} -> "retry"
             [] kind \in {"poll_first", "poll_second"} -> "poll"
             [] kind \in {"throttle1", "throttle_none"} -> "throttle"
             [] kind = "timeout" -> "timeout" [] OTHER -> "cos"
      fn == CASE kind \in {"map_tag", "map_both", "flat_tag"} -> 1 [] kind = "map_raise" -> 2
              [] kind = "flat_nonfuture" -> 4 [] kind = "flat_later" -> 5 [] kind = "map_fn_none" -> 6 [] OTHER -> 0
      efn == CASE kind \in {"map_efn_tag", "map_both"} -> 1 [] kind = "map_efn_raise" -> 2
               [] kind = "map_efn_reraise" -> 3 [] kind = "flat_efn_fail" -> 4 [] kind = "flat_efn_nonfuture" -> 5
               [] kind = "map_efn_none" -> 6 [] OTHER -> 0
      a == CASE kind = "retry2" -> 2 [] kind = "retry3" -> 3 [] kind = "throttle1" -> 1 [] OTHER -> -1
  IN Ev("Layer", "-", "main", 0, -1, i, a, 100, 0, t, <<fn, efn, IF kind = "poll_second" THEN 2 ELSE IF kind = "poll_first" THEN 1 ELSE 0>>)

RECURSIVE SeqsUpTo(_)
SeqsUpTo(n) == IF n = 0 THEN {<<>>} ELSE LET S == SeqsUpTo(n - 1) IN S \cup {Append(s, k) : s \in {x \in S : Len(x) = n - 1}, k \in LayerKinds}

VARIABLES kinds, script, done
vars == <<kinds, script, done>>

\* the observable state after the Layer / Sub events of this program and `n` finished invocations with ids 101..
StOf(ks, sc, n) ==
  [ObsInit EXCEPT !.layers = [i \in 1..Len(ks) |-> LayerEv(ks[i], i)],
                  !.script = Put(EmptyMap, 1, sc),
                  !.inv = Put(EmptyMap, 1, [k \in 1..n |-> <<sc[Min(k, Len(sc))], 100 + k>>]),
                  !.started = Put(EmptyMap, 1, n)]

Init == kinds \in SeqsUpTo(MaxDepth) /\ script \in ScriptSet /\ done = FALSE
Next == ~done /\ done' = TRUE /\ UNCHANGED <<kinds, script>>
Spec == Init /\ [][Next]_vars

Exp == Expected(StOf(kinds, script, 30), 1)
Res == Exp[1]
Cnt == Exp[2]
IsId(k) == k \in {"throttle1", "throttle_none", "timeout", "cos"}
RetryProduct == LET f[i \in 0..Len(kinds)] == IF i = 0 THEN 1 ELSE f[i - 1] * (IF kinds[i] = "retry2" THEN 2 ELSE IF kinds[i] = "retry3" THEN 3 ELSE 1) IN f[Len(kinds)]
NoRetry == \A i \in DOMAIN kinds : kinds[i] \notin {"retry2", "retry3"}
Stripped == SelectSeq(kinds, LAMBDA k : ~IsId(k))
\* renumbering of layer indices changes the tags, so compare shapes only: ok flag, count, exception identity
Shape(r) == <<r.ok, r.kind, r.id, r.cls, Len(r.term)>>

L_CountBounds == Cnt >= 1 /\ Cnt <= RetryProduct
L_OnceWithoutRetry == NoRetry => Cnt = 1
L_IdentityLayers == LET e2 == Expected(StOf(Stripped, script, 30), 1) IN Shape(e2[1]) = Shape(Res) /\ e2[2] = Cnt
L_LastInvocationValue == Res.ok => (Res.term[Len(Res.term)] < 0 \/ Res.term[Len(Res.term)] \in {100 + k : k \in 1..Cnt})
L_OwnExceptionByIdentity == (~Res.ok /\ Res.kind \in {1, 2}) => Res.id \in {100 + k : k \in 1..Cnt}
L_TagsInStackOrder ==
  Res.ok => \A a, b \in 1..(Len(Res.term) - 1) :
      (a < b /\ Res.term[a] >= 1000 /\ Res.term[b] >= 1000 /\ Res.term[b] < 4000 /\ Res.term[a] < 4000) =>
          (Res.term[a] % 1000) > (Res.term[b] % 1000)
PrintProg == (Emit /\ done) => PrintT(<<"PROG", kinds, script, Cnt>>)
=============================================================================
