---------------------------- MODULE ApplyObs ----------------------------
(* Contract of C16: "f_apply calls the function once, with every argument in its place", over
   API-observable events only.

   One execution = one call  out = f_apply(future_fn, *future_args, **future_kwargs)  with np positional and
   nk keyword argument futures.  Inputs are numbered 0 (the function future), 1..np (positional, in order),
   np+1..np+nk (keyword arguments k1..k<nk>, in that order).  The value carried by input i has id ValId(i), the
   exception it fails with has id ExcId(i) (ids are given by the harness by object identity); the exception
   raised by the function itself has id FNEXC.

   Events (fixed record, see ObsKit):
     Cfg(a = np, b = nk)
     InputSet(k = input index, a = 0 value / 1 exception, b = id)    emitted just BEFORE the input future is
                                                                     resolved (so "fn called before all inputs
                                                                     resolved" is visible as a wrong order)
     FnCalled(a = number of positional arguments received, c = number of keyword arguments received,
              xs = ids of the positional arguments in the order received, then <<j, id>> for every keyword
                   argument received under the name k<j>, ascending j; an unknown name is j = 99)
     FnRaise(b = FNEXC)                                              the function itself raised
     Result(s = state of the output future, a = 0 value / 1 exception, b = id of the exception,
            xs = the arguments found in the value: the recording function returns a record of exactly what it
                 received, encoded like FnCalled.xs - a non-commutative function of its arguments)
     End
*)
EXTENDS ObsKit

ValId(i) == 200 + i
ExcId(i) == 300 + i
FNEXC == 399

\* fn( *args, **kwargs) with every argument in its place: <<v_1 .. v_np, 1, v_np+1, .., nk, v_np+nk>>
ExpArgs(np, nk) ==
  [i \in 1..np |-> ValId(i)] \o
  [j \in 1..(2 * nk) |-> IF j % 2 = 1 THEN (j + 1) \div 2 ELSE ValId(np + (j \div 2))]

ObsInit == [cfgd |-> FALSE, np |-> 0, nk |-> 0,
            set |-> {},        \* inputs resolved (or being resolved) so far
            failed |-> {},     \* ids of the exceptions of failed inputs
            calls |-> 0,       \* calls of the function seen
            fnexc |-> -1]      \* id of the exception the function raised, if it did

All(st) == 0..(st.np + st.nk)

ObsNext(st, e) ==
  CASE e.ev = "Cfg" -> [st EXCEPT !.cfgd = TRUE, !.np = e.a, !.nk = e.b]
    [] e.ev = "InputSet" -> [st EXCEPT !.set = @ \cup {e.k}, !.failed = IF e.a = 1 THEN @ \cup {e.b} ELSE @]
    [] e.ev = "FnCalled" -> [st EXCEPT !.calls = @ + 1]
    [] e.ev = "FnRaise" -> [st EXCEPT !.fnexc = e.b]
    [] OTHER -> st

Complete(st) == st.cfgd /\ st.set = All(st)
AnyFailure(st) == st.failed # {} \/ st.fnexc # -1

Clauses(st, e) ==
  << <<"C16_CalledOnceAfterAll",     \* exactly once, and only after all inputs have resolved
        /\ (e.ev = "FnCalled" /\ st.cfgd) => (st.calls = 0 /\ st.set = All(st))
        /\ (e.ev = "End" /\ Complete(st) /\ st.failed = {}) => st.calls = 1>>,
     <<"C16_ArgsInPlace",            \* every positional argument in its position, every keyword under its name
        (e.ev = "FnCalled" /\ st.cfgd) =>
            (e.a = st.np /\ e.c = st.nk /\ e.xs = ExpArgs(st.np, st.nk))>>,
     <<"C16_Result",                 \* the output resolves to fn( *args, **kwargs)
        (e.ev = "Result" /\ Complete(st) /\ ~AnyFailure(st)) =>
            (e.s = "FINISHED" /\ e.a = 0 /\ e.xs = ExpArgs(st.np, st.nk))>>,
     <<"C16_FailurePropagates",      \* any input or fn itself fails: the output fails with that exception
        (e.ev = "Result" /\ Complete(st) /\ AnyFailure(st)) =>
            (e.s = "FINISHED" /\ e.a = 1 /\ e.b \in (st.failed \cup {st.fnexc}) /\ e.b # -1)>> >>
=============================================================================
