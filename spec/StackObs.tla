---------------------------- MODULE StackObs ----------------------------
(* Contract of C01: "Composed executors deliver each callable's own outcome, exactly once".

   The oracle is a sequential evaluation of the layer stack, written here as the recursive operator Run:
   given the stack (bottom -> top), the per-invocation outcome script of the callable and the behaviour
   of the user functions in the stack, it yields the outcome *term* the top-level future must carry and the
   exact number of invocations of the callable.  User functions are injective taggers (g_i(v) = <<1000+i>> \o v,
   error functions <<2000+i, id>>, poll results <<3000+i>> \o v), so a swapped, duplicated or dropped value
   cannot produce the right term; exception objects are compared by identity (ids).

   Events (recorded from the real stack built with the public Executors API):
     Layer(k = index from the bottom, s = type, a = max_attempts | count | timeout, xs = <<fn, efn, poll mode>>)
       fn:  0 absent, 1 tags, 2 raises, 4 returns a non-future (flat_map), 5 returns a future resolved later,
            6 returns None (map: a value like any other, term <<-5>>)
       efn: 0 absent, 1 tags, 2 raises a new exception, 3 re-raises the same exception, 5 (flat_map) returns a non-future,
            4 (flat_map) returns a future that already failed with an exception of its own, 6 returns None
     Sub(f, xs = script: 0 value, 1 exception in the retry policy's exception_base, 2 other exception)
     Args(f, xs = ids of the positional arguments, a = number of keyword arguments)
     Invoke(f, k, xs, a) / InvokeEnd(f, k, a = kind, b = id of the value / exception object)
     CancelCall(f), ShutdownCall
     Final(f, s = state, a = 0 value / 1 exception, xs = outcome term (value) or <<exception id>>,
           k = layer that raised (LayerError) or -1, b = exception class: 1 TypeError, 2 LayerError, 3/4 user)
     End
*)
EXTENDS ObsKit

ObsInit == [layers |-> <<>>,        \* sequence of Layer events, bottom -> top
            script |-> EmptyMap, args |-> EmptyMap, nkw |-> EmptyMap,
            inv |-> EmptyMap,       \* f -> sequence of <<kind, id>> of finished invocations
            started |-> EmptyMap,   \* f -> number of Invoke events
            cancelled |-> {}, down |-> FALSE]

ObsNext(st, e) ==
  CASE e.ev = "Layer" -> [st EXCEPT !.layers = Append(@, e)]
    [] e.ev = "Sub" -> [st EXCEPT !.script = Put(@, e.f, e.xs), !.inv = Put(@, e.f, <<>>), !.started = Put(@, e.f, 0)]
    [] e.ev = "Args" -> [st EXCEPT !.args = Put(@, e.f, e.xs), !.nkw = Put(@, e.f, e.a)]
    [] e.ev = "Invoke" /\ Has(st.started, e.f) -> [st EXCEPT !.started = Put(@, e.f, st.started[e.f] + 1)]
    [] e.ev = "InvokeEnd" /\ Has(st.inv, e.f) -> [st EXCEPT !.inv = Put(@, e.f, Append(st.inv[e.f], <<e.a, e.b>>))]
    [] e.ev = "CancelCall" -> [st EXCEPT !.cancelled = @ \cup {e.f}]
    [] e.ev = "ShutdownCall" -> [st EXCEPT !.down = TRUE]
    [] OTHER -> st

\* ------------------------------------------------------------------ the sequential oracle
\* a result: [ok, term]            value with its term
\*           [ok = FALSE, kind, id, lay, cls]   exception: kind 1/2 = the callable's own (id known), 9 = raised by
\*                                              layer `lay` (cls 2 LayerError / 1 TypeError)
Ok(term) == [ok |-> TRUE, term |-> term, kind |-> 0, id |-> -1, lay |-> -1, cls |-> 0]
Fail(kind, id, lay, cls) == [ok |-> FALSE, term |-> <<>>, kind |-> kind, id |-> id, lay |-> lay, cls |-> cls]

\* how an exception shows up inside a value term: its id, or a code for exceptions raised by a layer
ExcCode(r) == IF r.kind = 9 THEN (IF r.cls = 1 THEN -99 ELSE -(100 + r.lay)) ELSE r.id

InvId(st, f, k) == IF k <= Len(st.inv[f]) THEN st.inv[f][k][2] ELSE -1
ScriptAt(st, f, k) == LET s == st.script[f] IN s[Min(k, Len(s))]

RECURSIVE Run(_, _, _, _)
RECURSIVE RetryLoop(_, _, _, _, _, _)
\* Run(st, f, level, n) = <<result, invocations consumed so far>>
Run(st, f, level, n) ==
  IF level = 0
    THEN LET k == n + 1
             kind == ScriptAt(st, f, k)
         IN <<IF kind = 0 THEN Ok(<<InvId(st, f, k)>>) ELSE Fail(kind, InvId(st, f, k), -1, IF kind = 1 THEN 3 ELSE 4), k>>
    ELSE
      LET ly == st.layers[level]
          t == ly.s
      IN IF t = "retry"
           THEN RetryLoop(st, f, level, n, 1, IF ly.c = 7 THEN 1 ELSE ly.a)   \* c = 7: the policy raises -> no retry
           ELSE LET below == Run(st, f, level - 1, n)
                    r == below[1]
                    fn == ly.xs[1]
                    efn == ly.xs[2]
                    i == ly.k
                IN <<CASE t = "map" ->
                            IF r.ok THEN (IF fn = 1 THEN Ok(<<1000 + i>> \o r.term)
                                          ELSE IF fn = 2 THEN Fail(9, -1, i, 2)
                                          ELSE IF fn = 6 THEN Ok(<<-5>>) ELSE r)
                            ELSE (IF efn = 1 THEN Ok(<<2000 + i, ExcCode(r)>>)
                                  ELSE IF efn = 2 THEN Fail(9, -1, i, 2)
                                  ELSE IF efn = 6 THEN Ok(<<-5>>) ELSE r)
                       [] t = "flat_map" ->
                            IF r.ok THEN (IF fn \in {1, 5} THEN Ok(<<1000 + i>> \o r.term)
                                          ELSE IF fn = 2 THEN Fail(9, -1, i, 2)
                                          ELSE IF fn = 4 THEN Fail(9, -1, i, 1) ELSE r)
                            ELSE (IF efn = 4 THEN Fail(9, -1, i, 2)          \* error_fn returned an already failed future
                                  ELSE IF efn = 5 THEN Fail(9, -1, i, 1)     \* error_fn returned something that is no future
                                  ELSE r)
                       [] t = "poll" -> IF r.ok THEN Ok(<<3000 + i>> \o r.term) ELSE r
                       [] OTHER -> r,      \* throttle, timeout (large), cancel_on_shutdown: identities
                     below[2]>>

\* retry layer: re-evaluate everything below while the outcome is a retryable exception and attempts remain
RetryLoop(st, f, level, n, attempt, maxatt) ==
  LET below == Run(st, f, level - 1, n)
      r == below[1]
  IN IF ~r.ok /\ r.kind = 1 /\ attempt < maxatt
       THEN RetryLoop(st, f, level, below[2], attempt + 1, maxatt)
       ELSE below

Expected(st, f) == Run(st, f, Len(st.layers), 0)

Judged(st, e) == e.ev = "Final" /\ Has(st.script, e.f) /\ e.f \notin st.cancelled /\ ~st.down /\ e.f < 90

OutcomeMatches(r, e) ==
  /\ e.s = "FINISHED"
  /\ IF r.ok THEN e.a = 0 /\ e.xs = r.term
     ELSE /\ e.a = 1
          /\ IF r.kind = 9 THEN e.b = r.cls /\ (r.cls = 2 => e.k = r.lay)
                           ELSE e.xs = <<r.id>>

Clauses(st, e) ==
  << <<"C01_Outcome",
        Judged(st, e) => OutcomeMatches(Expected(st, e.f)[1], e)>>,
     <<"C01_InvocationsExact",
        Judged(st, e) => (Len(st.inv[e.f]) = Expected(st, e.f)[2] /\ st.started[e.f] = Expected(st, e.f)[2])>>,
     <<"C01_SubmitAccepted",   \* submit() of a live executor takes any callable with any arguments
        (e.ev = "SubmitRaise" /\ ~st.down) => FALSE>>,
     <<"C01_ScriptFollowed",   \* harness sanity: the k-th invocation really had the scripted kind
        (e.ev = "InvokeEnd" /\ Has(st.script, e.f)) => e.a = ScriptAt(st, e.f, e.k)>>,
     <<"C01_ArgumentsExact",
        (e.ev = "Invoke" /\ Has(st.args, e.f)) => (e.xs = st.args[e.f] /\ e.a = st.nkw[e.f])>>,
     <<"C01_NoExtraInvocation",
        (e.ev = "Invoke" /\ Has(st.script, e.f) /\ e.f \notin st.cancelled /\ ~st.down) =>
            st.started[e.f] < Expected(st, e.f)[2]>> >>
=============================================================================
