---------------------------- MODULE TimeoutObs ----------------------------
(* Contract of C09: "Timeouts fire exactly once, never early, and at the deadline"
   (TimeoutExecutor.submit / submit_timeout and f_timeout), over API-observable events only.

   Events (fixed record, see ObsKit):
     SubmitCall(f, a = timeout in ticks)   the client is about to call submit_timeout / f_timeout
     SubmitRet(f)                          ... and got the future back
     FutureCreated(f)                      the future that will be returned has just been created (optional: seen
                                           through the creation of its lock; tightens lo to this instant)
     CancelArrived(f, s = "outer", r)      cancel() called on the returned future by a thread of role r
                                           (r = "timeout": the executor's own worker thread)
     CancelArrivedRet(f, s = "outer", r)   ... that call has returned (a cancel() may take time: while the worker thread
                                           is inside one it cannot attempt another future's cancel)
     CancelCall(f)                         a client calls cancel() on the returned future
     InvokeEnd(f, a, b)                    the underlying work of f ended (a = 0 value / >0 exception, b = id)
     Observed(f, s, a, b)                  the returned future was seen in a new state s (a,b = outcome)
     End                                   end of the execution (virtual time t)
   The deadline of f is "creation time + timeout"; creation happens between SubmitCall and SubmitRet,
   so lo = SubmitCall.t + timeout <= deadline <= hi = SubmitRet.t + timeout (equal unless the delegate's
   submit itself took virtual time).  EPS is the slack of one timer hop per wake-up (the engine fires
   timers one tick late and the loop re-arms at most once).
*)
EXTENDS ObsKit

EPS == 2

ObsInit == [tmo |-> EmptyMap,   \* f -> timeout
            lo |-> EmptyMap,    \* f -> earliest possible deadline
            hi |-> EmptyMap,    \* f -> latest possible deadline (known once submit returned)
            att |-> EmptyMap,   \* f -> cancel attempts made by the timeout thread
            done |-> EmptyMap,  \* f -> time at which the future was first seen terminal
            ucan |-> {},        \* futures a client tried to cancel
            created |-> {},     \* futures whose creation was observed
            busy |-> 0,         \* time at which the worker thread's latest cancel() call returned
            endo |-> EmptyMap]  \* f -> <<a, b>> outcome of the underlying work

IsTimeoutCancel(e) == e.ev = "CancelArrived" /\ e.s = "outer" /\ e.r = "timeout"

ObsNext(st, e) ==
  CASE e.ev = "SubmitCall" -> [st EXCEPT !.tmo = Put(@, e.f, e.a), !.lo = Put(@, e.f, e.t + e.a),
                                         !.att = Put(@, e.f, 0)]
    [] e.ev = "FutureCreated" /\ Has(st.tmo, e.f) /\ ~Has(st.hi, e.f) /\ e.f \notin st.created ->
          [st EXCEPT !.lo = Put(@, e.f, e.t + st.tmo[e.f]), !.created = @ \cup {e.f}]
    [] e.ev = "SubmitRet" /\ Has(st.tmo, e.f) -> [st EXCEPT !.hi = Put(@, e.f, e.t + st.tmo[e.f])]
    [] IsTimeoutCancel(e) /\ Has(st.att, e.f) -> [st EXCEPT !.att = Put(@, e.f, st.att[e.f] + 1)]
    [] e.ev = "CancelArrivedRet" /\ e.s = "outer" /\ e.r = "timeout" -> [st EXCEPT !.busy = e.t]
    [] e.ev = "CancelCall" -> [st EXCEPT !.ucan = @ \cup {e.f}]
    [] e.ev = "InvokeEnd" -> [st EXCEPT !.endo = Put(@, e.f, <<IF e.a > 0 THEN 1 ELSE 0, e.b>>)]
    [] e.ev = "Observed" /\ e.s \in Terminal /\ ~Has(st.done, e.f) -> [st EXCEPT !.done = Put(@, e.f, e.t)]
    [] OTHER -> st

Clauses(st, e) ==
  << <<"C09_NeverEarly",
        (IsTimeoutCancel(e) /\ Has(st.lo, e.f)) => e.t >= st.lo[e.f]>>,
     <<"C09_AtDeadline",
        \* (at the deadline - or, if the worker thread was still inside another future's cancel() then, as soon as it was out)
        (IsTimeoutCancel(e) /\ Has(st.hi, e.f)) => e.t <= Max(st.hi[e.f], st.busy) + EPS>>,
     <<"C09_ExactlyOneAttempt",
        (IsTimeoutCancel(e) /\ Has(st.att, e.f)) => st.att[e.f] = 0>>,
     <<"C09_NoneIfDoneBefore",
        (IsTimeoutCancel(e) /\ Has(st.lo, e.f) /\ Has(st.done, e.f)) => st.done[e.f] >= st.lo[e.f]>>,
     <<"C09_AttemptedIfOverdue",
        e.ev = "End" => \A f \in DOMAIN st.hi :
            (Max(st.hi[f], st.busy) + EPS < e.t /\ (~Has(st.done, f) \/ st.done[f] > Max(st.hi[f], st.busy) + EPS)) => st.att[f] = 1>>,
     <<"C09_OutcomeKept",
        (e.ev = "Observed" /\ e.s = "FINISHED") => (Has(st.endo, e.f) /\ st.endo[e.f] = <<e.a, e.b>>)>>,
     <<"C09_CancelledOnlyIfAttempted",
        (e.ev = "Observed" /\ e.s \in CancelledStates /\ Has(st.att, e.f)) =>
            (st.att[e.f] >= 1 \/ e.f \in st.ucan)>> >>
=============================================================================
