"""Traces recorded from the repository's own test suite (real threads, real time; mxv/suite_plugin.py) validated by
TLC against spec/ApiObs.tla.  Used by the thorough tier of C02 / C06 / C11."""
import json
import os
import shutil
import subprocess
import sys
import tempfile

from . import core, tlc

TRACE = "ApiObsTrace"


def record(tests=("tests/",), timeout=2400):
    """Run pytest on the current tree of the repository with the recording plugin.  -> (list of {test, trace}, summary)"""
    repo = os.environ.get("MXV_REPO", "/repo")
    tmp = tempfile.mkdtemp(prefix="mxv-suite-")
    try:
        env = dict(os.environ, MXV_SUITE_OUT=tmp, PYTHONDONTWRITEBYTECODE="1",
                   PYTHONPATH=core.ROOT + os.pathsep + os.environ.get("PYTHONPATH", ""))
        env.pop("MORE_EXECUTORS_VERIF", None)
        cmd = ["/venv/bin/python", "-m", "pytest", "-q", "-p", "no:cacheprovider", "-p", "mxv.suite_plugin",
               "--timeout=300"] + list(tests)
        p = subprocess.run(cmd, cwd=repo, env=env, stdout=subprocess.PIPE, stderr=subprocess.STDOUT, timeout=timeout)
        tail = p.stdout.decode("utf-8", "replace").strip().split("\n")[-1]
        out = []
        fn = os.path.join(tmp, "traces.jsonl")
        if os.path.exists(fn):
            for line in open(fn):
                out.append(json.loads(line))
        return out, tail
    finally:
        shutil.rmtree(tmp, ignore_errors=True)


def run(ck, prefixes, tests=("tests/",)):
    """Validate the suite's traces; clauses whose name starts with one of `prefixes` are verdicts of this check."""
    recs, tail = record(tests)
    ck.notes["suite_traces"] = {"pytest": tail, "tests_with_traces": len(recs),
                                "events": sum(len(r["trace"]) for r in recs),
                                "truncated": sum(1 for r in recs if r.get("truncated"))}
    if len(recs) < 100 and tests == ("tests/",):
        ck.machinery_errors.append("the recording plugin produced only %d traces (%s)" % (len(recs), tail))
        return
    traces = [core.export(r["trace"]) for r in recs]
    # the binding is demonstrated on every run: recorded traces with ONE field corrupted must be rejected
    corrupted = []
    for tr in traces:
        if len(corrupted) >= 3:
            break
        ctrue = set(e["f"] for e in tr if e["ev"] == "CancelRet" and e["a"] == 1)
        for i, e in enumerate(tr):
            if e["ev"] == "Final" and e["f"] in ctrue:
                bad = [dict(x) for x in tr]
                bad[i]["s"] = "FINISHED"
                corrupted.append(bad)
                break
    if corrupted:
        cv, _ = tlc.validate_traces(TRACE, corrupted)
        if any(v == "ok" for v, _ in cv):
            ck.machinery_errors.append("a corrupted suite trace (final state of a cancelled future changed) was accepted")
        ck.notes["suite_traces"]["corrupted_traces_rejected"] = len(corrupted)
    verdicts, wall = tlc.validate_traces(TRACE, traces, chunk=400)
    ck.evaluations += len(traces)
    ck.validated += len(traces)
    other = {}
    for r, tr, (v, step) in zip(recs, traces, verdicts):
        if v == "ok":
            continue
        if not any(v.startswith(p) for p in prefixes):
            other[v] = other.get(v, 0) + 1      # another property's clause: reported by that property's check
            continue
        task = {"scen": "suite", "params": {"test": r["test"]}, "strat": ["real-threads"], "facts": {"suite": True}}
        ck._judge(task, {"trace": tr, "schedule": [], "blocked": [], "outcome": "suite"}, v, step, TRACE)
    if other:
        ck.notes["suite_traces"]["clauses_of_other_properties"] = other
