"""Conformance engine: deterministic cooperative scheduler for real Python threads, with a virtual
clock.  Exactly one controlled thread runs at a time; every operation on a controlled primitive is a
scheduling point (performed when the thread is next chosen).  See DESIGN.md section 4.

Nothing here touches /repo; `install()` substitutes module attributes of the imported library and of
concurrent.futures (guarded by MORE_EXECUTORS_VERIF=1 in the checker's own process).
"""
import _thread
import gc
import itertools
import os
import sys
import threading as _rt
import time as _rtime
import queue as _rq
from collections import deque

_real_allocate = _thread.allocate_lock

TICKS_PER_S = 1000


class SchedAbort(BaseException):
    """Raised inside controlled threads to unwind them when an execution ends."""


class EngineError(Exception):
    pass


def to_ticks(seconds):
    # never early: round up to whole ticks
    t = round(seconds * TICKS_PER_S, 6)  # absorb binary floating-point noise of the library's own arithmetic
    it = int(t)
    if it < t:
        it += 1
    return max(it, 0)


class TRec(object):
    __slots__ = ("tid", "name", "baton", "state", "op", "real", "wake_reason", "client", "exc", "prio",
                 "in_point", "steps", "held")

    def __init__(self, tid, name):
        self.tid = tid
        self.name = name
        self.baton = _real_allocate()
        self.baton.acquire()
        self.state = "new"  # runnable | blocked | finished
        self.op = None  # (kind, obj, deadline)
        self.real = None
        self.wake_reason = None
        self.client = False
        self.exc = None
        self.prio = 0
        self.in_point = False
        self.steps = 0
        self.held = []  # controlled locks this thread owns, outermost first

    def __repr__(self):
        return "<T %s %s %s>" % (self.name, self.state, self.op and self.op[0])


SCHED = None
_EXEC_COUNTER = itertools.count(1)


def S():
    return SCHED


class Scheduler(object):
    def __init__(self, strategy, max_steps=50000, horizon=10 ** 8, granularity="sync", visible=None):
        self.exec_id = next(_EXEC_COUNTER)
        self.strategy = strategy
        self.threads = {}
        self.order = []
        self.by_ident = {}
        self.by_name = {}
        self.now = 0
        self.steps = 0
        self.max_steps = max_steps
        self.horizon = horizon
        self.schedule = []  # name of the thread chosen at each step
        self.clock_bump = None     # (thread name, k) or None, see monotonic()
        self.clock_reads = 0
        self.solo = [None, 0, 0]   # [thread, consecutive steps as the only enabled thread, at virtual time]
        self.aborting = False
        self.done_evt = _rt.Event()
        self.failure = None
        self.outcome = None  # "finished" | "stuck" | "horizon" | "max-steps"
        self.blocked_at_end = []
        self.tid_counter = itertools.count()
        self.granularity = granularity
        self.visible = visible  # None or callable(obj)->bool
        self.forced_switches = 0
        self.events = []
        self.tracked = []  # (fid, future, last_state)
        self.idmaps = {}
        self.step_hooks = []
        self.name_counts = {}
        self.roles = {}  # id(obj) -> role name
        self.keepalive = []
        self.ops_log = None  # optional list of (thread, kind, role)
        self.lock_log = None  # optional list of (thread, "a" | "r", lock ordinal): lock programs for spec/LockCases
        self.lock_info = {}  # lock ordinal -> (type name of the object that created it, site, ids of the `self` chain)
        self.lock_counter = itertools.count(1)
        self.owners = {}  # id(object) -> prefix given by the scenario (e.g. "x2" for the executor of layer 2)
        self.lock_hooks = []  # callables(info) run when a controlled lock is created (info = _creation_info())
        self._abort_lock = _real_allocate()

    # ------------------------------------------------------------------ recording
    def emit(self, ev, **kw):
        if self.aborting:
            return None
        rec = self.me()
        kw["ev"] = ev
        kw["thr"] = rec.name if rec is not None else "-"
        kw["t"] = self.now
        kw["step"] = self.steps
        self.events.append(kw)
        return kw

    def ident(self, obj, kind="o"):
        m = self.idmaps.setdefault(kind, {})
        k = id(obj)
        if k not in m:
            m[k] = len(m) + 1
            self.keepalive.append(obj)
        return m[k]

    def track(self, fid, fut, ev="Observed", **extra):
        self.tracked.append([fid, fut, "PENDING", ev, extra])

    def role(self, obj, name):
        self.roles[id(obj)] = name
        try:
            obj.name = name
        except Exception:
            pass
        return obj

    def register_owner(self, obj, prefix):
        """The scenario names an object (an executor of its stack); every lock created by a method running on
        behalf of it - directly or through a future / helper it constructs - gets `prefix` in its role."""
        self.owners[id(obj)] = prefix
        self.keepalive.append(obj)

    def lock_role(self, lock):
        """Role of a controlled lock: <prefix of the nearest registered object in whose methods it was created> /
        <type of the object that created it> @ <file:line>.  Instances with the same role are one class of lock."""
        info = self.lock_info.get(getattr(lock, "_lid", None))
        if info is None:
            return "?"
        tname, site, chain = info
        pre = "-"
        for oid in chain:
            if oid in self.owners:
                pre = self.owners[oid]
                break
        return "%s/%s@%s" % (pre, tname, site)

    def _lock_event(self, rec, op, lock):
        if op == "a":
            rec.held.append(lock)
        else:
            try:
                rec.held.remove(lock)
            except ValueError:
                pass
        if self.lock_log is not None:
            self.lock_log.append((rec.name, op, lock._lid))

    def _poll_tracked(self):
        for ent in self.tracked:
            fut = ent[1]
            st = getattr(fut, "_state", None)
            if st != ent[2]:
                ent[2] = st
                kw = {"f": ent[0], "s": st}
                kw.update(ent[4])
                if st == "FINISHED":
                    exc = getattr(fut, "_exception", None)
                    if exc is not None:
                        kw["a"] = 1
                        kw["b"] = self.ident(exc, "val")
                    else:
                        kw["a"] = 0
                        kw["b"] = self.ident_val(getattr(fut, "_result", None))
                self.emit(ent[3], **kw)

    def ident_val(self, v):
        # small ints are passed through as themselves + 1000 offset avoided: use explicit mapping
        hook = getattr(self, "val_hook", None)
        if hook is not None:
            r = hook(v)
            if r is not None:
                return r
        return self.ident(v, "val")

    # ------------------------------------------------------------------ threads
    def me(self):
        return self.by_ident.get(_thread.get_ident())

    def new_thread(self, name, target, client=False):
        tid = next(self.tid_counter)
        n = self.name_counts.get(name, 0)
        self.name_counts[name] = n + 1
        uname = name if n == 0 else "%s#%d" % (name, n)
        rec = TRec(tid, uname)
        rec.client = client
        self.threads[tid] = rec
        self.order.append(tid)
        self.by_name[uname] = rec
        if hasattr(self.strategy, "on_new_thread"):
            self.strategy.on_new_thread(self, rec)

        def boot():
            ident = _thread.get_ident()
            self.by_ident[ident] = rec
            rec.baton.acquire()
            try:
                if self.aborting:
                    return
                rec.state = "runnable"
                rec.op = None
                self.emit("ThreadStart", s=rec.name)
                target()
                self.emit("ThreadExit", s=rec.name, a=0)
            except SchedAbort:
                pass
            except BaseException as e:  # noqa
                rec.exc = e
                try:
                    if not self.aborting:
                        self.emit("ThreadExit", s=rec.name, a=1, x=type(e).__name__ + ": " + str(e)[:200])
                except BaseException:
                    pass
            finally:
                rec.state = "finished"
                rec.op = None
                try:
                    self._thread_exit(rec)
                except SchedAbort:
                    pass
                self.by_ident.pop(ident, None)

        rec.real = _rt.Thread(target=boot, name=uname, daemon=True)
        rec.state = "blocked"
        rec.op = ("start", None, None)
        rec.real.start()
        return rec

    # ------------------------------------------------------------------ enabledness
    def _cond(self, rec):
        kind, obj, deadline = rec.op
        return self._cond_kind(kind, obj, rec)

    def _cond_kind(self, kind, obj, rec):
        if kind in ("start", "yield", "line", "user", "evset", "evclear", "cvnotify", "spawn", "evwait_enter"):
            return True
        if kind == "acquire":
            return obj._can_acquire(rec)
        if kind == "evwait":
            return rec.tid in obj._woken
        if kind == "cvwait":
            return rec.tid in obj._notified
        if kind == "join":
            r = obj._rec
            return r is None or r.state == "finished"
        if kind in ("sleep", "idle"):
            return False
        raise EngineError("unknown op kind %r" % (kind,))

    def _enabled(self, rec):
        if rec.state != "blocked" or rec.op is None or rec.op == "aborted":
            return False
        if self._cond(rec):
            return True
        dl = rec.op[2]
        return dl is not None and dl <= self.now

    def _pick_next(self):
        while True:
            recs = [self.threads[t] for t in self.order]
            enabled = [r for r in recs if self._enabled(r)]
            hb = getattr(self.strategy, "held_back", None)
            if enabled and hb is not None:
                # a steering strategy keeps some threads parked before an operation they could perform, while the
                # others run and - within its patience - while virtual time advances to the next timer
                free = [r for r in enabled if not hb(self, r)]
                if free:
                    return self.strategy.choose(self, free)
                timed = [(r.op[2], r.name) for r in recs if r.state == "blocked" and r.op and r.op != "aborted"
                         and r.op[2] is not None and r not in enabled]
                # (never across a timer of the scenario's main thread: a parked thread must not outlive the scenario)
                if timed and min(timed)[0] <= self.strategy.patience_until(self) and min(timed)[1] != "main":
                    self.now = max(self.now, min(timed)[0])
                    continue
                self.strategy.give_up(self)
                return self.strategy.choose(self, enabled)
            if enabled:
                # (how long one thread has been the ONLY one that can run, without virtual time advancing: a busy loop
                #  that nothing else in the execution can end)
                if len(enabled) == 1 and self.solo[0] == enabled[0].name and self.solo[2] == self.now:
                    self.solo[1] += 1
                else:
                    self.solo = [enabled[0].name if len(enabled) == 1 else None, 0, self.now]
                return self.strategy.choose(self, enabled)
            idle = [r for r in recs if r.state == "blocked" and r.op and r.op != "aborted" and r.op[0] == "idle"]
            if idle:
                return idle[0]
            timed = [r for r in recs if r.state == "blocked" and r.op and r.op != "aborted" and r.op[2] is not None]
            if not timed:
                self.outcome = "stuck"
                return None
            dl = min(r.op[2] for r in timed)
            if dl > self.horizon:
                self.outcome = "horizon"
                return None
            self.now = max(self.now, dl)

    def _after_step(self):
        self._poll_tracked()
        for h in self.step_hooks:
            h(self)

    def _switch(self, rec):
        self.steps += 1
        self._after_step()
        if self.steps > self.max_steps and not self.aborting:
            self.outcome = "max-steps"
            self._finish()
        if self.aborting:
            raise SchedAbort()
        nxt = self._pick_next()
        if nxt is None:
            self._finish()
            raise SchedAbort()
        self._grant(nxt)
        if nxt is rec:
            return
        nxt.baton.release()
        rec.baton.acquire()
        if self.aborting:
            raise SchedAbort()

    def _grant(self, nxt):
        # decide the wake reason at grant time
        if nxt.op[0] == "idle":
            nxt.wake_reason = "idle"
        elif self._cond(nxt):
            nxt.wake_reason = None
        else:
            nxt.wake_reason = "timeout"
        self.schedule.append(nxt.name)
        nxt.steps += 1
        if self.ops_log is not None:
            op = nxt.op
            self.ops_log.append((nxt.name, op[0], self.roles.get(id(op[1]), None) if op[1] is not None else None,
                                 nxt.wake_reason))

    def _thread_exit(self, rec):
        if self.aborting:
            self._abort_next()
            return
        self.steps += 1
        self._after_step()
        nxt = self._pick_next()
        if nxt is None:
            self._finish()
            return
        self._grant(nxt)
        nxt.baton.release()

    def _finish(self):
        if self.aborting:
            return
        self.aborting = True
        # threads that are really blocked: a thread merely parked before an operation that could proceed (it was
        # just not scheduled before the scenario ended) is not reported
        self.blocked_at_end = [
            (r.name, r.op[0], self.roles.get(id(r.op[1])) or getattr(r.op[1], "name", None))
            for r in self.threads.values()
            if r.state != "finished" and r.op and r.op != "aborted" and r.op[0] != "idle" and not self._cond(r)
        ]
        self._abort_next()

    def _abort_next(self):
        with self._abort_lock:
            me = self.me()
            pending = False
            for r in list(self.threads.values()):
                if r.state != "finished" and r is not me:
                    pending = True
                    if r.op != "aborted":
                        r.op = "aborted"
                        r.baton.release()
                        return
            if not pending and (me is None or me.state == "finished"):
                self.done_evt.set()

    def stop(self, outcome="finished"):
        """Called by the scenario's main thread to end the execution."""
        if self.outcome is None:
            self.outcome = outcome
        self._poll_tracked()
        self._finish()
        raise SchedAbort()

    # ------------------------------------------------------------------ the scheduling point
    def point(self, kind, obj=None, timeout=None, exact=False):
        rec = self.me()
        if rec is None:
            return None
        if obj is not None and getattr(obj, "_exec", self.exec_id) != self.exec_id:
            return None
        if self.aborting:
            # unwinding: non-blocking operations act on raw state, blocking ones keep unwinding
            if kind in ("sleep", "idle") or not self._cond_kind(kind, obj, rec):
                raise SchedAbort()
            return None
        if rec.in_point:
            return None  # re-entrant (weakref callback / __del__ inside a point)
        deadline = None
        if timeout is not None:
            deadline = self.now + (to_ticks(timeout) if not exact else int(timeout)) + (0 if exact else 1)
        if self.visible is not None and kind not in ("start", "idle", "sleep"):
            if obj is None or not self.visible(obj):
                rec.op = (kind, obj, deadline)
                ok = self._cond(rec)
                rec.op = None
                if ok:
                    return None
                self.forced_switches += 1
        rec.op = (kind, obj, deadline)
        rec.wake_reason = None
        rec.state = "blocked"
        rec.in_point = True
        try:
            self._switch(rec)
        finally:
            rec.in_point = False
        rec.state = "runnable"
        rec.op = None
        return rec.wake_reason

    def run(self, main, wall_timeout=120):
        self.new_thread("main", main, client=True)
        first = self._pick_next()
        self._grant(first)
        first.baton.release()
        if not self.done_evt.wait(wall_timeout):
            self.failure = ("wallclock-timeout", [repr(r) for r in self.threads.values()])
            self.aborting = True
        return self


# ====================================================================== controlled primitives
def _cur(obj):
    s = SCHED
    if s is None or s.aborting and s.me() is None:
        return None
    if getattr(obj, "_exec", None) != s.exec_id:
        return None
    return s


_OWN_FILE = os.path.abspath(__file__).replace(".pyc", ".py")


def _creation_info():
    """Where and on whose behalf a controlled lock is created: (type name of the nearest `self`, file:line of the
    nearest library frame, ids of the `self` objects up the stack - nearest first)."""
    f = sys._getframe(2)
    site, tname, chain = None, None, []
    n = 0
    while f is not None and n < 60:
        fn = f.f_code.co_filename
        if fn != _OWN_FILE and not fn.endswith("threading.py"):
            if site is None:
                site = "%s:%d" % (os.path.basename(fn), f.f_lineno)
            if "self" in f.f_code.co_varnames:
                obj = f.f_locals.get("self")
                if obj is not None:
                    if tname is None:
                        tname = type(obj).__name__
                    oid = id(obj)
                    if not chain or chain[-1] != oid:
                        chain.append(oid)
        f = f.f_back
        n += 1
    return (tname or "-", site or "?", tuple(chain))


class Lock(object):
    _re = False

    def __init__(self):
        s = SCHED
        self._exec = s.exec_id if s else 0
        self._owner = None
        self._count = 0
        self.name = None
        self._lid = None
        if s is not None:
            self._lid = next(s.lock_counter)
            info = s.lock_info[self._lid] = _creation_info()
            for h in s.lock_hooks:
                h(info)

    def _can_acquire(self, rec):
        return self._owner is None or (self._re and self._owner is rec)

    def acquire(self, blocking=True, timeout=-1):
        s = _cur(self)
        rec = s.me() if s else None
        if rec is None:
            # uncontrolled context: act on raw state
            if self._owner is None or self._re:
                self._owner = self._owner or "ext"
                self._count += 1
                return True
            return False if not blocking else True
        if not blocking:
            s.point("yield", self)
            if self._can_acquire(rec):
                if self._owner is not rec:
                    s._lock_event(rec, "a", self)
                self._owner = rec
                self._count += 1
                return True
            return False
        if self._re and self._owner is rec:
            self._count += 1
            return True
        r = s.point("acquire", self, None if (timeout is None or timeout < 0) else timeout)
        if not self._can_acquire(rec):
            if r == "timeout":
                return False
            raise EngineError("granted acquire on a held lock")
        if self._owner is not rec:
            s._lock_event(rec, "a", self)
        self._owner = rec
        self._count += 1
        return True

    def release(self):
        if self._count <= 0:
            raise RuntimeError("release unlocked lock")
        self._count -= 1
        if self._count == 0:
            if type(self._owner) is TRec:
                s = _cur(self)
                if s is not None:
                    s._lock_event(self._owner, "r", self)
            self._owner = None

    def __enter__(self):
        return self.acquire()

    def __exit__(self, *a):
        self.release()

    def locked(self):
        return self._owner is not None

    def _release_save(self):
        st = (self._owner, self._count)
        if type(self._owner) is TRec:
            s = _cur(self)
            if s is not None:
                s._lock_event(self._owner, "r", self)
        self._owner = None
        self._count = 0
        return st

    def _acquire_restore(self, st):
        self._owner, self._count = st
        if type(self._owner) is TRec:
            s = _cur(self)
            if s is not None:
                s._lock_event(self._owner, "a", self)

    def _is_owned(self):
        s = SCHED
        return self._owner is not None and (s is None or self._owner is s.me() or self._owner == "ext")

    def _at_fork_reinit(self):
        self._owner = None
        self._count = 0


class RLock(Lock):
    _re = True


class Event(object):
    """CPython semantics, two-phase: wait() first looks at the flag (a scheduling point: the thread has not
    entered the wait yet and is NOT woken by a set() that a clear() overtakes); only if the flag is clear does
    it register as a waiter and block.  set() wakes every *registered* waiter, even if clear() follows before
    they run (they were notified on the condition), exactly like threading.Event."""

    def __init__(self):
        s = SCHED
        self._exec = s.exec_id if s else 0
        self._flag = False
        self._woken = set()
        self._waiters = set()
        self.name = None

    def is_set(self):
        return self._flag

    isSet = is_set

    def set(self):
        s = _cur(self)
        if s is not None and s.me() is not None:
            s.point("evset", self)
        self._flag = True
        self._woken |= self._waiters
        self._waiters.clear()

    def clear(self):
        s = _cur(self)
        if s is not None and s.me() is not None:
            s.point("evclear", self)
        self._flag = False

    def wait(self, timeout=None):
        s = _cur(self)
        rec = s.me() if s else None
        if rec is None or rec.in_point:
            return self._flag
        s.point("evwait_enter", self)
        if self._flag:
            return True
        self._waiters.add(rec.tid)
        try:
            s.point("evwait", self, timeout)
        finally:
            self._waiters.discard(rec.tid)
        woke = rec.tid in self._woken
        self._woken.discard(rec.tid)
        return woke

    def _at_fork_reinit(self):
        pass


class Condition(object):
    def __init__(self, lock=None):
        s = SCHED
        self._exec = s.exec_id if s else 0
        self._lock = lock if lock is not None else RLock()
        self._waiters = []
        self._notified = set()
        self.acquire = self._lock.acquire
        self.release = self._lock.release
        self.name = None

    def __enter__(self):
        return self._lock.__enter__()

    def __exit__(self, *a):
        return self._lock.__exit__(*a)

    def wait(self, timeout=None):
        s = _cur(self)
        rec = s.me() if s else None
        if rec is None or rec.in_point:
            return True
        st = self._lock._release_save()
        self._waiters.append(rec.tid)
        try:
            s.point("cvwait", self, timeout)
        finally:
            if rec.tid in self._waiters:
                self._waiters.remove(rec.tid)
            got = rec.tid in self._notified
            self._notified.discard(rec.tid)
            if not s.aborting:
                s.point("acquire", self._lock)
            self._lock._acquire_restore(st)
        return got

    def wait_for(self, predicate, timeout=None):
        endtime = None
        result = predicate()
        while not result:
            wt = None
            if timeout is not None:
                if endtime is None:
                    endtime = monotonic() + timeout
                wt = endtime - monotonic()
                if wt <= 0:
                    break
            self.wait(wt)
            result = predicate()
        return result

    def notify(self, n=1):
        for tid in self._waiters[:n]:
            self._notified.add(tid)
        del self._waiters[:n]

    def notify_all(self):
        self.notify(len(self._waiters))

    notifyAll = notify_all


class Semaphore(object):
    def __init__(self, value=1):
        self._cv = Condition(Lock())
        self._v = value

    def acquire(self, blocking=True, timeout=None):
        with self._cv:
            if not blocking or timeout == 0:
                if self._v > 0:
                    self._v -= 1
                    return True
                return False
            while self._v == 0:
                self._cv.wait(timeout)
                if timeout is not None and self._v == 0:
                    return False
            self._v -= 1
            return True

    def release(self, n=1):
        with self._cv:
            self._v += n
            self._cv.notify(n)

    __enter__ = acquire

    def __exit__(self, *a):
        self.release()


class SimpleQueue(object):
    def __init__(self, maxsize=0):
        self._q = deque()
        self._cv = Condition(Lock())

    def put(self, item, block=True, timeout=None):
        with self._cv:
            self._q.append(item)
            self._cv.notify()

    put_nowait = put

    def get(self, block=True, timeout=None):
        with self._cv:
            if not block:
                if not self._q:
                    raise _rq.Empty
                return self._q.popleft()
            while not self._q:
                self._cv.wait(timeout)
                if timeout is not None and not self._q:
                    raise _rq.Empty
            return self._q.popleft()

    def get_nowait(self):
        return self.get(False)

    def empty(self):
        return not self._q

    def qsize(self):
        return len(self._q)


class Thread(object):
    def __init__(self, group=None, target=None, name=None, args=(), kwargs=None, daemon=None):
        self._target = target
        self._args = args
        self._kwargs = kwargs or {}
        self.name = name or "Thread"
        self.daemon = daemon
        self._rec = None
        self._client = False
        s = SCHED
        self._exec = s.exec_id if s else 0

    def __hash__(self):
        return id(self)

    def __eq__(self, other):
        return self is other

    def run(self):
        try:
            if self._target:
                self._target(*self._args, **self._kwargs)
        finally:
            del self._target, self._args, self._kwargs

    def start(self):
        s = SCHED
        if s is None:
            raise EngineError("controlled Thread started outside an execution")
        self._rec = s.new_thread(self.name, self.run, client=self._client)
        self.name = self._rec.name
        if s.me() is not None:
            s.point("spawn")

    def join(self, timeout=None):
        s = _cur(self)
        if s is None or s.me() is None:
            return
        if self._rec is None:
            raise RuntimeError("cannot join thread before it is started")
        if s.me() is self._rec:
            raise RuntimeError("cannot join current thread")      # (as threading.Thread.join does)
        s.point("join", self, timeout)

    def is_alive(self):
        return self._rec is not None and self._rec.state != "finished"

    isAlive = is_alive

    @property
    def ident(self):
        return self._rec.tid if self._rec else None


def monotonic():
    s = SCHED
    if s is None:
        return 0.0
    cb = s.clock_bump
    if cb is not None:
        # directed exploration of "the clock moves while a thread runs": the k-th clock reading of the named thread
        # finds the clock one tick further (virtual time otherwise only advances when nobody can run).  At most once per
        # execution, so nothing is ever later than one tick because of it.
        rec = s.me()
        if rec is not None and rec.name == cb[0]:
            s.clock_reads += 1
            if s.clock_reads == cb[1]:
                s.now += 1
    return s.now / float(TICKS_PER_S)


def sleep(d):
    s = SCHED
    if s is None or s.me() is None:
        return
    s.point("sleep", None, d)


# ====================================================================== helpers for scenario drivers
def vsleep(ticks):
    """Driver-side exact sleep in ticks (no +1 slack)."""
    s = SCHED
    s.point("sleep", None, ticks, exact=True)


def settle():
    """Yield until no other thread can run without advancing time."""
    s = SCHED
    s.point("idle")


def upoint():
    """Scheduling point at a user-code boundary."""
    s = SCHED
    if s is not None and s.me() is not None:
        s.point("user")


def spawn(name, fn, *args):
    t = Thread(name=name, target=fn, args=args)
    t._client = True
    t.start()
    return t


def now():
    return SCHED.now


def emit(ev, **kw):
    return SCHED.emit(ev, **kw)


# ====================================================================== installation
class _ShimThreading(object):
    Lock = Lock
    RLock = RLock
    Event = Event
    Condition = Condition
    Thread = Thread
    Semaphore = Semaphore

    @staticmethod
    def _register_atexit(*a, **k):
        pass

    def __getattr__(self, k):
        return getattr(_rt, k)


class _ShimTime(object):
    monotonic = staticmethod(monotonic)
    sleep = staticmethod(sleep)

    def __getattr__(self, k):
        return getattr(_rtime, k)


class _ShimQueue(object):
    SimpleQueue = SimpleQueue
    Queue = SimpleQueue
    Empty = _rq.Empty
    Full = _rq.Full

    def __getattr__(self, k):
        return getattr(_rq, k)


_REAL_LOCK_T = type(_rt.Lock())
_REAL_RLOCK_T = type(_rt.RLock())
_INSTALLED = [False]
_SUBST = {}
_MODULE_LOCKS = []  # (module, attr, ctor)


def _build_subst():
    _SUBST[id(_rt.Lock)] = Lock
    _SUBST[id(_rt.RLock)] = RLock
    _SUBST[id(_rt.Event)] = Event
    _SUBST[id(_rt.Condition)] = Condition
    _SUBST[id(_rt.Semaphore)] = Semaphore
    _SUBST[id(_rt.Thread)] = Thread
    _SUBST[id(_rtime.monotonic)] = monotonic
    _SUBST[id(_rtime.sleep)] = sleep
    _SUBST[id(_rt)] = _ShimThreading()
    _SUBST[id(_rtime)] = _ShimTime()
    _SUBST[id(_rq)] = _ShimQueue()


def install():
    """Substitute controlled primitives into every module of the library, by identity."""
    if _INSTALLED[0]:
        return
    if os.environ.get("MORE_EXECUTORS_VERIF") != "1":
        raise EngineError("MORE_EXECUTORS_VERIF=1 must be set in the checker's process")
    _build_subst()
    import concurrent.futures._base as base
    import concurrent.futures.thread as cft
    import more_executors  # noqa
    import more_executors.futures  # noqa

    base.threading = _ShimThreading()
    base.time = _ShimTime()
    cft.threading = _ShimThreading()
    cft.queue = _ShimQueue()
    _MODULE_LOCKS.append((cft, "_global_shutdown_lock", Lock))
    import logging
    lg = logging.getLogger("concurrent.futures")
    lg.handlers = [logging.NullHandler()]
    lg.propagate = False
    for mname, mod in list(sys.modules.items()):
        if not (mname == "more_executors" or mname.startswith("more_executors.")) or mod is None:
            continue
        for attr, val in list(vars(mod).items()):
            sub = _SUBST.get(id(val))
            if sub is not None:
                setattr(mod, attr, sub)
            elif type(val) is _REAL_LOCK_T:
                _MODULE_LOCKS.append((mod, attr, Lock))
            elif type(val) is _REAL_RLOCK_T:
                _MODULE_LOCKS.append((mod, attr, RLock))
    _INSTALLED[0] = True


def _reset_module_state():
    for mod, attr, ctor in _MODULE_LOCKS:
        setattr(mod, attr, ctor())
    import more_executors._impl.event as ev
    h = ev.GLOBAL_HANDLER
    h.lock = RLock()
    try:
        h.events = type(h.events)()      # (whatever container the registry uses: start every execution with an empty one)
    except Exception:
        h.events = []
    h.shutdown = False
    h.atexit_registered = True  # never register with the real atexit from inside an execution
    import more_executors._impl.futures.base as fbase
    from more_executors._impl.executors import Executors
    old = fbase.EXECUTOR
    fbase.EXECUTOR = Executors.sync(name="internal")
    # the singleton was built at import time with real locks: every alias of it (from .base import EXECUTOR) must
    # see the per-execution one, or a thread blocks on a lock the scheduler does not control
    for mod in list(sys.modules.values()):
        if mod is None or not getattr(mod, "__name__", "").startswith("more_executors"):
            continue
        for k, v in list(vars(mod).items()):
            if v is old and not (mod is fbase and k == "EXECUTOR"):
                setattr(mod, k, fbase.EXECUTOR)
    import more_executors._impl.futures.timeout as ft
    ft.EXECUTOR_REF = None
    import concurrent.futures.thread as cft
    cft._shutdown = False


# ====================================================================== line granularity
_MON = {"on": False, "codes": set(), "instr": False}
_TOOL = 3


def _on_instr(code, offset):
    """granularity "instr": every bytecode of the library is a scheduling point (the preemption model of a
    free-threaded or pre-3.2 interpreter; finer than the GIL's switch points of CPython 3.12)."""
    s = SCHED
    if s is None or s.aborting or s.granularity != "instr":
        return
    rec = s.by_ident.get(_thread.get_ident())
    if rec is None or rec.state != "runnable" or rec.in_point:
        return
    s.point("line")


def _on_line(code, line):
    s = SCHED
    if s is None or s.aborting or s.granularity != "line":
        return
    rec = s.by_ident.get(_thread.get_ident())
    if rec is None or rec.state != "runnable" or rec.in_point:
        return
    s.point("line")


def enable_line_points(instr=False):
    import types
    mon = sys.monitoring
    if not _MON["on"]:
        mon.use_tool_id(_TOOL, "mxv")
        mon.register_callback(_TOOL, mon.events.LINE, _on_line)
        mon.register_callback(_TOOL, mon.events.INSTRUCTION, _on_instr)
        _MON["on"] = True
    if instr != _MON["instr"]:
        _MON["instr"] = instr
        for co in _MON["codes"]:
            try:
                mon.set_local_events(_TOOL, co, mon.events.LINE | (mon.events.INSTRUCTION if instr else 0))
            except Exception:
                pass

    def walk(co):
        if co in _MON["codes"]:
            return
        _MON["codes"].add(co)
        try:
            mon.set_local_events(_TOOL, co, mon.events.LINE | (mon.events.INSTRUCTION if _MON["instr"] else 0))
        except Exception:
            pass
        for c in co.co_consts:
            if isinstance(c, types.CodeType):
                walk(c)

    import inspect
    for mname, mod in list(sys.modules.items()):
        if not mname.startswith("more_executors._impl") or mod is None:
            continue
        if mname.endswith(".logwrap") or ".metrics" in mname:
            continue
        for name, obj in list(vars(mod).items()):
            fns = []
            if inspect.isfunction(obj):
                fns = [obj]
            elif inspect.isclass(obj) and obj.__module__ == mod.__name__:
                for n, o in vars(obj).items():
                    o = getattr(o, "__func__", o)
                    if inspect.isfunction(o):
                        fns.append(o)
                    elif isinstance(o, property) and o.fget:
                        fns.append(o.fget)
            for f in fns:
                try:
                    f = inspect.unwrap(f)
                except Exception:
                    pass
                co = getattr(f, "__code__", None)
                if co is not None and "more_executors" in co.co_filename:
                    walk(co)


# ====================================================================== running one execution
class Result(object):
    __slots__ = ("events", "schedule", "outcome", "blocked", "now", "steps", "failure", "forced", "ops", "extra", "solo",
                 "thread_excs", "locks")

    def to_dict(self):
        return {k: getattr(self, k) for k in self.__slots__}


def run_execution(main, strategy, granularity="sync", visible=None, max_steps=50000, horizon=10 ** 8,
                  setup=None, ops_log=False, wall_timeout=120, lock_log=False, clock_bump=None):
    """Run `main()` as the controlled main thread under `strategy`.  Returns a Result."""
    global SCHED
    install()
    if granularity in ("line", "instr"):
        enable_line_points(instr=(granularity == "instr"))
    elif _MON["instr"]:
        enable_line_points(instr=False)
    gc.collect()
    gc.disable()
    sched = Scheduler(strategy, max_steps=max_steps, horizon=horizon, granularity=granularity, visible=visible)
    if ops_log:
        sched.ops_log = []
    if lock_log:
        sched.lock_log = []
    if clock_bump:
        sched.clock_bump = (clock_bump[0], int(clock_bump[1]))
    SCHED = sched
    try:
        _reset_module_state()
        if setup:
            setup(sched)

        def wrapped():
            main()
            sched.stop("finished")

        sched.run(wrapped, wall_timeout=wall_timeout)
    finally:
        SCHED = None
        gc.enable()
    r = Result()
    r.events = sched.events
    r.schedule = sched.schedule
    r.solo = tuple(sched.solo)
    r.outcome = sched.outcome
    r.blocked = sched.blocked_at_end
    r.now = sched.now
    r.steps = sched.steps
    r.failure = sched.failure
    r.forced = sched.forced_switches
    r.ops = sched.ops_log
    r.locks = None
    if sched.lock_log is not None:
        class _L(object):
            pass
        roles = {}
        for lid in set(x[2] for x in sched.lock_log):
            o = _L()
            o._lid = lid
            roles[lid] = sched.lock_role(o)
        r.locks = [(t, op, lid, roles[lid]) for (t, op, lid) in sched.lock_log]
    r.extra = {}
    r.thread_excs = [(t.name, repr(t.exc)) for t in sched.threads.values() if t.exc is not None]
    # break cycles promptly
    sched.keepalive = []
    sched.tracked = []
    sched.threads = {}
    return r
