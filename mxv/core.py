"""Common machinery of the checks: running batches of real executions on all cores, exporting their
traces, TLC validation, verdicts / known findings, replay files, evidence."""
import hashlib
import importlib
import json
import multiprocessing as mp
import os
import sys
import time
import traceback

ROOT = os.path.dirname(os.path.dirname(os.path.abspath(__file__)))
REPO = os.environ.get("MXV_REPO", "/repo")
OUT = os.path.join(ROOT, "out")

ROLE_PREFIXES = (
    ("TimeoutExecutor-", "timeout"), ("RetryExecutor-", "retry"), ("PollExecutor-", "poll"),
    ("ThrottleExecutor-", "throttle"), ("ThreadPoolExecutor-", "pool"), ("env", "env"), ("main", "main"),
    ("can", "canceller"), ("sub", "client"), ("sh", "shutdown"), ("obs", "main"),
)


def role_of(thr):
    for p, r in ROLE_PREFIXES:
        if thr.startswith(p):
            return r
    return "client"


def export(events):
    out = []
    for e in events:
        thr = e.get("thr", "-")
        out.append({
            "ev": e["ev"], "thr": thr, "r": e.get("r") or role_of(thr), "t": int(e.get("t", 0)),
            "f": int(e.get("f", -1)), "k": int(e.get("k", -1)), "a": int(e.get("a", -1)),
            "b": int(e.get("b", -1)), "c": int(e.get("c", -1)), "s": str(e.get("s", "")),
            "xs": [int(x) for x in e.get("xs", ())],
        })
    return out


# ---------------------------------------------------------------------------------- worker side
def _setup_worker():
    os.environ["MORE_EXECUTORS_VERIF"] = "1"
    import logging
    logging.lastResort = logging.NullHandler()
    logging.raiseExceptions = False
    old_hook = sys.unraisablehook

    def hook(u):
        # a weakref callback / __del__ unwound by the end of an execution is not an error
        if u.exc_type is not None and u.exc_type.__name__ == "SchedAbort":
            return
        old_hook(u)

    if getattr(sys.unraisablehook, "__name__", "") != "hook":
        sys.unraisablehook = hook
    if REPO not in sys.path:
        sys.path.insert(0, REPO)
    stubs = os.path.join(ROOT, "stubs")
    if os.environ.get("MXV_METRICS") == "1" and stubs not in sys.path:
        sys.path.insert(0, stubs)
    if ROOT not in sys.path:
        sys.path.insert(0, ROOT)
    if os.environ.get("MXV_APICOV"):
        from mxv import apicov
        apicov.install()


_POISONED = [None]


def run_task(task):
    """task: dict(scen=module, params=..., strat=spec, gran=..., opts=...)  ->  result dict"""
    if _POISONED[0]:
        # an earlier execution in this worker process ran into the wall-clock limit: a thread of it may still sit in an
        # uncontrolled primitive (e.g. a lock created at import time) - nothing run here afterwards can be trusted
        return {"ok": False, "failure": ("worker-poisoned", _POISONED[0]), "trace": [], "schedule": [], "outcome": None}
    _setup_worker()
    from mxv import engine as E, strategies as St
    try:
        mod = importlib.import_module("mxv.scen." + task["scen"])
        built = mod.build(task["params"])
        if isinstance(built, tuple):
            main, opts = built
        else:
            main, opts = built, {}
        o = dict(opts)
        o.update(task.get("opts") or {})
        strat = St.make(task["strat"])
        res = E.run_execution(main, strat, granularity=task.get("gran", "sync"),
                              visible=o.get("visible"), max_steps=o.get("max_steps", 30000),
                              horizon=o.get("horizon", 10 ** 8), ops_log=o.get("ops_log", False),
                              setup=o.get("setup"), lock_log=bool(task.get("lock_log")),
                              clock_bump=task.get("clock_bump"))
        if res.failure and res.failure[0] == "wallclock-timeout":
            _POISONED[0] = "wall-clock limit hit by %s %s" % (task.get("scen"), json.dumps(task.get("params"))[:300])
        events = list(res.events)
        # fold the engine's classification into the trace so that TLC judges it too
        for (name, kind, what) in res.blocked:
            events.append({"ev": "BlockedAtEnd", "thr": name, "t": res.now, "s": kind, "x": str(what)})
        if res.outcome == "max-steps":
            # the step budget went to ONE thread while every other thread was blocked (virtual time cannot advance
            # while somebody can run): a busy loop that nothing in the execution can end - reported like a blocked thread
            name, nsteps, _at = getattr(res, "solo", (None, 0, 0))
            if name is not None and nsteps >= 3000:
                events.append({"ev": "BlockedAtEnd", "thr": name, "t": res.now, "s": "spin", "x": "busy loop"})
        codes = {"finished": 0, "stuck": 1, "horizon": 2, "max-steps": 3}
        events.append({"ev": "Outcome", "thr": "-", "t": res.now, "a": codes.get(res.outcome, 9), "s": res.outcome or ""})
        out = {"ok": res.failure is None, "failure": res.failure, "outcome": res.outcome,
               "trace": export(events), "schedule": res.schedule if task.get("keep_schedule", True) else None,
               "steps": res.steps, "now": res.now, "blocked": res.blocked, "thread_excs": res.thread_excs,
               "forced": res.forced, "mismatch": getattr(strat, "mismatch", 0),
               "first_mismatch": getattr(strat, "first_mismatch", None)}
        if o.get("ops_log"):
            out["ops"] = res.ops
        if task.get("lock_log") and res.locks is not None:
            from mxv import lockprogs
            out["lockcases"] = lockprogs.cases_of(res.locks)
            if task.get("lock_key") is not None:
                out["lockpats"] = sorted(set((tuple(h), w) for ps in lockprogs.patterns(res.locks, "role").values()
                                             for (h, w) in ps))
            out["lock_events"] = len(res.locks)
        post = o.get("post")
        if post:
            out["post"] = post(res)
        if os.environ.get("MXV_APICOV"):
            from mxv import apicov
            apicov.dump()
        return out
    except BaseException as e:  # machinery failure
        return {"ok": False, "failure": ("exception", traceback.format_exc()), "trace": [], "schedule": [],
                "outcome": None}


_POOL = None


def pool(n=None):
    global _POOL
    if _POOL is None:
        ctx = mp.get_context("fork")
        _POOL = ctx.Pool(n or min(16, os.cpu_count() or 4), initializer=_setup_worker, maxtasksperchild=400)
    return _POOL


def run_tasks(tasks, chunksize=8):
    if not tasks:
        return []
    if os.environ.get("MXV_SERIAL") == "1":
        return [run_task(t) for t in tasks]
    return pool().map(run_task, tasks, chunksize=chunksize)


def close_pool():
    global _POOL
    if _POOL is not None:
        _POOL.close()
        _POOL.join()
        _POOL = None


# ---------------------------------------------------------------------------------- known findings
def load_findings():
    p = os.path.join(ROOT, "known_findings.json")
    if not os.path.exists(p):
        return []
    return json.load(open(p)).get("findings", [])


def match_finding(findings, prop, clause, task, result):
    """A finding matches when property, clause and every key of its `signature` agree with the failing
    case (task params / trace facts).  Only status == "open" entries suppress."""
    for f in findings:
        if f.get("status") != "open" or f.get("property") != prop:
            continue
        fc = f.get("clause")
        if fc is not None and (clause not in fc if isinstance(fc, list) else fc != clause):
            continue
        sig = f.get("signature", {})
        facts = dict(task.get("facts", {}))
        facts["scen"] = task.get("scen")
        # (a fact of the execution itself: did it end with threads blocked on locks?)
        facts["blocked_on_locks"] = any(b[1] == "acquire" for b in (result.get("blocked") or []))
        # ... did a worker thread's cancel() arrive at a future that had been cancelled AT THAT VERY INSTANT by somebody
        # else (the race window of finding D18)?  An arrival at a future that was done since an earlier instant is
        # something else ("stale") and never matches.
        tr = result.get("trace") or []
        done_at = {}
        for e in tr:
            if e.get("ev") in ("FutState", "Observed") and e.get("s") in ("CANCELLED", "CANCELLED_AND_NOTIFIED", "FINISHED"):
                done_at.setdefault(e.get("f"), e.get("t"))
        arr = [e for e in tr if e.get("ev") == "CancelArrived" and e.get("a") == 1 and e.get("r") in ("timeout", "shutdown")]
        if not arr:
            facts["worker_cancel_on_done"] = False
        elif all(done_at.get(e.get("f"), -1) == e.get("t") for e in arr):
            facts["worker_cancel_on_done"] = True
        else:
            facts["worker_cancel_on_done"] = "stale"
        ok = True
        for k, v in sig.items():
            fv = facts.get(k)
            if isinstance(v, list):
                if fv not in v:
                    ok = False
            elif fv != v:
                ok = False
        if ok:
            return f
    return None


# ---------------------------------------------------------------------------------- check context
class Check(object):
    def __init__(self, prop, tier, seed, level="model_checking"):
        self.prop = prop
        self.tier = tier
        self.seed = seed
        self.level = level
        self.t0 = time.time()
        self.states = 0
        self.transitions = 0
        self.mc_runs = []
        self.exhaustive = True
        self.evaluations = 0
        self.validated = 0
        self.distinct = set()
        self.samples = []
        self.violations = []
        self.known_seen = {}
        self.notes = {}
        self.assumptions = []
        self.findings = load_findings()
        self.machinery_errors = []
        self.soft_errors = []       # machinery errors that do not put real violations in doubt (total replay drift)
        self.drift = 0
        self.replayed = 0
        self.witnesses = {}
        self.outcomes = {}
        self.allow_truncation = False   # a check may accept executions cut at the step budget (their prefix is judged)

    # ---- TLC model checking of an implementation spec against its contract
    def mc(self, module, cfg, workers=16, timeout=1800, **kw):
        from . import tlc
        r = tlc.model_check(module, cfg, workers=workers, timeout=timeout, **kw)
        self.states += r["distinct"]
        self.transitions += r["states"]
        self.mc_runs.append({"module": module, "cfg": r["cfg"], "distinct": r["distinct"],
                             "generated": r["states"], "depth": r["depth"], "wall_s": r["wall_s"],
                             "violated": r["violated"]})
        if "was changed while it is specified as UNCHANGED" in r["out"]:
            self.machinery_errors.append("TLC: %s/%s has an action with contradictory primed variables (branch silently "
                                         "disabled)" % (module, cfg))
        if r["violated"]:
            self.machinery_errors.append("TLC: %s/%s violates %s (the specification itself is inconsistent "
                                         "with its contract; this is a machinery defect, not a verdict "
                                         "about the code)" % (module, cfg, r["violated"]))
        return r

    def controls(self, *modules):
        """Negative controls (mxv/controls.py): each seeded model bug must be reported by TLC."""
        from . import controls
        res = controls.run(modules, tier=self.tier)
        lst = self.notes.setdefault("negative_controls", [])
        for r in res:
            lst.append({k: r[k] for k in ("module", "cfg", "override", "expected", "violated", "wall_s")})
            if not r["ok"]:
                self.machinery_errors.append("negative control failed: %s/%s with %s: expected a violation of %s, TLC "
                                             "reported %s (the model or its contract has become vacuous)" % (
                                                 r["module"], r["cfg"], r["override"], r["expected"], r["violated"]))
        return res

    # ---- real executions + TLC verdicts
    def run_and_validate(self, tasks, trace_module, label="", nontrivial=None):
        from . import tlc
        results = run_tasks(tasks)
        bad = [(t, r) for t, r in zip(tasks, results) if not r["ok"]]
        for t, r in bad[:3]:
            self.machinery_errors.append("engine failure in %s %s: %s" % (t["scen"], json.dumps(t["params"])[:300],
                                                                          str(r["failure"])[:1500]))
        good = [(t, r) for t, r in zip(tasks, results) if r["ok"]]
        for t, r in good:
            oc = r.get("outcome") or "none"
            self.outcomes[oc] = self.outcomes.get(oc, 0) + 1
            # a crashed harness thread or a truncated execution must not silently become a verdict
            crashed = [x for x in (r.get("thread_excs") or []) if x[0] == "main"]
            if crashed and len(self.machinery_errors) < 5:
                self.machinery_errors.append("scenario main thread crashed in %s %s: %s" % (
                    t["scen"], json.dumps(t["params"])[:300], crashed[0][1][:300]))
            if oc == "max-steps" and not self.allow_truncation and len(self.machinery_errors) < 5:
                self.machinery_errors.append("execution truncated at the step budget in %s %s" % (
                    t["scen"], json.dumps(t["params"])[:300]))
        traces = [r["trace"] for _, r in good]
        verdicts, wall = tlc.validate_traces(trace_module, traces) if traces else ([], 0)
        self.evaluations += len(good)
        self.validated += len(good)
        for (t, r), (v, step) in zip(good, verdicts):
            key = hashlib.sha1(json.dumps([t["scen"], t["params"], [(e["ev"], e["thr"], e["f"], e["a"], e["t"])
                                                                      for e in r["trace"]]],
                                          sort_keys=True).encode()).hexdigest()
            nt = nontrivial(t, r) if nontrivial else (len(set(e["thr"] for e in r["trace"])) > 2)
            if nt:
                self.distinct.add(key)
            if len(self.samples) < 3 and nt:
                self.samples.append({"scenario": t["scen"], "params": t["params"], "strategy": _short(t["strat"]),
                                     "granularity": t.get("gran", "sync"), "verdict": v,
                                     "trace_excerpt": [[e["ev"], e["thr"], e["t"], e["f"], e["a"], e["s"]]
                                                       for e in r["trace"][:40]]})
            if v != "ok":
                self._judge(t, r, v, step, trace_module)
        return list(zip(good, verdicts))

    def lock_cycles(self, pairs, trace_module, per_case=6, patience=600):
        """Recorded lock programs -> spec/LockCases.tla -> candidate cycles -> steered real executions.
        pairs: what run_and_validate returned for tasks run with lock_log.  Every distinct case (pair of lock
        programs from two threads of one execution) is interleaved exhaustively by TLC; for every case TLC finds
        stuck, the executions it came from are re-run under strategies.Steer, and those re-runs are judged by the
        contract like any other execution: only a deadlock that really happens in the code is a violation."""
        from . import tlc, lockprogs
        cases, sources = {}, {}
        nev = 0
        for (t, r), _ in pairs:
            nev += r.get("lock_events") or 0
            for c in r.get("lockcases") or []:
                k = lockprogs.case_key(c)
                if k not in cases:
                    cases[k] = c
                src = sources.setdefault(k, [])
                if len(src) < per_case:
                    src.append(t)
        # role-level patterns of DIFFERENT executions of the same configuration (task["lock_key"]) are paired too: two
        # flows that exclude each other in any single sequential-looking execution (whoever comes first completes
        # the operation) still form a case; steering the executions either pattern came from decides
        bykey = {}
        for (t, r), _ in pairs:
            if t.get("lock_key") is None:
                continue
            d = bykey.setdefault(t["lock_key"], {})
            for pat in r.get("lockpats") or []:
                pat = (tuple(pat[0]), pat[1])
                src = d.setdefault(pat, [])
                if len(src) < per_case:
                    src.append(t)
        for key, d in bykey.items():
            pats = sorted(d)
            for i, pa in enumerate(pats):
                sa = set(pa[0]) | {pa[1]}
                for pb in pats[i + 1:]:
                    if len(sa & (set(pb[0]) | {pb[1]})) < 2:
                        continue
                    c = {"level": "role", "pats": [[list(pa[0]), pa[1]], [list(pb[0]), pb[1]]], "threads": ["*", "*"]}
                    k = lockprogs.case_key(c)
                    if k not in cases:
                        cases[k] = c
                        sources[k] = (d[pa][:per_case // 2 + 1] + d[pb][:per_case // 2 + 1])[:per_case + 2]
        keys = sorted(cases)
        # TLC sees each distinct *shape* once (locks renamed in order of first appearance, programs ordered)
        shapes, shape_of = {}, []
        for k in keys:
            sh, swapped = lockprogs.shape_of([lockprogs.program((tuple(p[0]), p[1])) for p in cases[k]["pats"]])
            sk = json.dumps(sh)
            if sk not in shapes:
                shapes[sk] = (len(shapes), sh)
            shape_of.append((shapes[sk][0], swapped))
        ordered = [sh for (_, sh) in sorted(shapes.values(), key=lambda x: x[0])]
        scycles, gen, dist, wall = tlc.lock_cases(ordered)
        cycles = {}
        for ci, (si, swapped) in enumerate(shape_of):
            if si in scycles:
                cycles[ci] = [list(reversed(pos)) if swapped else pos for pos in scycles[si]]
        self.states += dist
        self.transitions += gen
        self.mc_runs.append({"module": "LockCases", "cfg": "LockCases.cfg", "distinct": dist, "generated": gen,
                             "depth": 0, "wall_s": round(wall, 2), "violated": None})
        steer = []
        cand = []
        for ci, poss in sorted(cycles.items()):
            c = cases[keys[ci]]
            gates = []
            for pos in poss:
                for g in lockprogs.gates_of(c, pos):
                    if g not in gates:
                        gates.append(g)
            cand.append({"level": c["level"], "patterns": c["pats"], "threads": c["threads"], "gates": gates})
            for t in sources[keys[ci]]:
                t2 = dict(t)
                t2["strat"] = ["steer", gates, patience, t["strat"]]
                t2["facts"] = dict(t.get("facts") or {}, steered=True)
                t2.pop("lock_log", None)
                steer.append(t2)
        before = len(self.violations)
        if steer:
            self.run_and_validate(steer, trace_module, nontrivial=lambda t, r: True)
        info = self.notes.setdefault("lock_programs", {"lock_events": 0, "distinct_cases": 0, "candidate_cycles": 0,
                                                       "steered_executions": 0, "realised": 0, "candidates": []})
        info["lock_events"] += nev
        info["distinct_cases"] += len(keys)
        info["distinct_shapes"] = info.get("distinct_shapes", 0) + len(ordered)
        info["candidate_cycles"] += len(cand)
        info["steered_executions"] += len(steer)
        info["realised"] += len(self.violations) - before
        info["candidates"] = (info["candidates"] + cand)[:12]
        if os.environ.get("MXV_DEBUG_LOCKS"):
            json.dump(cand, open(os.environ["MXV_DEBUG_LOCKS"], "w"))
        return cand

    def replay_behaviours(self, behs, convert, project, trace_module, unordered=()):
        """spec -> code: each TLC behaviour of an implementation spec becomes (scenario, schedule); the real
        library is stepped along it and the projection of what it did is compared with the spec's history.
        A difference is model drift (reported, never an alarm); the executions are judged by the contract
        like any other."""
        tasks, expected = [], []
        for b in behs:
            c = convert(b)
            if c is None:
                continue
            tasks.append(c[0])
            expected.append(c[1])
        pairs = self.run_and_validate(tasks, trace_module, nontrivial=lambda t, r: True)
        exp_by_id = {id(t): e for t, e in zip(tasks, expected)}
        drifts = []
        for ((t, r), (v, step)) in pairs:
            self.replayed += 1
            got = norm_polled(project(r["trace"]), unordered)
            exp = norm_polled(exp_by_id[id(t)], unordered)
            if got != exp or r.get("mismatch"):
                self.drift += 1
                if len(drifts) < 3:
                    k = 0
                    while k < min(len(got), len(exp)) and got[k] == exp[k]:
                        k += 1
                    drifts.append({"params": t["params"], "schedule_mismatches": r.get("mismatch"),
                                   "first_mismatch": r.get("first_mismatch"), "diverge_at": k,
                                   "spec": exp[k:k + 3], "code": got[k:k + 3]})
        if drifts:
            self.notes.setdefault("drift_samples", []).extend(drifts)
        ndrift = sum(1 for ((t, r), _v) in pairs
                     if norm_polled(project(r["trace"]), unordered) != norm_polled(exp_by_id[id(t)], unordered))
        if len(pairs) >= 20 and ndrift == len(pairs):
            # EVERY behaviour of the batch differs from the code's history: the binding itself is broken (a projection
            # that lost an event, a model that gained one): not a verdict about the code, and not to be overlooked
            self.soft_errors.append("spec -> code replay: all %d behaviours of a batch drift (%s), e.g. %s" % (
                len(pairs), trace_module, json.dumps(drifts[0])[:600]))
        return pairs

    def _judge(self, task, result, clause, step, trace_module):
        f = match_finding(self.findings, self.prop, clause, task, result)
        if f is not None:
            k = f["id"]
            self.known_seen[k] = self.known_seen.get(k, 0) + 1
            return
        n_same = sum(1 for v in self.violations if v["clause"] == clause)
        path = self.write_replay(task, result, clause, step, trace_module) if n_same < 3 else self.violations[-1]["replay"]
        self.violations.append({"clause": clause, "step": step, "replay": path, "scen": task["scen"],
                                "params": task["params"]})

    def write_replay(self, task, result, clause, step, trace_module):
        d = os.path.join(OUT, "replay")
        os.makedirs(d, exist_ok=True)
        blob = {"property": self.prop, "clause": clause, "step": step, "trace_module": trace_module,
                "task": {k: v for k, v in task.items() if k != "opts"}, "schedule": result.get("schedule"),
                "trace": result.get("trace"), "blocked": result.get("blocked"), "outcome": result.get("outcome"),
                "event_at_step": (result["trace"][step - 1] if 0 < step <= len(result["trace"]) else None)}
        h = hashlib.sha1(json.dumps(blob, sort_keys=True, default=str).encode()).hexdigest()[:12]
        path = os.path.join(d, "%s-%s.json" % (self.prop, h))
        json.dump(blob, open(path, "w"), indent=1, default=str)
        return path

    # ---- finish: evidence + exit code
    def finish(self):
        from . import tlc  # noqa
        wall = time.time() - self.t0
        cov = {
            "states": self.states, "transitions": self.transitions,
            "traces_validated_against_impl": self.validated,
            "samples": self.samples or [{"note": "no real execution in this run"}],
            "evaluations": self.evaluations, "distinct_nontrivial": len(self.distinct),
            "rule": "one evaluation = one execution of the real library under the controlled scheduler, "
                    "validated by TLC against the contract module; distinct = distinct (scenario, projected "
                    "trace) pairs; non-trivial = more than two threads took part",
            "exhaustive": bool(self.exhaustive and self.mc_runs),
            "mc_runs": self.mc_runs, "model_drift": self.drift, "spec_behaviours_replayed": self.replayed,
            "known_findings_seen": self.known_seen, "witnesses": self.witnesses,
            "execution_outcomes": self.outcomes,
        }
        cov.update(self.notes)
        ev = {"property_id": self.prop, "tier": self.tier, "seed": self.seed, "level": self.level,
              "coverage": cov, "assumptions": self.assumptions, "wall_s": round(wall, 2),
              "violations": len(self.violations)}
        evdir = os.environ.get("MXV_EVIDENCE_DIR") or os.path.join(ROOT, "evidence")
        os.makedirs(evdir, exist_ok=True)
        json.dump(ev, open(os.path.join(evdir, "%s.json" % self.prop), "w"), indent=1, default=str)
        close_pool()
        for k, n in sorted(self.known_seen.items()):
            f = [x for x in self.findings if x["id"] == k][0]
            print("KNOWN-FINDING: property=%s %s (%s; seen %d times)" % (self.prop, f["what"], k, n))
        if self.machinery_errors or (self.soft_errors and not self.violations):
            for m in (self.machinery_errors + self.soft_errors)[:5]:
                print("MACHINERY-ERROR: " + m)
            return 2
        if self.violations:
            for m in self.soft_errors[:2]:
                # (the code no longer follows the model at all; the violations below are verdicts on real executions)
                print("NOTE: " + m[:300])
            seen = set()
            for v in self.violations:
                if v["clause"] in seen:
                    continue
                seen.add(v["clause"])
                print("VIOLATION property=%s replay=%s" % (self.prop, v["replay"]))
                print("  clause=%s scenario=%s params=%s" % (v["clause"], v["scen"], json.dumps(v["params"])[:400]))
            print("(%d violating executions in total)" % len(self.violations))
            return 1
        print("OK property=%s tier=%s states=%d traces_validated=%d distinct=%d wall=%.1fs" % (
            self.prop, self.tier, self.states, self.validated, len(self.distinct), wall))
        return 0


def phase_tasks(scen, params, pairs, ns, ms, gran="line", facts=None, prefix=()):
    """Directed schedules with two preemptions: for every ordered pair (a, b) of thread names and every (n, m):
    a runs n steps, b runs m steps, a runs to its end, then b (strategies.Phases).  Sweeping n and m places b's
    operation at every point of a's operation, deterministically."""
    out = []
    for a, b in pairs:
        for n in ns:
            for m in ms:
                out.append({"scen": scen, "params": params,
                            "strat": ["phases", [list(x) for x in prefix] + [[a, n], [b, m], [a, 10000]]],
                            "gran": gran, "facts": dict(facts or {}, directed=True)})
    return out


POLLED = ("Observed", "DelegateState")


def norm_polled(evs, unordered=()):
    """State changes of futures are observed by polling at the end of a step; the order in which several of
    them are reported within one step is an artefact: sort each run of consecutive polled events."""
    out, run = [], []
    for ev_name in unordered:   # e.g. the sweep over a set: iteration order is unspecified
        evs = _sort_runs(evs, ev_name)
    for e in evs:
        if e[0] in POLLED:
            run.append(e)
        else:
            out.extend(sorted(run))
            run = []
            out.append(e)
    out.extend(sorted(run))
    return out


def _sort_runs(evs, name):
    out, run = [], []
    for e in evs:
        if e[0] == name:
            run.append(e)
        else:
            out.extend(sorted(run))
            run = []
            out.append(e)
    out.extend(sorted(run))
    return out


def _short(s):
    if s and s[0] == "replay":
        return ["replay", "<%d steps>" % len(s[1])]
    return s
