"""Running TLC: exhaustive model checking of the implementation-shaped specs, batch validation of
recorded traces against the contract modules, simulation / witness behaviours for spec->code replay."""
import json
import os
import re
import shutil
import subprocess
import tempfile
import time

SPEC_DIR = os.path.join(os.path.dirname(os.path.dirname(os.path.abspath(__file__))), "spec")
JAR = "/opt/veriftools/tla/tla2tools.jar"
DEPS = "/opt/veriftools/tla/CommunityModules-deps.jar"


class TlcError(Exception):
    pass


def _java_cmd(extra_props=()):
    # (a bounded heap: the default - a quarter of the machine's memory, of which TLC reserves its fingerprint set at
    #  start - makes a dozen concurrent model checks fail to start on a busy machine; the fingerprint set spills to disk)
    heap = [] if any(str(x).startswith("-Xmx") for x in extra_props) else ["-Xmx%s" % os.environ.get("MXV_TLC_HEAP", "4g")]
    return ["java", "-XX:+UseParallelGC", "-Xss16m"] + heap + list(extra_props) + ["-cp", JAR + ":" + DEPS, "tlc2.TLC"]


_JVM_START_FAILURES = ("Could not reserve enough space", "Cannot allocate memory", "unable to create native thread",
                       "There is insufficient memory", "Error occurred during initialization of VM")


def _run(args, env=None, timeout=1800, cwd=SPEC_DIR, props=()):
    e = dict(os.environ)
    if env:
        e.update(env)
    t0 = time.time()
    # TLC leaves a tlc-<n> directory in java.io.tmpdir on every start: give every invocation a private one and remove it
    jtmp = tempfile.mkdtemp(prefix="mxv-jtmp-")
    props = list(props) + ["-Djava.io.tmpdir=" + jtmp]
    try:
        for attempt in range(3):
            try:
                p = subprocess.run(_java_cmd(props) + args, cwd=cwd, env=e, stdout=subprocess.PIPE,
                                   stderr=subprocess.STDOUT, timeout=timeout)
            except subprocess.TimeoutExpired as ex:
                subprocess.run(["pkill", "-f", "tlc2[.]TLC.*" + re.escape(args[-1])], check=False)
                raise TlcError("TLC timeout after %ss: %s" % (timeout, " ".join(args)))
            out = p.stdout.decode("utf-8", "replace")
            # the JVM itself could not start (memory pressure from other processes): nothing was checked - try again
            if attempt < 2 and "TLC2 Version" not in out and any(m in out for m in _JVM_START_FAILURES):
                time.sleep(5 * (attempt + 1))
                continue
            break
    finally:
        shutil.rmtree(jtmp, ignore_errors=True)
    return p.returncode, out, time.time() - t0


_RE_STATES = re.compile(r"(\d+) states generated, (\d+) distinct states found, (\d+) states left on queue")
_RE_DEPTH = re.compile(r"depth of the complete state graph search is (\d+)")
_RE_INV = re.compile(r"Invariant (\S+) is violated")
_RE_PROP = re.compile(r"(Action|Temporal) propert(?:y|ies) (\S+)? ?(?:is|were) violated")


def model_check(module, cfg, workers=8, timeout=1800, coverage=False, constants_override=None, deadlock=None,
                simulate=None, depth=None, seed=None, dump_trace=False, extra=()):
    """Run TLC on spec/<module>.tla with spec/cfg/<cfg>.  Returns a dict with states, distinct, depth,
    ok, violated (name or None), deadlock (bool), trace (list of states text) and the raw output tail."""
    tmp = tempfile.mkdtemp(prefix="mxv-tlc-")
    try:
        cfg_path = cfg if os.path.isabs(cfg) else os.path.join(SPEC_DIR, "cfg", cfg)
        if constants_override:
            txt = open(cfg_path).read()
            for k, v in constants_override.items():
                txt, n = re.subn(r"(?m)^(\s*%s\s*(?:=|<-)\s*).*$" % re.escape(k), lambda m: m.group(1) + v, txt)
                if n == 0:
                    raise TlcError("constant %s not in %s" % (k, cfg_path))
            cfg_path = os.path.join(tmp, os.path.basename(cfg_path))
            open(cfg_path, "w").write(txt)
        args = ["-metadir", os.path.join(tmp, "meta"), "-noGenerateSpecTE", "-config", cfg_path]
        if simulate is not None:
            args += ["-simulate", simulate]
            if depth:
                args += ["-depth", str(depth)]
            args += ["-workers", "1"]
        else:
            args += ["-workers", str(workers)]
        if seed is not None:
            args += ["-seed", str(seed)]
        if coverage:
            args += ["-coverage", "1"]
        if deadlock is False:
            args += ["-deadlock"]
        args += list(extra)
        args += [module + ".tla"]
        rc, out, wall = _run(args, timeout=timeout)
        res = {"module": module, "cfg": os.path.basename(cfg_path), "rc": rc, "wall_s": round(wall, 2),
               "states": 0, "distinct": 0, "depth": 0, "violated": None, "deadlock": False, "ok": False,
               "tail": out[-3000:], "out": out}
        m = None
        for m in _RE_STATES.finditer(out):
            pass
        if m:
            res["states"], res["distinct"] = int(m.group(1)), int(m.group(2))
        m = _RE_DEPTH.search(out)
        if m:
            res["depth"] = int(m.group(1))
        m = _RE_INV.search(out)
        if m:
            res["violated"] = m.group(1)
        if "Deadlock reached" in out:
            res["deadlock"] = True
            res["violated"] = res["violated"] or "Deadlock"
        m2 = _RE_PROP.search(out)
        if m2 and not res["violated"]:
            res["violated"] = m2.group(2) or "property"
        if "Model checking completed. No error has been found." in out or (
                simulate is not None and res["violated"] is None and "Error:" not in out):
            res["ok"] = True
        if not res["ok"] and res["violated"] is None:
            # parse / semantic / evaluation error: machinery failure
            raise TlcError("TLC failed on %s/%s:\n%s" % (module, cfg, out[-4000:]))
        if res["violated"]:
            res["trace"] = parse_trace(out)
        if coverage:
            res["coverage"] = parse_coverage(out)
        return res
    finally:
        shutil.rmtree(tmp, ignore_errors=True)


_RE_STATE_HDR = re.compile(r"^State (\d+): <(.*?)>\s*$", re.M)


def parse_trace(out):
    """Parse a TLC error trace into [(action, {var: text})]."""
    states = []
    parts = _RE_STATE_HDR.split(out)
    # parts: [pre, num, hdr, body, num, hdr, body, ...]
    i = 1
    while i + 2 < len(parts) + 1 and i + 2 <= len(parts):
        num, hdr, body = parts[i], parts[i + 1], parts[i + 2]
        body = body.split("\n\n")[0]
        vars_ = {}
        cur = None
        for line in body.split("\n"):
            m = re.match(r"^/\\ (\w+) = (.*)$", line)
            if m:
                cur = m.group(1)
                vars_[cur] = m.group(2)
            elif cur and line.strip() and not line.startswith("Error") and not line.startswith("State"):
                vars_[cur] += " " + line.strip()
        act = hdr.split(" ")[0]
        states.append((act, vars_))
        i += 3
    return states


_RE_COV = re.compile(r"^<(\w+) line (\d+), col (\d+) to line (\d+), col (\d+) of module (\w+)>: (\d+):(\d+)", re.M)


def parse_coverage(out):
    cov = {}
    for m in _RE_COV.finditer(out):
        name = m.group(1)
        cov[name] = cov.get(name, 0) + int(m.group(8))
    return cov


_RE_VERDICT = re.compile(r'<<"VERDICT", (\d+), "([^"]*)", (\d+)>>')


def validate_traces(trace_module, traces, timeout=1800, chunk=4000, props=()):
    """Batch-validate recorded traces (lists of exported events) against spec/<trace_module>.tla.
    Returns list of (verdict, step) aligned with `traces`.  Verdicts are total: a missing one is an error."""
    results = [None] * len(traces)
    wall = 0.0
    for base in range(0, len(traces), chunk):
        part = traces[base:base + chunk]
        tmp = tempfile.mkdtemp(prefix="mxv-trace-")
        try:
            tf = os.path.join(tmp, "traces.json")
            with open(tf, "w") as fh:
                json.dump(part, fh)
            cfg = os.path.join(tmp, "trace.cfg")
            open(cfg, "w").write("SPECIFICATION TraceSpec\nINVARIANT Report\nCHECK_DEADLOCK FALSE\n")
            args = ["-metadir", os.path.join(tmp, "meta"), "-noGenerateSpecTE", "-config", cfg, "-workers", "1",
                    trace_module + ".tla"]
            rc, out, w = _run(args, env={"TRACE_FILE": tf}, timeout=timeout, props=props)
            wall += w
            if "Model checking completed. No error has been found." not in out:
                raise TlcError("trace validation failed to run (%s):\n%s" % (trace_module, out[-4000:]))
            for m in _RE_VERDICT.finditer(out):
                tid = int(m.group(1))
                results[base + tid - 1] = (m.group(2), int(m.group(3)))
        finally:
            shutil.rmtree(tmp, ignore_errors=True)
    missing = [i for i, r in enumerate(results) if r is None]
    if missing:
        raise TlcError("no verdict for traces %s of %s" % (missing[:10], trace_module))
    return results, wall


_RE_CYCLE = re.compile(r'<<"LOCKCYCLE", (\d+), <<([\d, ]+)>>>>')


def lock_cases(cases, timeout=1200, workers=8):
    """Interleave recorded lock programs with spec/LockCases.tla.  cases: list of lists of programs (lists of
    [op, lock]).  Returns ({case index (0-based): [positions, ...]}, states, distinct, wall)."""
    if not cases:
        return {}, 0, 0, 0.0
    tmp = tempfile.mkdtemp(prefix="mxv-locks-")
    try:
        cf = os.path.join(tmp, "cases.json")
        with open(cf, "w") as fh:
            json.dump(cases, fh)
        args = ["-metadir", os.path.join(tmp, "meta"), "-noGenerateSpecTE", "-config",
                os.path.join(SPEC_DIR, "cfg", "LockCases.cfg"), "-workers", str(workers), "LockCases.tla"]
        rc, out, wall = _run(args, env={"CASES_FILE": cf}, timeout=timeout)
        if "Model checking completed. No error has been found." not in out:
            raise TlcError("LockCases failed to run:\n%s" % out[-4000:])
        cycles = {}
        for m in _RE_CYCLE.finditer(out):
            pos = [int(x) for x in m.group(2).split(",")]
            cycles.setdefault(int(m.group(1)) - 1, [])
            if pos not in cycles[int(m.group(1)) - 1]:
                cycles[int(m.group(1)) - 1].append(pos)
        st = None
        for st in _RE_STATES.finditer(out):
            pass
        return cycles, (int(st.group(1)) if st else 0), (int(st.group(2)) if st else 0), wall
    finally:
        shutil.rmtree(tmp, ignore_errors=True)


def simulate_behaviours(module, cfg, num, depth, seed, timeout=600):
    """tlc -simulate file=...: returns a list of behaviours, each a list of (action, {var: text})."""
    tmp = tempfile.mkdtemp(prefix="mxv-sim-")
    try:
        cfg_path = cfg if os.path.isabs(cfg) else os.path.join(SPEC_DIR, "cfg", cfg)
        pref = os.path.join(tmp, "tr")
        args = ["-metadir", os.path.join(tmp, "meta"), "-noGenerateSpecTE", "-config", cfg_path,
                "-simulate", "file=%s,num=%d" % (pref, num), "-depth", str(depth), "-workers", "1",
                "-seed", str(seed), module + ".tla"]
        rc, out, wall = _run(args, timeout=timeout)
        behs = []
        for fn in sorted(os.listdir(tmp)):
            if not fn.startswith("tr"):
                continue
            txt = open(os.path.join(tmp, fn)).read()
            behs.append(parse_sim_file(txt))
        if not behs and "Error" in out:
            raise TlcError("simulation failed:\n" + out[-3000:])
        return behs
    finally:
        shutil.rmtree(tmp, ignore_errors=True)


_RE_SIM_STATE = re.compile(r"\\\* <(\w+)[^\n]*>\s*\nSTATE_(\d+) ==\s*\n(.*?)(?=\n\n|\Z)", re.S)


def parse_sim_file(txt):
    out = []
    for m in _RE_SIM_STATE.finditer(txt):
        act = m.group(1)
        body = m.group(3)
        vars_ = {}
        cur = None
        for line in body.split("\n"):
            mm = re.match(r"^\s*/\\ (\w+) = (.*)$", line)
            if mm:
                cur = mm.group(1)
                vars_[cur] = mm.group(2)
            elif cur and line.strip():
                vars_[cur] += " " + line.strip()
        out.append((act, vars_))
    return out


def tla_str_seq(text):
    """Parse a TLA+ sequence of strings/ints like <<"a", "b">> into a Python list."""
    text = text.strip()
    if not text.startswith("<<"):
        return []
    inner = text[2:-2].strip()
    if not inner:
        return []
    out = []
    for tok in re.findall(r'"[^"]*"|-?\d+', inner):
        out.append(tok[1:-1] if tok.startswith('"') else int(tok))
    return out


def sany(module):
    p = subprocess.run(["tla-sany", module + ".tla"], cwd=SPEC_DIR, stdout=subprocess.PIPE, stderr=subprocess.STDOUT)
    out = p.stdout.decode("utf-8", "replace")
    ok = p.returncode == 0 and "Semantic errors" not in out and "Parse Error" not in out and "Fatal" not in out
    return ok, out


# ---------------------------------------------------------------------------------- behaviour helpers
def nums(txt):
    return [int(x) for x in re.findall(r"-?\d+", txt)]


def bools(txt):
    return [x == "TRUE" for x in re.findall(r"TRUE|FALSE", txt)]


def actor(txt, names):
    """<<"sub", 2>> -> names["sub"] % 2 ; tick / - -> None"""
    m = re.match(r'<<"([\w-]+)", (\d+)>>', txt.strip())
    kind, n = m.group(1), int(m.group(2))
    if kind in ("tick", "-"):
        return None
    nm = names[kind]
    return nm % n if "%d" in nm else nm


def hist(txt):
    return [[a, int(b), int(c)] for a, b, c in re.findall(r'<<"(\w+)", (-?\d+), (\d+)>>', txt)]


def schedule_of(beh, names):
    return [n for n in (actor(s[1]["actor"], names) for s in beh[1:]) if n]
