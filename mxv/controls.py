"""Negative controls of the implementation-shaped specifications: every seeded model bug (`Bug = "..."`) and every
as-shipped switch of a repaired defect (`AsShipped_* = TRUE`) must make TLC report a violation under the listed
configuration.  A control that passes means the model, its bounds or its contract became vacuous for that kind of
mistake - a machinery failure, never a verdict about the code."""
from concurrent.futures import ThreadPoolExecutor

# module -> [(cfg, {constant: value}, invariant / property expected to be violated)]
CONTROLS = {
    "Apply": [("Apply.mc.cfg", {"Bug": '"append"'}, "CurriedEqualsDirect")],
    "Bind": [("Bind.mc.cfg", {"Bug": '"drop_chain"'}, "ContractHolds"),
             ("Bind.mc.cfg", {"Bug": '"flat_bind_plain"'}, "ContractHolds"),
             ("Bind.names.cfg", {"AsShipped_D10": "TRUE"}, "ContractHolds"),
             ("Bind.names.cfg", {"Bug": '"stale_bind_name"'}, "ContractHolds")],
    "BoolOp": [("BoolOp.mc.cfg", {"Bug": '"no_loser_cancel"'}, "ContractHolds"),
               ("BoolOp.mc.cfg", {"Bug": '"or_last_only"'}, "ContractHolds"),
               ("BoolOp.mc2.cfg", {"AsShipped_N1": "TRUE"}, "ContractHolds"),
               ("BoolOp.mc9.cfg", {"Bug": '"publish_under_lock"'}, "ContractHolds"),
               ("BoolOp.mc2.cfg", {"Bug": '"dup_counter"'}, "ContractHolds"),
               # (three inputs at micro-operation granularity: 2 minutes, thorough tier only)
               ("BoolOp.mc6.cfg", {"Bug": '"pop_before_lock"'}, "ContractHolds", "thorough")],
    "CancelOnShutdown": [("CancelOnShutdown.mc.cfg", {"Bug": '"no_track"'}, "ContractHolds"),
                         ("CancelOnShutdown.mc.cfg", {"Bug": '"skip_one"'}, "ContractHolds"),
                         ("CancelOnShutdown.mc.cfg", {"Bug": '"snapshot_before_gate"'}, "ContractHolds"),
                         ("CancelOnShutdown.mc.cfg", {"Bug": '"submit_cancels_late"'}, "ContractHolds"),
                         ("CancelOnShutdown.mc2.cfg", {"Bug": '"snapshot_live_iteration"'}, "ContractHolds"),
                         ("CancelOnShutdown.mc.cfg", {"AsShipped_D2": "TRUE"}, "NoABBA")],
    "ExitRegistry": [("ExitRegistry.mc2.cfg", {"Bug": '"flag_after_loop"'}, "ThreadsGone"),
                     ("ExitRegistry.mc2.cfg", {"Bug": '"rebuild_in_place"'}, "ThreadsGone"),
                     ("ExitRegistry.mc2.cfg", {"Bug": '"rebuild_unlocked"'}, "Registered")],
    "FutureImpl": [("FutureImpl.mc.cfg", {"Bug": '"append_when_done"'}, "NoCallbackLeft"),
                   ("FutureImpl.mc.cfg", {"Bug": '"keep_callbacks"'}, "NoCallbackLeft"),
                   ("FutureImpl.mc.cfg", {"Bug": '"true_when_done"'}, "ContractHolds"),
                   ("FutureImpl.mc.cfg", {"Bug": '"no_notify_on_xcancel"'}, "ContractHolds"),
                   ("FutureImpl.mc.cfg", {"Bug": '"stop_at_raising_callback"'}, "ContractHolds")],
    "MapFuture": [("MapFuture.mc.cfg", {"Bug": '"swallow_efn_exc"'}, "ContractHolds"),
                  ("MapFuture.mc.cfg", {"AsShipped_D12": "TRUE"}, "ContractHolds")],
    "Metrics": [("Metrics.mc.cfg", {"Bug": '"no_dec_on_finalize"'}, "QuiescentGaugesMatch"),
                ("Metrics.mc.cfg", {"Bug": '"no_inprogress_dec"'}, "QuiescentGaugesMatch"),
                ("Metrics.mc.cfg", {"Bug": '"retry_double_dec"'}, "QuiescentGaugesMatch"),
                ("Metrics.mc.cfg", {"AsShipped_D7": "TRUE"}, "QuiescentGaugesMatch")],
    "Poll": [("Poll.mc.cfg", {"Bug": '"no_deregister"'}, "ContractHolds"),
             ("Poll.mc.cfg", {"Bug": '"no_register"'}, "ContractHolds"),
             ("Poll.mc.cfg", {"Bug": '"no_set_on_register"'}, "ContractHolds"),
             ("Poll.mc3.cfg", {"Bug": '"raise_fails_live"'}, "ContractHolds"),
             ("Poll.mc.cfg", {"Bug": '"dereg_in_place"'}, "ContractHolds")],
    "Proxy": [("Proxy.mc.cfg", {"Bug": '"forward_cancel"'}, "ContractHolds"),
              ("Proxy.mc.cfg", {"Bug": '"timeout_ignored"'}, "ContractHolds")],
    "Retry": [("Retry.mc.cfg", {"Bug": '"no_inherit"'}, "ContractHolds"),
              ("Retry.mc.cfg", {"Bug": '"no_wake_on_retry"'}, "NoLostWakeup"),
              ("Retry.mc.cfg", {"Bug": '"wake_before_append"'}, "NoLostWakeup"),
              ("Retry.mc.cfg", {"Bug": '"done_check_before_locks"'}, "ContractHolds"),
              ("Retry.mc3.cfg", {"Bug": '"stop_priority_lost"'}, "ContractHolds"),
              ("Retry.mc.cfg", {"AsShipped_D8": "TRUE"}, "NoStaleJobAtEnd"),
              ("Retry.mc.cfg", {"AsShipped_D9": "TRUE"}, "ContractHolds")],
    "SharedTimeout": [("SharedTimeout.mc2.cfg", {"Bug": '"no_weakref_callback"'}, "ThreadsGone"),
                      ("SharedTimeout.mc2.cfg", {"Bug": '"no_set_on_submit"'}, "Settled"),
                      ("SharedTimeout.mc2.cfg", {"Bug": '"done_future_keeps_executor"'}, "ThreadsGone"),
                      ("SharedTimeout.mc2.cfg", {"Bug": '"worker_keeps_ref"'}, "ThreadsGone"),
                      ("SharedTimeout.mc2.cfg", {"Bug": '"ref_not_published"'}, "AtMostOneAlive"),
                      ("SharedTimeout.mc2.cfg", {"Bug": '"no_lock"'}, "AtMostOneAlive")],
    "Throttle": [("Throttle.dyn.cfg", {"Bug": '"lifo"'}, "ContractHolds"),
                 ("Throttle.mc.cfg", {"Bug": '"no_decr"'}, "ContractHoldsButD6"),
                 ("Throttle.mc.cfg", {"Bug": '"no_set_on_done"'}, "ContractHoldsButD6"),
                 ("Throttle.dyn.cfg", {"Bug": '"off_by_one"'}, "ContractHolds"),
                 ("Throttle.mc5.cfg", {"Bug": '"release_after_callbacks"'}, "ContractHolds"),
                 ("Throttle.dyn4.cfg", {"Bug": '"unlimited_uncounted"'}, "CounterSound"),
                 ("Throttle.mc4.cfg", {"Bug": '"rotate_on_cancel"'}, "ContractHoldsButD6", "thorough")],
    "Timeout": [("Timeout.mc.cfg", {"Bug": '"deadline_first"'}, "ContractHolds"),
                ("Timeout.mc.cfg", {"Bug": '"drop_pending"'}, "NoJobLost"),
                ("Timeout.mc4.cfg", {"Bug": '"early"'}, "ContractHolds"),
                ("Timeout.mc5.cfg", {"Bug": '"stale_now"'}, "ContractHolds"),
                ("Timeout.mc.cfg", {"Bug": '"wake_only_if_empty"'}, "ContractHolds"),
                ("Timeout.mc.cfg", {"Bug": '"partition_unlocked"'}, "NoJobLost"),
                ("Timeout.mc4.cfg", {"Bug": '"two_clock_reads"'}, "NoJobLost"),
                ("Timeout.mc.cfg", {"Bug": '"no_set_on_submit"'}, "NoTimerlessSleepWithWork")],
    "WorkerLoop": [("WorkerLoop.mc.cfg", {"Bug": '"clear_before_wait"'}, "ThreadExits"),
                   ("WorkerLoop.mc.cfg", {"Bug": '"no_set_on_shutdown"'}, "ThreadExits"),
                   ("WorkerLoop.mc.cfg", {"Bug": '"done_future_keeps_executor"'}, "ThreadExits"),
                   ("WorkerLoop.mc.cfg", {"Bug": '"exit_only_when_idle"'}, "ThreadExits"),
                   ("WorkerLoop.mc2.cfg", {"Bug": '"exit_only_when_idle"'}, "GoneAfterOnePeriod")],
    "Zip": [("Zip.mc.cfg", {"Bug": '"no_fanout"'}, "ContractHolds"),
            ("Zip.mc.cfg", {"Bug": '"slot_shift"'}, "ContractHolds"),
            ("Zip.mc.cfg", {"Bug": '"index_dict"'}, "ContractHolds"),
            ("Zip.mc3.cfg", {"Bug": '"fanout_dict"'}, "ContractHolds"),
            ("Zip.mc2.cfg", {"AsShipped_D12": "TRUE"}, "ContractHolds")],
    "FutureChain": [("FutureChain.d16.cfg", {}, "NoDeadlock"),
                    ("FutureChain.mc2.cfg", {"Bug": '"callbacks_under_lock"'}, "NoDeadlock"),
                    ("FutureChain.mc2.cfg", {"Bug": '"done_check_outside_lock"'}, "ContractHolds"),
                    ("FutureChain.mc2.cfg", {"AsShipped_D3": "TRUE"}, "ContractHolds"),
                    ("FutureChain.mc.cfg", {"AsShipped_D15": "TRUE"}, "ContractHolds")],
    "TimeoutCount": [("TimeoutCount.mc.cfg", {"AsShipped_D18": "TRUE"}, "CountExact")],
    "LockProg": [("LockProg.cos_asshipped.cfg", {}, "Deadlock"), ("LockProg.d14.cfg", {}, "Deadlock")],
}


def run(modules, timeout=3000, tier="thorough"):
    """-> list of {"module", "cfg", "override", "expected", "violated", "ok", "wall_s"}"""
    from . import tlc
    jobs = [(m, row[0], row[1], row[2]) for m in modules for row in CONTROLS.get(m, [])
            if len(row) < 4 or row[3] == tier]

    def one(j):
        m, c, o, exp = j
        try:
            r = tlc.model_check(m, c, workers=2, timeout=timeout, constants_override=o or None)
            v = r["violated"]
            wall = r["wall_s"]
        except Exception as e:   # noqa
            v, wall = "ERROR: %s" % str(e)[:200], 0
        return {"module": m, "cfg": c, "override": o, "expected": exp, "violated": v, "ok": v == exp, "wall_s": wall}

    if not jobs:
        return []
    with ThreadPoolExecutor(8) as ex:
        return list(ex.map(one, jobs))
