import argparse
import importlib
import json
import os
import sys
import traceback

ROOT = os.path.dirname(os.path.dirname(os.path.abspath(__file__)))


def main():
    ap = argparse.ArgumentParser()
    ap.add_argument("prop")
    ap.add_argument("--tier", default=os.environ.get("VERIF_TIER", "quick"))
    ap.add_argument("--replay")
    a = ap.parse_args()
    seed = int(os.environ.get("VERIF_SEED", "0") or 0)
    os.environ["MORE_EXECUTORS_VERIF"] = "1"
    if a.prop in ("C20",):
        os.environ["MXV_METRICS"] = "1"
    else:
        os.environ["MORE_EXECUTORS_PROMETHEUS"] = "0"
    sys.path.insert(0, os.environ.get("MXV_REPO", "/repo"))
    from mxv import core
    if a.replay:
        from mxv import replay
        sys.exit(replay.run(a.prop, a.replay))
    level = "model_checking"
    try:        # the level claimed in MANIFEST.json is the level the evidence is recorded for
        import json as _json
        for c in _json.load(open(os.path.join(core.ROOT, "MANIFEST.json"))).get("checks", []):
            if c.get("property_id") == a.prop:
                level = (c.get("level_claimed") or {}).get("category", level)
    except Exception:
        pass
    ck = core.Check(a.prop, a.tier if a.tier in ("quick", "thorough") else "quick", seed, level=level)
    try:
        mod = importlib.import_module("mxv.checks." + a.prop.lower())
        mod.run(ck)
        # vacuity gate: every seeded model bug of the specifications this check model-checked must be found
        from . import controls as _controls
        done = set(c["module"] for c in ck.notes.get("negative_controls", []))
        ck.controls(*[m for m in sorted(set(r["module"] for r in ck.mc_runs)) if m in _controls.CONTROLS and m not in done])
        rc = ck.finish()
    except BaseException as e:
        traceback.print_exc()
        print("MACHINERY-ERROR: %s" % (str(e)[:500],))
        try:
            core.close_pool()
        except Exception:
            pass
        rc = 2
    sys.exit(rc)


if __name__ == "__main__":
    main()
