"""C07 - Throttle: never more than count in flight, FIFO hand-over, no idle capacity."""
import random

from .. import tlc

TRACE = "ThrottleObsTrace"
NAMES = {"sub": "sub%d", "env": "env%d", "can": "can%d", "loop": "ThrottleExecutor-t", "obs": "main", "ch": "main"}


def converter(count, block):
    def convert(beh):
        st0 = beh[0][1]
        S, D, K, C = tlc.nums(st0["cfgS"]), tlc.nums(st0["cfgD"]), tlc.nums(st0["cfgK"]), tlc.bools(st0["cfgC"])
        jobs = [{"S": S[i], "D": D[i], "K": K[i] if K[i] < 90000 else None, "C": C[i]} for i in range(len(S))]
        task = {"scen": "throttle",
                "params": {"flavour": "manual", "count": count, "block": block, "jobs": jobs, "horizon": 1500,
                           "visible": True},
                "strat": ["replay", tlc.schedule_of(beh, NAMES), ["sticky"], True], "gran": "sync",
                "facts": {"block": block, "count": count}}
        return task, tlc.hist(beh[-1][1]["hist"])
    return convert


def project(trace):
    out = []
    for e in trace:
        ev = e["ev"]
        if ev in ("SubmitCall", "SubmitRet", "InvokeEnd", "End", "CancelCall", "CancelRet"):
            out.append([ev, e["f"], e["t"]])
        elif ev in ("CountRet", "CountRaise", "CountChange"):
            if not (ev == "CountRet" and e["r"] == "main"):      # the constructor's own call is part of Init in the spec
                out.append([ev, -1, e["t"]])
        elif ev in ("DelegateSubmit",) and e["s"] == "tap":
            out.append([ev, e["f"], e["t"]])
        elif ev == "DelegateState" and e["s"] == "CANCELLED":
            out.append([ev, e["f"], e["t"]])
        elif ev == "Observed" and e["s"] in ("FINISHED", "CANCELLED_AND_NOTIFIED"):
            out.append([ev, e["f"], e["t"]])
    return out


def gen(rng, i):
    n = rng.choice([2, 3, 3, 4, 5])
    block = rng.random() < 0.5
    r = rng.random()
    if r < 0.55:
        count = rng.choice([1, 1, 2, 2, 3])
    elif r < 0.65:
        count = None
    elif r < 0.72 and not block:
        count = 0
    else:
        vals = [rng.choice([1, 2, 3, None, "raise"]) for _ in range(3)]
        if vals[0] == "raise":
            vals[0] = 1
        if block:
            vals = [v if v not in (None,) else 2 for v in vals]
        count = {"script": [[0, vals[0]], [rng.choice([150, 400]), vals[1]], [rng.choice([700, 900]), vals[2]]]}
    jobs = []
    for _ in range(n):
        jobs.append({"S": rng.choice([0, 0, 0, 100, 350]), "D": rng.choice([200, 300, 300, 700]),
                     "K": rng.choice([None, None, None, 50, 320, 400]), "C": rng.random() < 0.4,
                     "cbd": rng.choice([0, 0, 0, 500])})
    if rng.random() < 0.2:
        # the count callable answers a, later b, and only then starts to raise: "the last value stays in force" must
        # mean b; submissions arrive while it is raising
        a, b = rng.choice([(3, 1), (1, 3), (2, 1), (1, 2), (3, 2)])
        t1, t2 = rng.choice([(100, 300), (150, 400)])
        count = {"script": [[0, a], [t1, b], [t2, "raise"]]}
        block = False
        jobs = [{"S": rng.choice([t1 + 20, t2 + 10, t2 + 10, t2 + 50]), "D": rng.choice([300, 700]), "K": None,
                 "C": False} for _ in range(rng.choice([3, 4, 5]))]
    if i % 9 == 0:
        # a saturated throttle with several queued submissions, one from the middle of the queue cancelled: the others keep
        # their order
        count, block = 1, False
        m = rng.choice([4, 5, 6])
        jobs = [{"S": 10 * j, "D": 300, "K": None, "C": False} for j in range(m)]
        jobs[rng.randrange(2, m - 1)]["K"] = rng.choice([100, 150])
    if i % 11 == 5:
        # unlimited for a while (work is handed over meanwhile), then a finite count with more queued work than the limit:
        # what was handed over while unlimited still counts as in flight
        t1 = rng.choice([150, 250])
        count, block = {"script": [[0, None], [t1, rng.choice([1, 2])]]}, False
        jobs = [{"S": 0, "D": 700, "K": None, "C": False} for _ in range(rng.choice([1, 2, 3]))]
        jobs += [{"S": t1 + rng.choice([50, 100, 200]), "D": 300, "K": None, "C": False} for _ in range(rng.choice([2, 3]))]
    fl = "manual" if i % 2 == 0 else "pool"
    return {"flavour": fl, "count": count, "block": block, "jobs": jobs,
            "horizon": 36000 if isinstance(count, dict) else 2500, "workers": rng.choice([1, 2, 4])}


def run(ck):
    quick = ck.tier == "quick"
    rng = random.Random(ck.seed)
    # a blocking submit() spins while the shared event stays set; under an unfair schedule that can exhaust the
    # step budget - the judged prefix is still a real execution
    ck.allow_truncation = True
    # 1. TLC: the model of the shipped code satisfies every clause but the recorded finding D6 ...
    ck.mc("Throttle", "Throttle.mc.cfg", timeout=3000)
    ck.mc("Throttle", "Throttle.mc2.cfg", timeout=3000)
    ck.mc("Throttle", "Throttle.mc5.cfg", timeout=3000)      # done-callbacks of the throttled futures that take time
    if not quick:
        # four jobs, one slot, non-blocking: cancels of jobs in the middle of the queue (FIFO among the survivors)
        ck.mc("Throttle", "Throttle.mc3.cfg", timeout=3000)
    for cfg in ("Throttle.dyn.cfg", "Throttle.dyn2.cfg", "Throttle.dyn3.cfg", "Throttle.dyn4.cfg"):   # ... None->1      # count callable: 1->2, 2->raises, 1->None
        ck.mc("Throttle", cfg, timeout=3000)
    # 2. spec -> code replay
    for cfg, cnt, blk, n in (("Throttle.sim.cfg", 1, True, 40 if quick else 400),
                             ("Throttle.sim2.cfg", 2, False, 40 if quick else 400),
                             ("Throttle.simdyn.cfg", {"script": [[0, 1], [150, 2]]}, False, 30 if quick else 300)):
        behs = tlc.simulate_behaviours("Throttle", cfg, n, 120, ck.seed + 1, timeout=900)
        ck.replay_behaviours(behs, converter(cnt, blk), project, TRACE)
    # 3. code -> spec
    tasks = []
    n = 600 if quick else 12000
    for i in range(n):
        p = gen(rng, i)
        strat = ["random", rng.randrange(10 ** 9), 0.6] if i % 4 else ["pct", rng.randrange(10 ** 9), 3, 250]
        tasks.append({"scen": "throttle", "params": p, "strat": strat, "gran": "line" if i % 5 == 0 else "sync",
                      "facts": {"block": p["block"], "count_none": p["count"] is None,
                                "dynamic": isinstance(p["count"], dict)}})
    ck.run_and_validate(tasks, TRACE)
    # directed two-preemption sweeps: a completion / a submission against the hand-over thread's iteration
    from .. import core as _core
    pp = {"flavour": "manual", "count": 1, "block": False,
          "jobs": [{"S": 0, "D": 300, "K": None, "C": False}, {"S": 0, "D": 300, "K": None, "C": False},
                   {"S": 300, "D": 300, "K": None, "C": False}], "horizon": 3000}
    swept = _core.phase_tasks("throttle", pp, [("env1", "ThrottleExecutor-t"), ("ThrottleExecutor-t", "env1"),
                                                ("sub3", "ThrottleExecutor-t"), ("env1", "sub3"), ("sub3", "env1")],
                              range(1, 50, 5 if quick else 1), range(1, 40, 6 if quick else 1),
                              facts={"block": False, "count_none": False, "dynamic": False})
    # three parties: a submitter has looked at the capacity (all slots taken, nothing queued) but not yet queued its
    # job; the running callable finishes; the hand-over thread makes its pass over the still empty queue and goes back to
    # sleep; the submitter goes on - the freed slot must still be used at once
    p3 = {"flavour": "manual", "count": 1, "block": False,
          "jobs": [{"S": 0, "D": 300, "K": None, "C": False}, {"S": 300, "D": 300, "K": None, "C": False}], "horizon": 3000}
    for n in range(1, 60, 2 if quick else 1):
        swept.append({"scen": "throttle", "params": p3,
                      "strat": ["phases", [["sub2", n, 300], ["env1", 10000], ["ThrottleExecutor-t", 10000], ["sub2", 10000]]],
                      "gran": "line", "facts": {"block": False, "count_none": False, "dynamic": False, "directed": True}})
    # the hand-over thread has popped several jobs in one pass (the count was raised) and is still inside the delegate's
    # slow submit() of the first one when another client submits: the newcomer must not overtake the popped ones
    for cnt in (3, None):
        pf = {"flavour": "manual", "count": {"script": [[0, 0], [100, cnt]]}, "block": False,
              "jobs": [{"S": 0, "D": 300, "K": None, "C": False, "SD": 200}, {"S": 10, "D": 300, "K": None, "C": False},
                       {"S": 150, "D": 300, "K": None, "C": False}], "horizon": 36000}
        for k in range(3 if quick else 12):
            swept.append({"scen": "throttle", "params": pf, "strat": ["random", 31 + k, 0.5], "gran": "line" if k % 2 else "sync",
                          "facts": {"block": False, "count_none": False, "dynamic": True, "directed": True}})
    # blocking mode: the count callable changes (to another number, to "no limit") while a submitter is blocked
    for v1 in (None, 2, 3):
        pb = {"flavour": "manual", "count": {"script": [[0, 1], [200, v1]]}, "block": True,
              "jobs": [{"S": 0, "D": 600, "K": None, "C": False}, {"S": 10, "D": 300, "K": None, "C": False},
                       {"S": 50, "D": 300, "K": None, "C": False}, {"S": 250, "D": 300, "K": None, "C": False}], "horizon": 36000}
        for k in range(2 if quick else 10):
            swept.append({"scen": "throttle", "params": pb, "strat": ["random", 41 + k, 0.5], "gran": "line" if k % 2 else "sync",
                          "facts": {"block": True, "count_none": False, "dynamic": True, "directed": True}})
    ck.run_and_validate(swept, TRACE, nontrivial=lambda t, r: True)
    ck.assumptions += [
        "in flight = handed to the delegate and neither finished nor cancelled there (never more than the executor's own count)",
        "virtual time; SLACK = 3 ticks for event hand-offs, 30 s re-check bound for a dynamic count",
    ]
