"""C18 - Faults in user code stay with their own future; worker threads survive."""
import random

from . import c01, c05, c07, c08

TRACE = "FaultObsTrace"
FAULTY = [
    {"t": "map", "fn": "raise"}, {"t": "map", "efn": "raise"}, {"t": "map", "efn": "reraise"},
    {"t": "flat_map", "fn": "raise"}, {"t": "flat_map", "fn": "nonfuture"}, {"t": "flat_map", "efn": "nonfuture"},
    {"t": "retry", "max": 3, "sleep": 100, "policy": "raise_should"}, {"t": "retry", "max": 3, "sleep": 100, "policy": "raise_sleep"},
    {"t": "throttle", "count": 2, "count_fn": True}, {"t": "poll", "mode": "first"}, {"t": "timeout", "T": 100000},
    {"t": "retry", "max": 2, "sleep": 100}, {"t": "throttle", "count": 1}, {"t": "cos"},
]


def gen(rng, i):
    depth = rng.choice([1, 2, 2, 3])
    layers = [dict(rng.choice(FAULTY)) for _ in range(depth)]
    n = rng.choice([1, 2, 3])
    subs = []
    for j in range(n):
        subs.append({"S": rng.choice([0, 0, 10, 60]), "script": rng.choice([["V"], ["E", "V"], ["E", "E", "E"], ["F"], ["E", "F"]]),
                     "dur": rng.choice([0, 30, 100]), "thread": j % rng.choice([1, 2]), "cb": rng.random() < 0.3,
                     "cb_raise": rng.choice([False, False, True, "first", "first"]), "K": rng.sample([0, 30, 100, 130], rng.choice([0, 0, 1]))})
    return {"base": rng.choice(["pool", "pool", "sync"]), "workers": rng.choice([1, 2]), "layers": layers, "subs": subs,
            "probe": rng.choice([700, 900]), "horizon": 25000}


def run(ck):
    quick = ck.tier == "quick"
    rng = random.Random(ck.seed)
    ck.allow_truncation = True   # blocking / spinning paths may exhaust the step budget under unfair schedules
    ck.mc("Retry", "Retry.mc2.cfg", timeout=3000)      # a policy retrying values + cancels: worker survives (D9b repaired)
    ck.mc("Poll", "Poll.mc2.cfg", timeout=3000)        # raising poll function
    # stacks with a fault at every user-code site + probe; judged by FaultObs and by the sequential oracle
    tasks = []
    for i in range(600 if quick else 12000):
        p = gen(rng, i)
        strat = ["random", rng.randrange(10 ** 9), 0.5] if i % 3 else ["pct", rng.randrange(10 ** 9), 3, 300]
        tasks.append({"scen": "stack", "params": p, "strat": strat, "gran": "line" if i % 6 == 0 else "sync",
                      "facts": {"types": sorted(set(l["t"] for l in p["layers"]))}})
    pairs = ck.run_and_validate(tasks, TRACE)
    from .. import tlc
    traces = [r["trace"] for (t, r), v in pairs]
    v2, _ = tlc.validate_traces("StackObsTrace", traces)
    for ((t, r), _), (v, step) in zip(pairs, v2):
        if v != "ok":
            ck._judge(t, r, "C18_OwnFutureOnly/" + v, step, "StackObsTrace")
    # ... and a raising done-callback must not cost any other callback of the same future its run (FutureObs)
    v3, _ = tlc.validate_traces("FutureObsTrace", traces)
    for ((t, r), _), (v, step) in zip(pairs, v3):
        if v != "ok":
            ck._judge(t, r, "C18_OwnFutureOnly/" + v, step, "FutureObsTrace")
    # component families with their own fault scripts, judged by FaultObs as well as by their contracts
    fam = []
    for i in range(150 if quick else 3000):
        p = c08.gen(rng, i)
        p["poll_raise"] = rng.choice([1, 2, 3])
        p["poll_raise_after"] = rng.random() < 0.6
        p["cancel_fn"] = rng.choice(["raise", "raise", "false", None])
        fam.append({"scen": "poll", "params": p, "strat": ["random", rng.randrange(10 ** 9), 0.5],
                    "gran": "line" if i % 5 == 0 else "sync", "facts": {}})
    for i in range(150 if quick else 3000):
        p = c05.gen(rng, i, cancels=True)
        p["policy"] = {"kind": "custom", "decisions": [[rng.choice([1, "raise"]), rng.choice([100, "raise"])], [rng.choice([1, 0, "raise"]), 100], [0, 100]]}
        fam.append({"scen": "retry", "params": p, "strat": ["random", rng.randrange(10 ** 9), 0.5],
                    "gran": "line" if i % 5 == 0 else "sync", "facts": c05.facts_of(p)})
    for i in range(100 if quick else 2000):
        p = c07.gen(rng, i)
        p["count"] = {"script": [[0, 2], [rng.choice([100, 300]), "raise"], [700, rng.choice([1, 2, "raise"])]]}
        p["block"] = False
        fam.append({"scen": "throttle", "params": p, "strat": ["random", rng.randrange(10 ** 9), 0.5],
                    "gran": "sync", "facts": {"block": False}})
    ck.run_and_validate(fam, TRACE)
    by = {"poll": c08.TRACE, "retry": c05.TRACE, "throttle": c07.TRACE}
    for scen, tm in by.items():
        ck.run_and_validate([t for t in fam if t["scen"] == scen][: (60 if quick else 1000)], tm)
    ck.assumptions += ["fault sites: callable, map fn, error fn, flat_map fn, poll fn, cancel fn, should_retry, sleep_time, count callable, done-callback",
                       "liveness probe = a fresh submission after the faults that must finish with its value"]
