"""C13 - map / flat_map laws: fn on success, error_fn on failure, exceptions preserved.

The law table is spec/MapLawsObs.tla (StageEval / ChainEval).  TLC
  1. enumerates the whole case space and checks the table's internal consistency (MapLaws.tla: totality,
     own-case entitlements, identity law, compose law on terms, the ideal execution is accepted),
  2. checks the implementation-shaped model of MapFuture / FlatMapFuture (two-stage delegate, cancel
     forwarding) against the same contract on every interleaving of input completion / inner completion /
     cancel of the output (MapFuture.tla), with the negative controls "as shipped before 0d7ede8" (D12) and a
     seeded bug that must both be rejected,
  3. judges every real execution of a case (mxv/scen/maplaws.py mirrors the enumeration) against the table.
"""
import itertools
import random

from .. import tlc

TRACE = "MapLawsObsTrace"

ABSENT, RET, RAISE, FUT_V, FUT_E, FUT_PV, FUT_PE, FUT_C, NONFUT, RERAISE = range(10)
MAP_FN = [ABSENT, RET, RAISE]
MAP_EFN = [ABSENT, RET, RAISE, RERAISE]
FLAT_FN = [ABSENT, RAISE, FUT_V, FUT_E, FUT_PV, FUT_PE, FUT_C, NONFUT]
FLAT_EFN = [ABSENT, RAISE, RERAISE, FUT_V, FUT_E, FUT_PV, FUT_PE, FUT_C, NONFUT]
STAGES = ([[0, f, e] for f in MAP_FN for e in MAP_EFN] + [[1, f, e] for f in FLAT_FN for e in FLAT_EFN])
PENDING = (FUT_PV, FUT_PE)


def facts_of(p):
    st = p["stages"]
    return {"form": p["form"], "chain": len(st), "cancel": p.get("cancel") is not None,
            "flat_inner_fails_with_efn": any(sg[0] and sg[2] != ABSENT and (sg[1] in (FUT_E, FUT_PE) or
                                                                              sg[2] in (FUT_E, FUT_PE))
                                             for sg in st)}


def task(rng, i, form, inp, timing, stages, cancel=None, compose=False, line=None):
    stages = [list(s) for s in stages]
    p = {"form": form, "inp": inp, "timing": timing, "stages": stages,
         "d_in": rng.choice([0, 100, 100]), "d_inner": rng.choice([0, 0, 50, 100]),
         "early": rng.random() < 0.3, "cancel": cancel, "compose": compose,
         # variants that must be transparent to the laws: the input is an f_proxy of the future (f_ form), the
         # input's exception is an instance of a CancelledError subclass (a failure, not a cancellation)
         "proxy_input": bool(form == 1 and rng.random() < 0.25),
         "orig_cancelled_error": bool(inp == 1 and rng.random() < 0.25),
         "in_except": rng.random() < 0.25,
         "fn_shape": rng.choice([None, None, None, "partial", "object"])}
    # the input fails with an exception deriving from BaseException only; not combined with an error_fn that re-raises
    # it (an exception of that kind raised by USER code is not contained by anybody, the stdlib included) nor with the
    # executor form (where the scripted callable itself would raise it on a worker)
    if (inp == 1 and form == 1 and not p["orig_cancelled_error"] and rng.random() < 0.25
            and all(sg[2] != RERAISE for sg in stages)):
        p["orig_base_exception"] = True
    strat = ["random", rng.randrange(10 ** 9), 0.6] if i % 4 else ["pct", rng.randrange(10 ** 9), 3, 250]
    gran = "line" if (line if line is not None else i % 5 == 0) else "sync"
    return {"scen": "maplaws", "params": p, "strat": strat, "gran": gran, "facts": facts_of(p)}


def has_pending(stages):
    return any(sg[1] in PENDING or sg[2] in PENDING for sg in stages)


def gen_tasks(rng, quick):
    tasks = []
    i = 0
    combos = list(itertools.product((0, 1), (0, 1), (0, 1)))
    # (a) every single-stage case of the enumeration (x schedules in the thorough tier)
    for rep in range(1 if quick else 6):
        for form, inp, timing in combos:
            for sg in STAGES:
                i += 1
                tasks.append(task(rng, i, form, inp, timing, [sg]))
    # (b) chains: the full product of length 2 (thorough) or a sample; a sample of length 3
    if quick:
        chains = [[rng.choice(STAGES) for _ in range(rng.choice([2, 2, 3]))] for _ in range(420)]
    else:
        chains = [list(c) for c in itertools.product(STAGES, STAGES)]
        chains += [[rng.choice(STAGES) for _ in range(3)] for _ in range(12000)]
    for ch in chains:
        i += 1
        form, inp, timing = rng.choice(combos)
        tasks.append(task(rng, i, form, inp, timing, ch))
    # (c) composition: chains without error_fn, all map or all flat_map, run next to their composed form
    comp = []
    for n in (2, 3):
        comp += [list(c) for c in itertools.product([[0, f, ABSENT] for f in MAP_FN], repeat=n)]
        flat = list(itertools.product([[1, f, ABSENT] for f in FLAT_FN], repeat=n))
        comp += [list(c) for c in (flat if (n == 2 or not quick) else rng.sample(flat, 60))]
    for rep in range(1 if quick else 4):
        for ch in comp:
            i += 1
            form, inp, timing = rng.choice(combos)
            if rng.random() < 0.8:
                inp = 0
            tasks.append(task(rng, i, form, inp, timing, ch, compose=True))
    # (d) a cancel of the output racing the input completion / the inner completion
    n = 500 if quick else 30000
    for _ in range(n):
        i += 1
        ln = rng.choice([1, 1, 1, 2, 3])
        ch = [rng.choice(STAGES) for _ in range(ln)]
        if rng.random() < 0.6:      # make a pending inner future likely: that is where stage 2 races live
            k = rng.randrange(ln)
            ch[k] = [1, rng.choice(PENDING), rng.choice(FLAT_EFN)] if rng.random() < 0.6 else \
                    [1, rng.choice(FLAT_FN), rng.choice(PENDING)]
        form, inp, timing = rng.choice(combos)
        if rng.random() < 0.7:
            timing = 1
        t = task(rng, i, form, inp, timing, ch, cancel=rng.choice([0, 0, 50, 100, 100, 150, 200]),
                 line=rng.random() < 0.35)
        tasks.append(t)
    return tasks


def nontrivial(t, r):
    return any(e["ev"] == "FnCall" for e in r["trace"]) or len(set(e["thr"] for e in r["trace"])) > 2


def run(ck):
    quick = ck.tier == "quick"
    rng = random.Random(ck.seed)
    # 1. the case space and the law table (exhaustive; every case is one initial state)
    r = ck.mc("MapLaws", "MapLaws.mc.cfg", timeout=600)
    expect = 2 * 8 * (len(STAGES) + len(STAGES) ** 2)
    if r["distinct"] != expect:
        ck.machinery_errors.append("case enumeration of MapLaws.tla (%d states) and of checks/c13.py (%d) differ"
                                   % (r["distinct"], expect))
    if not quick:
        ck.mc("MapLaws", "MapLaws.mc3.cfg", timeout=1500)
    # 2. the two-stage delegate under all interleavings of completion / inner completion / cancel
    ck.mc("MapFuture", "MapFuture.mc.cfg", timeout=600)
    controls = {}
    for name, cfg, over in (("AsShipped_D12", "MapFuture.d12.cfg", None),
                            ("Bug=swallow_efn_exc", "MapFuture.mc.cfg", {"Bug": '"swallow_efn_exc"'}),
                            ("Bug=drop_result", "MapFuture.mc.cfg", {"Bug": '"drop_result"'})):
        nr = tlc.model_check("MapFuture", cfg, workers=8, timeout=600, constants_override=over)
        clause = None
        if nr["violated"] and nr.get("trace"):
            clause = nr["trace"][-1][1].get("viol", "").strip('"')
        controls[name] = {"rejected_by": nr["violated"], "clause": clause, "distinct": nr["distinct"]}
        if not nr["violated"]:
            ck.machinery_errors.append("negative control %s was not rejected by TLC (MapFuture.tla)" % name)
    ck.notes["negative_controls_model"] = controls
    # 3. code -> spec: real executions of the cases, judged by TLC against the law table
    tasks = gen_tasks(rng, quick)
    ck.notes["cases"] = {"single_stage_cases": 8 * len(STAGES), "executions": len(tasks)}
    ck.notes["rule"] = ("one evaluation = one case of MapLaws.tla executed on the real library under the controlled "
                        "scheduler, validated by TLC against the law table; distinct = distinct (params, projected "
                        "trace) pairs; non-trivial = a user function was called or more than two threads took part")
    # directed (line granularity): the input is completed by another thread at the very instant the chain is being
    # built - the completion lands at every point of the construction (and of the attachment of the second stage)
    swept = []
    for inp in (0, 1):
        for stages in ([[0, RET, ABSENT], [0, RET, ABSENT]], [[1, FUT_V, ABSENT], [0, RET, RET]], [[0, RET, RET]]):
            t = task(rng, 1, 1, inp, 1, stages, line=True)
            t["params"].update(d_in=0, early=True, proxy_input=False, in_except=False, orig_cancelled_error=False,
                               orig_base_exception=False)
            # (building one f_map stage takes about 200 source lines of the library; the second stage attaches itself to
            #  the first one's future around step 400)
            for n in range(150, 460, 3 if quick else 1) if len(stages) > 1 else range(1, 240, 3 if quick else 1):
                for a, b in ((("main", "comp1"),) if len(stages) > 1 else (("main", "comp1"), ("comp1", "main"))):
                    swept.append({"scen": "maplaws", "params": dict(t["params"]),
                                  "strat": ["phases", [[a, n], [b, 10000], [a, 10000]]], "gran": "line",
                                  "facts": dict(facts_of(t["params"]), directed=True)})
    ck.run_and_validate(swept, TRACE, nontrivial=lambda t, r: True)
    ck.run_and_validate(tasks, TRACE, nontrivial=nontrivial)
    ck.assumptions += [
        "user functions are injective taggers and every exception object has its own id, so outcome terms "
        "identify values / exceptions exactly (structural inspection + `is`)",
        "traceback kept = the frame that first raised the exception is still in exc.__traceback__",
        "a future returned to flat_map that is already cancelled: only 'no value invented' is demanded "
        "(the output staying pending is C03's matter); after a successful cancel of the output only a "
        "FINISHED outcome is judged",
        "interleavings at synchronisation operations (sync) or source lines of more_executors (line)",
    ]
