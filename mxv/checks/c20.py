"""C20 - Metrics: gauges return to reality at quiescence, counters match events.

1. TLC: the implementation-shaped model of the metric updates (spec/Metrics.tla, repaired behaviour) satisfies
   GaugeNonNegative, "gauge = what is queued / pending" at every quiescent state and every clause of the
   contract MetricsObs on every history; the as-shipped variant (AsShipped_D7 = TRUE) must be *refuted*
   (negative control: the model sees defect D7).
2. code -> spec: histories over executor stacks (sync / thread pool / manual bases; map, flat_map, retry, poll,
   throttle, timeout, cancel_on_shutdown layers) and combinators (f_zip, f_or, f_and, f_map) mixing completion,
   failure, cancel while queued / between retries / in flight, timeout and shutdown run in the real library on
   top of the stand-in prometheus_client; the registry is snapshotted at quiescent points and TLC judges every
   trace against MetricsObsTrace.

Times are laid out on disjoint residues mod 100 (job j is submitted at a multiple of 100 plus j, durations are
multiples of 100, timeouts 30.., client cancels 50.., combinator calls 20 / 45, shutdowns 60, snapshots 75), so
which ingredient a history contains is (up to poll-driven completions) a function of its parameters, not of the
schedule.  The `facts` of a task are *measured*: every parameter set is
first run once under a reference schedule and the harness' Fact events (a cancel() that returned True on a
retry future between retries / before its first attempt / with an attempt in flight, on a throttled future
still queued) become the task's facts; executions whose own Fact events differ are counted (`fact_drift`).
"""
import random

from .. import core, tlc

TRACE = "MetricsObsTrace"
D7_FACTS = ("cancel_between_retries", "cancel_before_first_attempt", "cancel_in_flight", "throttle_cancel_queued")
LAYERS = ("map", "flat_map", "retry", "poll", "throttle", "timeout", "cos")


def gen_stack(rng, force=None):
    base = rng.choice(["manual", "manual", "pool", "pool", "sync"])
    n = rng.choice([1, 2, 2, 3, 3, 4])
    layers = []
    pool_ = list(LAYERS)
    if force:
        layers.append(force)
    while len(layers) < n:
        t = rng.choice(pool_)
        if t in layers and t not in ("map",):
            continue
        layers.append(t)
    rng.shuffle(layers)
    # (only "map" may repeat: never two CancelOnShutdownExecutors on top of each other - the harness attributes a
    # shutdown-cancel to the executor directly above the future's layer)
    out = []
    for t in layers:
        l = {"t": t}
        if t == "retry":
            l.update(attempts=rng.choice([2, 3]), sleep=500)
        elif t == "poll":
            l.update(interval=300, raise_at=rng.choice([[], [], [3], [2, 6]]))
        elif t == "throttle":
            l.update(count=rng.choice([1, 1, 2]))
        elif t == "timeout":
            l.update(T=rng.choice([430, 830, 830]))
        out.append(l)
    return {"base": base, "workers": rng.choice([1, 2, 2]), "layers": out}


def gen_job(rng, si, stack, quiet, idx):
    base = stack["base"]
    kind = rng.choice(["ok", "ok", "fail", "retry_ok", "retry_ok", "slow", "cancel", "cancel", "cancel_late",
                       "never", "mfail"])
    S = rng.choice([0, 0, 100, 200, 300, 1000]) + idx   # no two jobs are submitted in the same tick
    jb = {"st": si, "S": S, "K": None, "C": rng.random() < 0.6}
    d = rng.choice([200, 300, 300, 600])
    if kind == "ok":
        jb.update(D=[d], script=[["V", 0]])
    elif kind == "fail":
        jb.update(D=[d], script=[["F", "f"]] if rng.random() < 0.5 else [["E", "e"]])
    elif kind == "retry_ok":
        jb.update(D=[d, 200], script=[["E", "e"], ["V", 0]])
    elif kind == "slow":
        jb.update(D=[1200], script=[["V", 0]])
    elif kind == "cancel":          # in flight, or queued behind a throttle / busy pool
        jb.update(D=[600, 600], script=[["E", "e"], ["V", 0]] if rng.random() < 0.4 else [["V", 0]], K=S + 150)
    elif kind == "cancel_late":     # between retries when there is a retry layer (fails at S+300, retried at S+801)
        jb.update(D=[300, 300], script=[["E", "e"], ["V", 0]], K=S + rng.choice([450, 650, 950]))
    elif kind == "never":
        jb.update(D=[0] if base == "manual" else [2500], script=[["V", 0]],
                  K=(S + 250) if rng.random() < 0.3 else None)
    else:
        jb.update(D=[d], script=[["V", 0]], mfail=True)
    if base == "sync":
        jb["D"] = 0
    jb["polls"] = rng.choice([1, 1, 2])
    if quiet:
        # no client cancel at all
        jb["K"] = None
    return jb


def gen(rng, quiet=False, force=None):
    """One parameter set.  quiet: a history that cannot contain a D7 ingredient (no cancel source at all can
    reach a retry or throttle layer: no client cancels, no timeout / cancel_on_shutdown layers above them, no
    combinators that cancel their inputs)."""
    nst = rng.choice([1, 1, 2])
    stacks = [gen_stack(rng, force if i == 0 else None) for i in range(nst)]
    if quiet:
        for st in stacks:
            ts = [l["t"] for l in st["layers"]]
            if "retry" in ts or "throttle" in ts:
                st["layers"] = [l for l in st["layers"] if l["t"] not in ("timeout", "cos")] or [{"t": "map"}]
    njobs = rng.choice([2, 3, 3, 4, 5])
    jobs = []
    for idx in range(njobs):
        si = rng.randrange(nst)
        jobs.append(gen_job(rng, si, stacks[si], quiet, idx))
    combs = []
    if not quiet and njobs >= 2:
        for _ in range(rng.choice([0, 0, 1, 1, 2])):
            op = rng.choice(["zip", "or", "and", "map"])
            ins = rng.sample(range(1, njobs + 1), 1 if op == "map" else rng.choice([2, 2, min(3, njobs)]))
            combs.append({"op": op, "ins": ins, "at": rng.choice([320, 1020, 1120]),
                          "K": rng.choice([None, None, 1345])})
    elif quiet and njobs >= 2 and rng.random() < 0.5:
        # f_map / f_zip of futures never cancel anything unless their output is cancelled
        op = rng.choice(["zip", "map"])
        combs.append({"op": op, "ins": rng.sample(range(1, njobs + 1), 1 if op == "map" else 2), "at": 1120,
                      "K": None})
    snaps = sorted(rng.sample([175, 275, 475, 675, 875, 1175, 1475, 1875, 2475, 3175], rng.choice([2, 3, 4])))
    shutdown = []
    if rng.random() < 0.35:
        shutdown.append({"st": rng.randrange(nst), "at": rng.choice([860, 1660, 2260]), "wait": rng.random() < 0.5})
    return {"stacks": stacks, "jobs": jobs, "comb": combs, "snaps": snaps, "shutdown": shutdown, "horizon": 4000}


def facts_of(trace):
    got = {k: False for k in D7_FACTS}
    for e in trace:
        if e["ev"] == "Fact" and e["s"] in got:
            got[e["s"]] = True
    return got


def describe(p):
    layers = sorted({l["t"] for st in p["stacks"] for l in st["layers"]})
    return {"bases": sorted({st["base"] for st in p["stacks"]}), "layers": layers,
            "combinators": sorted({cb["op"] for cb in p.get("comb", [])}),
            "mid_shutdown": bool(p.get("shutdown"))}


def run(ck):
    quick = ck.tier == "quick"
    rng = random.Random(ck.seed)
    # 1. the modelled design (repaired behaviour) satisfies invariants and contract on every history ...
    ck.mc("Metrics", "Metrics.mc.cfg", timeout=600)
    ck.mc("Metrics", "Metrics.mc2.cfg", timeout=600)
    # the timeout counter along one pass of the timeout thread: exact when only state-changing cancels count; the shipped
    # variant (known finding D18) is the negative control
    ck.mc("TimeoutCount", "TimeoutCount.mc.cfg", timeout=600)
    # ... and the model of the shipped code is refuted (negative control: the model sees D7)
    controls = {}
    paths = [None] if quick else [None, "between", "inflight", "throttle"]
    for path in paths:
        over = {"D7Paths": '{"%s"}' % path} if path else None
        r = tlc.model_check("Metrics", "Metrics.asshipped.cfg", workers=8, timeout=600, constants_override=over)
        controls[path or "all"] = {"violated": r["violated"], "distinct": r["distinct"],
                                   "actions": [a for a, _ in r.get("trace", [])]}
        if not r["violated"]:
            ck.machinery_errors.append("negative control failed: Metrics.asshipped.cfg (AsShipped_D7 = TRUE, paths %s) "
                                       "passes - the model no longer sees defect D7" % (path or "all"))
    ck.notes["asshipped_negative_control"] = controls
    # 2. code -> spec
    nsets = 170 if quick else 2500
    psets = []
    for i in range(nsets):
        force = [None, "retry", "throttle", "poll", "timeout", "cos"][i % 6]
        psets.append(gen(rng, quiet=(i % 3 == 0), force=force))
    # reference run of every parameter set: measures which ingredients the history contains
    probes = [{"scen": "metrics", "params": p, "strat": ["random", 12345, 0.8], "gran": "sync"} for p in psets]
    pres = core.run_tasks(probes)
    tasks = []
    for i, (p, r) in enumerate(zip(psets, pres)):
        if not r["ok"]:
            ck.machinery_errors.append("engine failure in the reference run of a metrics scenario: %s" %
                                       (str(r["failure"])[:1500],))
            continue
        facts = facts_of(r["trace"])
        facts["d7"] = any(facts[k] for k in D7_FACTS)
        facts.update(describe(p))
        variants = [(["random", rng.randrange(10 ** 9), 0.6], "sync"),
                    (["pct", rng.randrange(10 ** 9), 3, 400], "sync"),
                    (["random", rng.randrange(10 ** 9), 0.5], "line")]
        if i % 4 == 0:
            variants.append((["pct", rng.randrange(10 ** 9), 4, 3000], "line"))
        for strat, gran in variants:
            tasks.append({"scen": "metrics", "params": p, "strat": strat, "gran": gran, "facts": dict(facts)})
    # bursts: several submissions in the very same tick (and completions coinciding with submissions) on a throttled
    # pool, no cancels - the interleavings around the gauge updates themselves (transiently negative gauges)
    for i in range(40 if quick else 600):
        n = rng.choice([3, 4])
        t0 = rng.choice([0, 100])
        d = rng.choice([100, 200])
        burst = {"stacks": [{"base": "pool", "workers": 2, "layers": [{"t": "throttle", "count": 1}]}],
                 # each submission coincides with the completion of the previous one: the queue is empty, capacity
                 # has just been freed and the hand-over thread is awake while submit() updates the gauge
                 "jobs": [{"st": 0, "S": t0 + j * d if i % 2 == 0 else t0 + (d if j == n - 1 else 0), "K": None, "C": False,
                           "D": [d], "script": [["V", 0]], "polls": 1} for j in range(n)],
                 "comb": [], "snaps": [t0 + 50, 1500], "shutdown": [], "horizon": 2500}
        facts = {k: False for k in D7_FACTS}
        facts["d7"] = False
        facts.update(describe(burst))
        for strat, gran in ((["random", rng.randrange(10 ** 9), 0.4], "sync"), (["pct", rng.randrange(10 ** 9), 4, 300], "sync"),
                            (["random", rng.randrange(10 ** 9), 0.4], "line")):
            tasks.append({"scen": "metrics", "params": burst, "strat": strat, "gran": gran, "facts": dict(facts)})
    # several executors carrying the same name feed ONE labelled metric: two identical throttled / retrying stacks
    # named alike, work queued in one while the other's worker runs, cancels of the queued work
    for i in range(30 if quick else 400):
        lay = rng.choice([[{"t": "throttle", "count": 1}], [{"t": "throttle", "count": 1}],
                          [{"t": "retry", "attempts": 3, "sleep": 200}], [{"t": "map"}, {"t": "throttle", "count": 2}]])
        twin = {"stacks": [{"base": "pool", "workers": 2, "layers": [dict(l) for l in lay]} for _ in range(2)],
                "share_names": True,
                "jobs": [{"st": j % 2 if j else 0, "S": rng.choice([0, 0, 100]), "K": rng.choice([None, None, 150, 250]),
                          "C": False, "D": [rng.choice([100, 300])], "script": [[rng.choice(["V", "V", "E"]), 0], ["V", 0]],
                          "polls": 1} for j in range(rng.choice([3, 4, 5]))],
                "comb": [], "snaps": [175, 1500], "shutdown": [], "horizon": 2500}
        facts = {k: False for k in D7_FACTS}
        facts["d7"] = False
        facts.update(describe(twin))
        facts["share_names"] = True
        for strat, gran in ((["random", rng.randrange(10 ** 9), 0.5], "sync"), (["random", rng.randrange(10 ** 9), 0.5], "line")):
            tasks.append({"scen": "metrics", "params": twin, "strat": strat, "gran": gran, "facts": dict(facts)})
    # the timeout thread is kept busy by one future's slow, refused cancel while the user cancels another future whose
    # deadline passes meanwhile: only futures a timeout really cancelled are counted
    for i in range(12 if quick else 120):
        tq = {"stacks": [{"base": "manual", "workers": 1, "layers": [{"t": "timeout", "T": 430}]}],
              "jobs": [{"st": 0, "S": 0, "D": [0], "script": [["V", 0]], "C": True, "K": None, "CD": rng.choice([600, 900]), "polls": 1},
                       {"st": 0, "S": rng.choice([100, 200]), "D": [0], "script": [["V", 0]], "C": True,
                        "K": rng.choice([450, 500, 560]), "polls": 1}],
              "comb": [], "snaps": [50, 2000], "shutdown": [], "horizon": 3000}
        facts = {k: False for k in D7_FACTS}
        facts["d7"] = False
        facts.update(describe(tq))
        tasks.append({"scen": "metrics", "params": tq, "strat": ["random", rng.randrange(10 ** 9), 0.5],
                      "gran": "line" if i % 3 == 0 else "sync", "facts": dict(facts)})
    # directed two-preemption sweep (line granularity): a client cancels a job at the instant its back-off ends, while
    # the retry thread is between picking the job and removing it from the queue
    rq = {"stacks": [{"base": "manual", "workers": 1, "layers": [{"t": "retry", "attempts": 3, "sleep": 200}]}],
          "jobs": [{"st": 0, "S": 0, "D": [100], "script": [["E", 0], ["V", 0]], "C": True, "K": 301, "polls": 1}],
          "comb": [], "snaps": [50, 1500], "shutdown": [], "horizon": 2500}
    facts = {k: False for k in D7_FACTS}
    facts["d7"] = False
    facts.update(describe(rq))
    for n in range(1, 80, 2 if quick else 1):
        for a, b in (("RetryExecutor-x2", "can1"), ("can1", "RetryExecutor-x2")):
            tasks.append({"scen": "metrics", "params": rq,
                          "strat": ["phases", [[a, n, 301], [b, 10000], [a, 10000]]], "gran": "line",
                          "facts": dict(facts, directed=True)})
    # a callable shuts its own stack down - from a pool worker, or from the retry executor's own thread over a
    # synchronous base - so that shutdown(wait=True) raises half-way ("cannot join current thread"): the executors are
    # out of use all the same and the in-use gauges say so
    for base in ("pool", "sync"):
        for lay in ([{"t": "retry", "attempts": 2, "sleep": 100}], [{"t": "throttle", "count": 2}], [{"t": "poll", "interval": 300, "raise_at": []}],
                    [{"t": "timeout", "T": 830}], [{"t": "map"}, {"t": "retry", "attempts": 2, "sleep": 100}], [{"t": "cos"}]):
            ss = {"stacks": [{"base": base, "workers": 1, "layers": [dict(l) for l in lay]}],
                  "jobs": [{"st": 0, "S": 100, "K": None, "C": False, "D": [50] if base == "pool" else 0, "script": [["V", 0]],
                            "polls": 1, "self_shutdown": True}],
                  "comb": [], "snaps": [50, 1500], "shutdown": [], "horizon": 2500}
            facts = {k: False for k in D7_FACTS}
            facts["d7"] = False
            facts.update(describe(ss))
            for k in range(2 if quick else 8):
                tasks.append({"scen": "metrics", "params": ss, "strat": ["random", rng.randrange(10 ** 9), 0.5],
                              "gran": "line" if k % 2 else "sync", "facts": dict(facts, directed=True)})
    # two threads shut the same stack down at the same instant (while a submission is in progress): one shutdown
    for base in ("pool", "sync"):
        for lay in ([{"t": "map"}], [{"t": "throttle", "count": 1}], [{"t": "retry", "attempts": 2, "sleep": 100}], [{"t": "cos"}],
                    [{"t": "timeout", "T": 830}, {"t": "map"}]):
            s2 = {"stacks": [{"base": base, "workers": 1, "layers": [dict(l) for l in lay]}],
                  "jobs": [{"st": 0, "S": 99, "K": None, "C": False, "D": [200] if base == "pool" else 0, "script": [["V", 0]], "polls": 1},
                           {"st": 0, "S": 100, "K": None, "C": False, "D": [50] if base == "pool" else 0, "script": [["V", 0]], "polls": 1}],
                  "comb": [], "snaps": [50, 1500], "shutdown": [{"st": 0, "at": 100, "wait": True, "threads": 2}], "horizon": 2500}
            facts = {k: False for k in D7_FACTS}
            facts["d7"] = False
            facts.update(describe(s2))
            for k in range(3 if quick else 12):
                tasks.append({"scen": "metrics", "params": s2, "strat": ["random", rng.randrange(10 ** 9), 0.5],
                              "gran": "line", "facts": dict(facts, directed=True)})
    pairs = ck.run_and_validate(tasks, TRACE)
    # bookkeeping for the evidence: which clause failed for which ingredients; did the facts hold up
    drift = 0
    by_facts = {}
    ing = {k: 0 for k in D7_FACTS}
    for (t, r), (v, step) in pairs:
        got = facts_of(r["trace"])
        if any(got[k] != t["facts"][k] for k in D7_FACTS):
            drift += 1
        for k in D7_FACTS:
            ing[k] += got[k]
        key = "+".join(k for k in D7_FACTS if got[k]) or "none"
        d = by_facts.setdefault(key, {})
        d[v] = d.get(v, 0) + 1
    ck.notes["verdicts_by_measured_ingredients"] = by_facts
    ck.notes["executions_containing"] = ing
    ck.notes["fact_drift"] = drift
    ck.notes["parameter_sets"] = len(psets)
    ck.assumptions += [
        "the library runs on a stand-in prometheus_client (stubs/prometheus_client: Counter/Gauge with labels/inc/dec, "
        "registry dict, lock-free); the real package is not installed",
        "quiescent = the main thread is scheduled only when no other thread can run without the virtual clock "
        "advancing; the registry is read there and at the end after shutting every stack down",
        "retry_queue is accepted anywhere between 'pending retry futures with no attempt in flight' (user guide) and "
        "'pending retry futures' (what the code counts); exec_inprogress follows the user guide (created and "
        "shutdown() not yet called); metric children of executors the library builds for itself (labels "
        "internal / none, f_map's temporary executors) are not judged except for non-negativity",
        "future_time / poll_time / retry_delay (float-valued durations) are outside the statement and not judged",
    ]
