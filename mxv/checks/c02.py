"""C02 - Every returned future obeys the concurrent.futures.Future protocol."""
import random

from . import c05, c08, chain

TRACE = "FutureObsTrace"
ENTRIES = ["sync", "pool", "map", "flat_map", "retry", "poll", "throttle", "timeout", "cos",
           "f_or", "f_and", "f_zip", "f_map", "f_flat_map", "f_nocancel", "f_proxy", "f_timeout", "f_apply",
           "f_sequence", "f_traverse"]


def gen(rng, i):
    entry = ENTRIES[i % len(ENTRIES)]
    at = rng.choice([100, 100, 200])
    around = [0, at - 1, at, at, at + 1, at + 50]
    return {"entry": entry, "how": rng.choice(["value", "value", "exc", "xcancel", "never"]), "at": at,
            "cancellable": rng.random() < 0.6, "cb_raise_first": rng.random() < 0.3,
            "recancel": rng.choice([None, None, None, "input", "own"]),
            "cancels": sorted(rng.sample(around, rng.choice([0, 1, 1, 2]))),
            "cbs": sorted(rng.sample(around, rng.choice([1, 2, 2]))),
            "waits": [[rng.choice([0, at - 1, at, at + 1]), rng.choice(["result", "exception", "wait", "as_completed"])]
                      for _ in range(rng.choice([1, 2]))],
            # clients asking running() / done() / cancelled() around the interesting instants
            "probes": [[rng.choice([0, at - 1, at, at, at + 1]), rng.choice([1, 2, 3]), rng.choice([0, 1, 50])]
                       for _ in range(rng.choice([0, 1, 1, 2]))],
            "horizon": 2000}


def run(ck):
    quick = ck.tier == "quick"
    rng = random.Random(ck.seed)
    ck.mc("FutureImpl", "FutureImpl.mc.cfg", timeout=3000)
    tasks = []
    for i in range(900 if quick else 18000):
        p = gen(rng, i)
        strat = ["random", rng.randrange(10 ** 9), 0.5] if i % 3 else ["pct", rng.randrange(10 ** 9), 3, 150]
        tasks.append({"scen": "futproto", "params": p, "strat": strat, "gran": "line" if i % 4 == 0 else "sync",
                      "facts": {"entry": p["entry"], "how": p["how"], "cancelled_by_user": bool(p["cancels"]),
                                "recancel": p["recancel"]}})
    ck.run_and_validate(tasks, TRACE)
    # directed schedules with two preemptions (line granularity): thread A runs n steps, thread B m steps, then A to
    # its end, then B - for completer / callback adder / canceller pairs; this places B's critical step at every point
    # of A's completion path and vice versa (windows a few source lines wide)
    tasks = []
    entries = ["map", "flat_map", "retry", "poll", "throttle", "timeout", "f_map", "f_zip", "f_or", "f_nocancel"]
    pairs = [("env1", "add0"), ("add0", "env1"), ("env1", "can0"), ("can0", "env1"), ("can0", "add0")]
    ns = range(2, 46, 3 if quick else 1)
    ms = range(3, 13, 3 if quick else 1)
    for e in entries:
        for a, b in pairs:
            for n in ns:
                for m in ms:
                    p = {"entry": e, "how": "value", "at": 100, "cancellable": True,
                         "cancels": [100] if "can0" in (a, b) else [], "cbs": [100], "waits": [[0, "result"]],
                         "horizon": 800}
                    tasks.append({"scen": "futproto", "params": p, "strat": ["phases", [[a, n], [b, m], [a, 10000]]],
                                  "gran": "line", "facts": {"entry": e, "how": "value", "directed": True}})
    # three parties on a polled future: its delegate has completed, the poll thread holds its descriptor and is about
    # to yield for it, a client cancels it and is somewhere in the delivery of the done-callbacks
    pp = {"entry": "poll", "how": "value", "at": 100, "cancels": [100], "cbs": [0, 0], "waits": [], "horizon": 1000}
    for k in range(1, 62, 15 if quick else 1):
        for n in range(1, 45, 1 if quick else 1):
            tasks.append({"scen": "futproto", "params": pp,
                          "strat": ["phases", [["env1", 10000], ["PollExecutor-default", k], ["can0", n],
                                               ["PollExecutor-default", 10000], ["can0", 10000]]],
                          "gran": "line", "facts": {"entry": "poll", "how": "value", "directed": True}})
    ck.run_and_validate(tasks, TRACE, nontrivial=lambda t, r: True)
    # chains of derived futures (spec/FutureChain.tla): model checked, TLC behaviours replayed in real map-executor
    # stacks at the granularity of the futures' locks, random executions judged by ChainObs (= FutureObs per layer + chain)
    chain.run(ck, quick, rng)
    if not quick:
        # the repository's own test suite (real threads, real time) recorded through class-level wrappers and validated
        # by TLC against spec/ApiObs.tla (order-only clauses)
        from .. import suitecheck
        suitecheck.run(ck, ("C02_",))
    ck.assumptions += ["one future per execution, 20 entry points, clients: <=2 cancellers, <=2 callback adders, <=2 waiters"]
