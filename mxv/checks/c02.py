"""C02 - Every returned future obeys the concurrent.futures.Future protocol."""
import random

from . import c05, c08

TRACE = "FutureObsTrace"
ENTRIES = ["sync", "pool", "map", "flat_map", "retry", "poll", "throttle", "timeout", "cos",
           "f_or", "f_and", "f_zip", "f_map", "f_flat_map", "f_nocancel", "f_proxy", "f_timeout", "f_apply",
           "f_sequence", "f_traverse"]


def gen(rng, i):
    entry = ENTRIES[i % len(ENTRIES)]
    at = rng.choice([100, 100, 200])
    around = [0, at - 1, at, at, at + 1, at + 50]
    return {"entry": entry, "how": rng.choice(["value", "value", "exc", "xcancel", "never"]), "at": at,
            "cancellable": rng.random() < 0.6,
            "cancels": sorted(rng.sample(around, rng.choice([0, 1, 1, 2]))),
            "cbs": sorted(rng.sample(around, rng.choice([1, 2, 2]))),
            "waits": [[rng.choice([0, at - 1, at, at + 1]), rng.choice(["result", "exception", "wait", "as_completed"])]
                      for _ in range(rng.choice([1, 2]))],
            "horizon": 2000}


def run(ck):
    quick = ck.tier == "quick"
    rng = random.Random(ck.seed)
    ck.mc("FutureImpl", "FutureImpl.mc.cfg", timeout=3000)
    tasks = []
    for i in range(900 if quick else 18000):
        p = gen(rng, i)
        strat = ["random", rng.randrange(10 ** 9), 0.5] if i % 3 else ["pct", rng.randrange(10 ** 9), 3, 150]
        tasks.append({"scen": "futproto", "params": p, "strat": strat, "gran": "line" if i % 4 == 0 else "sync",
                      "facts": {"entry": p["entry"], "how": p["how"], "cancelled_by_user": bool(p["cancels"])}})
    ck.run_and_validate(tasks, TRACE)
    ck.assumptions += ["one future per execution, 20 entry points, clients: <=2 cancellers, <=2 callback adders, <=2 waiters"]
