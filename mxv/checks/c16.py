"""C16 - f_apply calls the function once, with every argument in its place.

  1. TLC: Apply.tla (transcription of _wrap_args / _wrapped_f_apply / fn_runner) - curried == direct for all
     arities 0..4 x 0..2, and the modelled futures satisfy every clause of ApplyObs for every set of failing
     inputs and EVERY completion order; the seeded bug args.append(x) must be rejected.
  2. real executions of f_apply with a recording non-commutative function: arities x completion orders
     (permutations as virtual times, several completer threads, pre-resolved inputs) x failing positions x
     fn failing, under random / PCT schedules at sync and line granularity, judged by TLC (ApplyObsTrace).
"""
import itertools
import random

from .. import tlc

TRACE = "ApplyObsTrace"
TRICKY = ["x", "fn", "key", "args", "kwargs", "self", "future_x", "out", "f", "timeout"]


def mk(rng, i, npos, nkw, order=None, fails=(), fn_fails=False, line=None):
    n = npos + nkw
    if order is None:
        order = list(range(n + 1))
        rng.shuffle(order)
    mode = rng.choice(["distinct", "distinct", "ties", "pre"])
    times = [0] * (n + 1)
    for rank, inp in enumerate(order):
        if mode == "distinct":
            times[inp] = 100 * (rank + 1)
        elif mode == "ties":            # groups resolve at the same instant on different threads: real races
            times[inp] = 100 * (rank // 2 + 1)
        else:                           # a prefix of the order is already resolved when f_apply is called
            times[inp] = 0 if rank < rng.randint(0, n + 1) else 100 * (rank + 1)
    nthreads = rng.choice([1, 2, 3, 4])
    threads = [rng.randint(1, nthreads) for _ in range(n + 1)]
    if mode == "ties":
        threads = [1 + (k % max(nthreads, 2)) for k in range(n + 1)]
    kwnames = None
    if nkw and rng.random() < 0.4:
        kwnames = rng.sample(TRICKY, nkw)
    # some inputs are handed over as f_proxy() wrappers of the real futures (transparent for the property)
    proxy = sorted(j for j in range(npos + nkw + 1) if rng.random() < 0.2)
    p = {"npos": npos, "nkw": nkw, "times": times, "threads": threads, "fails": sorted(fails),
         "fn_fails": fn_fails, "kwnames": kwnames, "proxy": proxy,
         "base_exc": bool(fails) and not proxy and rng.random() < 0.3,
         "rendezvous": bool(not fails and not fn_fails and max(times) > 0 and rng.random() < 0.3)}
    if n and rng.random() < 0.15:
        # an argument whose VALUE is a future (resolved, failed or pending): handed to the function as it is
        cand = [j for j in range(1, n + 1) if j not in proxy and j not in fails]
        if cand:
            p["futvals"] = {str(j): rng.choice(["done", "failed", "pending"])
                            for j in rng.sample(cand, rng.randint(1, min(2, len(cand))))}
    strat = ["random", rng.randrange(10 ** 9), 0.6] if i % 4 else ["pct", rng.randrange(10 ** 9), 3, 250]
    gran = "line" if (line if line is not None else i % 5 == 0) else "sync"
    return {"scen": "apply", "params": p, "strat": strat, "gran": gran,
            "facts": {"npos": npos, "nkw": nkw, "fails": len(fails), "fn_fails": fn_fails, "mode": mode}}


def gen_tasks(rng, quick):
    tasks = []
    i = 0
    for npos in range(5):
        for nkw in range(3):
            n = npos + nkw
            perms = list(itertools.permutations(range(n + 1)))
            if quick:
                orders = perms if len(perms) <= 120 else rng.sample(perms, 60)
            else:
                orders = (perms if len(perms) <= 720 else rng.sample(perms, 1500)) * 3
            # all inputs succeed: exhaustive / sampled completion orders
            for o in orders:
                i += 1
                tasks.append(mk(rng, i, npos, nkw, list(o)))
            # a failing input at every position (and pairs), fn itself failing
            for pos in range(n + 1):
                for rep in range(4 if quick else 12):
                    i += 1
                    tasks.append(mk(rng, i, npos, nkw, fails=[pos]))
            for rep in range(6 if quick else 30):
                i += 1
                tasks.append(mk(rng, i, npos, nkw, fails=rng.sample(range(n + 1), min(2, n + 1))))
            for rep in range(6 if quick else 30):
                i += 1
                tasks.append(mk(rng, i, npos, nkw, fn_fails=True))
    return tasks


def run(ck):
    quick = ck.tier == "quick"
    rng = random.Random(ck.seed)
    ck.mc("Apply", "Apply.mc.cfg", timeout=600)
    nr = tlc.model_check("Apply", "Apply.bug.cfg", workers=8, timeout=600)
    clause = nr["trace"][-1][1].get("viol", "").strip('"') if nr.get("trace") else None
    ck.notes["negative_controls_model"] = {"Bug=append": {"rejected_by": nr["violated"], "clause": clause}}
    if not nr["violated"]:
        ck.machinery_errors.append("negative control Bug=append was not rejected by TLC (Apply.tla)")
    tasks = gen_tasks(rng, quick)
    ck.notes["cases"] = {"arities": 15, "executions": len(tasks)}
    ck.notes["rule"] = ("one evaluation = one real f_apply call under the controlled scheduler, validated by TLC "
                        "against ApplyObs; distinct = distinct (params, projected trace) pairs; non-trivial = the "
                        "function was called or at least one completer thread took part")
    ck.run_and_validate(tasks, TRACE, nontrivial=lambda t, r: any(e["ev"] in ("FnCalled", "InputSet")
                                                                  for e in r["trace"]))
    ck.assumptions += [
        "values / exceptions are identified by object identity; the recording function returns a record of the "
        "arguments exactly as received, so order and names are observable in the output",
        "InputSet is recorded just before the input future is resolved; 'after all inputs' = after all InputSet events",
        "keyword names that collide with f_apply's own parameter name (future_fn) are outside the explored space",
    ]
