"""C08 - Poll: one poll at a time, exact descriptor set, first yield wins, prompt polls."""
import random

from .. import tlc

TRACE = "PollObsTrace"
NAMES = {"sub": "sub%d", "env": "env%d", "can": "can%d", "notif": "notif0", "loop": "PollExecutor-q", "obs": "main"}


def converter(cancel_fn, poll_raise, poll_dur=0):
    def convert(beh):
        st0 = beh[0][1]
        S, Y, K = tlc.nums(st0["cfgS"]), tlc.nums(st0["cfgY"]), tlc.nums(st0["cfgK"])
        F = tlc.bools(st0["cfgFail"])
        jobs = [{"S": S[i], "D": 200, "fail": F[i], "y": Y[i], "K": K[i] if K[i] < 90000 else None, "C": True}
                for i in range(len(S))]
        p = {"flavour": "manual", "jobs": jobs, "cancel_fn": cancel_fn, "poll_raise": poll_raise, "poll_dur": poll_dur,
             "notify": [260], "interval": 500, "horizon": 1800, "visible": True}
        return ({"scen": "poll", "params": p, "strat": ["replay", tlc.schedule_of(beh, NAMES), ["sticky"], True],
                 "gran": "sync", "facts": {"replay": True}}, tlc.hist(beh[-1][1]["hist"]))
    return convert


KEEP = ("SubmitCall", "SubmitRet", "InvokeEnd", "DelegateDone", "PollCall", "Yield", "YieldRet", "PollRet", "NotifyCall",
        "CancelCall", "CancelRet", "CancelFnCall", "CancelFnRet", "End")


def project(trace):
    out = []
    for e in trace:
        if e["ev"] in KEEP:
            out.append([e["ev"], e["f"], e["t"]])
        elif e["ev"] == "Observed" and e["s"] in ("FINISHED", "CANCELLED_AND_NOTIFIED"):
            out.append([e["ev"], e["f"], e["t"]])
    return out



def gen(rng, i):
    n = rng.choice([1, 2, 3, 3, 4])
    jobs = []
    for _ in range(n):
        jobs.append({"S": rng.choice([0, 0, 100, 300]), "D": rng.choice([100, 200, 200, 450]),
                     "fail": rng.random() < 0.15, "y": rng.choice([1, 1, 2, 2, 3, 0]), "yexc": rng.random() < 0.25,
                     "K": rng.choice([None, None, None, 150, 200, 250, 700]), "C": rng.random() < 0.5})
    none_job = None
    ok = [j + 1 for j, jb in enumerate(jobs) if not jb["fail"]]
    if ok and rng.random() < 0.25:
        none_job = rng.choice(ok)       # this delegate callable returns None
    return {"flavour": "manual" if i % 2 == 0 else "pool", "jobs": jobs, "none_job": none_job,
            "cancel_fn": rng.choice([None, None, "true", "false", "raise"]),
            "poll_raise": rng.choice([0, 0, 0, 1, 2, 3]), "poll_raise_after": rng.random() < 0.5,
            "poll_dur": rng.choice([0, 0, 0, 40]), "poll_mutates": rng.random() < 0.3,
            "cancel_dur": rng.choice([0, 0, 0, 120, 300]),
            "notify": rng.sample([120, 260, 410, 900], rng.choice([0, 0, 1, 2])),
            "interval": rng.choice([500, 500, 800]), "horizon": 4000, "workers": rng.choice([1, 2, 3])}


def run(ck):
    quick = ck.tier == "quick"
    rng = random.Random(ck.seed)
    ck.mc("Poll", "Poll.mc.cfg", timeout=3000)
    ck.mc("Poll", "Poll.mc2.cfg", timeout=3000)
    ck.mc("Poll", "Poll.mc3.cfg", timeout=3000)     # a poll function that takes time and raises: registrations during the call
    for cfg, cf, pr, pd in (("Poll.sim.cfg", "false", 0, 0), ("Poll.sim2.cfg", "true", 2, 0), ("Poll.sim3.cfg", "false", 2, 50)):
        behs = tlc.simulate_behaviours("Poll", cfg, 30 if quick else 300, 150, ck.seed + 3, timeout=900)
        ck.replay_behaviours(behs, converter(cf, pr, pd), project, TRACE)
    tasks = []
    for i in range(700 if quick else 14000):
        p = gen(rng, i)
        strat = ["random", rng.randrange(10 ** 9), 0.6] if i % 4 else ["pct", rng.randrange(10 ** 9), 3, 300]
        tasks.append({"scen": "poll", "params": p, "strat": strat, "gran": "line" if i % 5 == 0 else "sync",
                      "facts": {"cancel_fn": p["cancel_fn"], "poll_raise": p["poll_raise"]}})
    # a delegate completes WHILE a poll call that is going to raise is in progress (the call takes virtual time): the
    # raise must fail exactly the futures that call was shown
    for i in range(40 if quick else 400):
        n = rng.choice([2, 3])
        jobs = [{"S": 0, "D": 100, "fail": False, "y": rng.choice([0, 2]), "yexc": False, "K": None, "C": True}]
        for _ in range(n - 1):
            jobs.append({"S": rng.choice([0, 50]), "D": rng.choice([110, 120, 130]), "fail": False, "y": rng.choice([1, 2]),
                         "yexc": False, "K": None, "C": True})
        p = {"flavour": "manual", "jobs": jobs, "cancel_fn": None, "poll_raise": 2, "poll_raise_after": rng.random() < 0.5,
             "poll_dur": 40, "notify": [], "interval": 500, "horizon": 3000}
        tasks.append({"scen": "poll", "params": p, "strat": ["random", rng.randrange(10 ** 9), 0.5],
                      "gran": "line" if i % 4 == 0 else "sync", "facts": {"cancel_fn": None, "poll_raise": 2}})
    # a client's cancel function takes its time for ONE polled future; meanwhile another future becomes eligible and
    # notify() is called: neither waits for the cancel function (which concerns neither)
    for cfn in ("false", "true", "raise"):
        for fl in ("manual", "pool"):
            pc = {"flavour": fl, "jobs": [{"S": 0, "D": 100, "fail": False, "y": 0, "yexc": False, "K": 250, "C": True},
                                          {"S": 0, "D": 300, "fail": False, "y": 1, "yexc": False, "K": None, "C": True}],
                  "none_job": None, "cancel_fn": cfn, "cancel_dur": 300, "poll_raise": 0, "poll_raise_after": False, "poll_dur": 0,
                  "poll_mutates": False, "notify": [400], "interval": 800, "horizon": 4000, "workers": 2}
            for k in range(2 if quick else 8):
                tasks.append({"scen": "poll", "params": pc, "strat": ["random", rng.randrange(10 ** 9), 0.5],
                              "gran": "line" if k % 2 else "sync", "facts": {"directed": True}})
    ck.run_and_validate(tasks, TRACE)
    # directed two-preemption sweeps (line granularity) around registration, the descriptor snapshot and cancel
    from .. import core as _core
    pp = {"flavour": "manual", "jobs": [{"S": 0, "D": 200, "fail": False, "y": 2, "K": 200, "C": True},
                                        {"S": 100, "D": 100, "fail": False, "y": 1, "K": None, "C": True}],
          "cancel_fn": "false", "poll_raise": 0, "poll_dur": 0, "notify": [200], "interval": 500, "horizon": 2500}
    swept = _core.phase_tasks("poll", pp, [("env1", "can1"), ("can1", "env1"), ("PollExecutor-q", "can1"),
                                            ("can1", "PollExecutor-q"), ("env1", "PollExecutor-q"), ("PollExecutor-q", "env1"),
                                            ("env2", "PollExecutor-q"), ("notif0", "PollExecutor-q")],
                              range(2, 60, 5 if quick else 1), range(2, 40, 6 if quick else 1), facts={"cancel_fn": "false"})
    # the same at the granularity of single bytecodes (a registration landing inside a deregistration's rebuild of the
    # descriptor list): one future is being cancelled / resolved while another one's delegate completes
    pq = {"flavour": "manual", "jobs": [{"S": 0, "D": 100, "fail": False, "y": 0, "K": 300, "C": True},
                                        {"S": 0, "D": 300, "fail": False, "y": 1, "K": None, "C": True}],
          "cancel_fn": None, "poll_raise": 0, "poll_dur": 0, "notify": [], "interval": 500, "horizon": 2500}
    swept += _core.phase_tasks("poll", pq, [("can1", "env2")], range(1, 150, 1 if quick else 1), [10000], gran="instr",
                               facts={"cancel_fn": None})
    pr = {"flavour": "manual", "jobs": [{"S": 0, "D": 100, "fail": False, "y": 2, "K": None, "C": True},
                                        {"S": 0, "D": 601, "fail": False, "y": 1, "K": None, "C": True}],
          "cancel_fn": None, "poll_raise": 0, "poll_dur": 0, "notify": [], "interval": 500, "horizon": 2500}
    swept += _core.phase_tasks("poll", pr, [("PollExecutor-q", "env2")], range(1, 260, 2 if quick else 1), [10000],
                               gran="instr", facts={"cancel_fn": None}, prefix=[["env1", 10000]])
    # a vetoing cancel function: one future is resolved by a yield (its descriptor leaves the list) while another
    # thread's cancel() of a LATER registered future is looking its own descriptor up - bytecode granularity
    pv = {"flavour": "manual", "jobs": [{"S": 0, "D": 100, "fail": False, "y": 3, "K": None, "C": True},
                                        {"S": 0, "D": 110, "fail": False, "y": 0, "K": 120, "C": True}],
          "cancel_fn": "false", "poll_raise": 0, "poll_dur": 0, "notify": [120], "interval": 500, "horizon": 2500}
    for n in range(1, 130, 2 if quick else 1):
        swept.append({"scen": "poll", "params": pv,
                      "strat": ["phases", [["notif0", 10000, 120], ["can2", n], ["PollExecutor-q", 10000], ["can2", 10000]]],
                      "gran": "instr", "facts": {"cancel_fn": "false", "directed": True}})
    ck.run_and_validate(swept, TRACE, nontrivial=lambda t, r: True)
    ck.assumptions += [
        "'must be shown' is demanded of futures whose delegate completion (incl. callbacks) preceded the previous poll call's return; promptness covers the rest",
        "virtual time; SLACK = 3 ticks",
    ]
