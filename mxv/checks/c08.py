"""C08 - Poll: one poll at a time, exact descriptor set, first yield wins, prompt polls."""
import random

TRACE = "PollObsTrace"


def gen(rng, i):
    n = rng.choice([1, 2, 3, 3, 4])
    jobs = []
    for _ in range(n):
        jobs.append({"S": rng.choice([0, 0, 100, 300]), "D": rng.choice([100, 200, 200, 450]),
                     "fail": rng.random() < 0.15, "y": rng.choice([1, 1, 2, 2, 3, 0]), "yexc": rng.random() < 0.25,
                     "K": rng.choice([None, None, None, 150, 200, 250, 700]), "C": rng.random() < 0.5})
    return {"flavour": "manual" if i % 2 == 0 else "pool", "jobs": jobs,
            "cancel_fn": rng.choice([None, None, "true", "false", "raise"]),
            "poll_raise": rng.choice([0, 0, 0, 2, 3]), "poll_dur": rng.choice([0, 0, 0, 40]),
            "notify": rng.sample([120, 260, 410, 900], rng.choice([0, 0, 1, 2])),
            "interval": rng.choice([500, 500, 800]), "horizon": 4000, "workers": rng.choice([1, 2, 3])}


def run(ck):
    quick = ck.tier == "quick"
    rng = random.Random(ck.seed)
    ck.mc("Poll", "Poll.mc.cfg", timeout=3000)
    ck.mc("Poll", "Poll.mc2.cfg", timeout=3000)
    tasks = []
    for i in range(700 if quick else 14000):
        p = gen(rng, i)
        strat = ["random", rng.randrange(10 ** 9), 0.6] if i % 4 else ["pct", rng.randrange(10 ** 9), 3, 300]
        tasks.append({"scen": "poll", "params": p, "strat": strat, "gran": "line" if i % 5 == 0 else "sync",
                      "facts": {"cancel_fn": p["cancel_fn"], "poll_raise": p["poll_raise"]}})
    ck.run_and_validate(tasks, TRACE)
    ck.assumptions += [
        "'must be shown' is demanded of futures whose delegate completion (incl. callbacks) preceded the previous poll call's return; promptness covers the rest",
        "virtual time; SLACK = 3 ticks",
    ]
