"""C14 - f_and / f_or are `and` / `or` folds over the order in which inputs finish."""
import json
import os
import random

from .. import core, tlc
from ..scen.combinators import TRUTHY, FALSY_FRESH, FALSY_SINGLE

TRACE = "CombinatorObsTrace"
NAMES = {"comp": "comp%d", "can": "can%d", "main": "main", "obs": "main"}


def gen_inputs(rng, n, kinds, shield_p=0.15, pre_p=0.15):
    """n input descriptions: kinds drawn from `kinds`; value types vary; a singleton falsy value (0, None,
    False, "", ()) is used at most once per scenario so that object identity still tells inputs apart."""
    singles = list(FALSY_SINGLE)
    rng.shuffle(singles)
    out = []
    for _ in range(n):
        kind = rng.choice(kinds)
        d = {"kind": kind, "at": rng.choice([100, 100, 100, 100, 200, 300])}
        if kind == 1:
            d["vt"] = rng.choice(TRUTHY)
        elif kind == 2:
            d["vt"] = singles.pop() if (singles and rng.random() < 0.3) else rng.choice(FALSY_FRESH)
        if kind == 3 and rng.random() < 0.3:
            d["et"] = rng.choice(["cancelled_error", "base"])
        if kind != 4 and rng.random() < 0.2:
            d["run"] = True
        if kind != 4 and rng.random() < shield_p:
            d["shield"] = True      # (a cancelled future behind f_nocancel never resolves the wrapper: D3 / C03)
        if kind and rng.random() < pre_p:
            d["pre"] = True
        out.append(d)
    return out


def gen_pos(rng, n, dup_p=0.25):
    pos = list(range(1, n + 1))
    if n and rng.random() < dup_p:
        pos.insert(rng.randrange(len(pos) + 1), rng.choice(pos))
        if rng.random() < 0.2:
            pos.insert(rng.randrange(len(pos) + 1), rng.choice(pos))
    return pos


def gen(rng):
    op = rng.choice(["or", "and"])
    n = rng.choice([1, 2, 2, 3, 3, 3, 4])
    kinds = rng.choice([[0, 1, 2, 3, 4], [1, 2], [1, 1, 2, 3, 4], [2, 2, 1, 3, 4], [1, 2, 0]])
    inputs = gen_inputs(rng, n, kinds)
    p = {"op": op, "inputs": inputs, "pos": gen_pos(rng, n), "early": rng.random() < 0.3,
         "cancel_at": rng.choice([None, None, None, None, 50, 100, 100, 150, 250, 400]),
         "wait": [50, 500] if rng.random() < 0.15 else None, "horizon": 1000}
    npos = len(p["pos"])
    if npos >= 2 and rng.random() < 0.25:
        inner = sorted(rng.sample(range(1, npos + 1), rng.randint(1, npos)))
        p["nest"] = {"inner": inner, "skip": [q for q in inner if rng.random() < 0.5]}
    if rng.random() < 0.2:
        p["out_cb"] = rng.choice(p["pos"])
    return p


def facts(p):
    used = set(p["pos"])
    ins = [d for i, d in enumerate(p["inputs"]) if i + 1 in used]
    twice = set(i for i in used if p["pos"].count(i) > 1)
    return {"op": p["op"], "input_cancel": any(d["kind"] == 4 for d in ins),
            "dup": bool(twice), "output_cancel": p.get("cancel_at") is not None,
            "shield": any(d.get("shield") for d in ins),
            # a repeated input that is a (possibly already finished) future of the library's own class
            "dup_done_wrapped": any(p["inputs"][i - 1].get("shield") and p["inputs"][i - 1].get("kind") for i in twice)}


def make_tasks(rng, n, gen_fn):
    tasks = []
    for i in range(n):
        p = gen_fn(rng)
        strat = ["random", rng.randrange(10 ** 9), 0.6] if i % 4 else ["pct", rng.randrange(10 ** 9), 3, 250]
        tasks.append({"scen": "combinators", "params": p, "strat": strat, "gran": "line" if i % 3 == 0 else "sync",
                      "facts": facts(p)})
    return tasks


HIST_EVENTS = ("CombCall", "CombRet", "CombRaise", "InputSetCall", "InputSetRet", "CancelArrived", "CancelCall",
               "CancelRet", "End")


def converter(op, out_cb=None):
    """TLC behaviour of BoolOp.tla / Zip.tla (Coarse = TRUE) -> (task, expected event history)."""
    def convert(beh):
        st0 = beh[0][1]
        K = tlc.nums(st0["cfgK"])
        S = tlc.bools(st0["cfgS"]) if "cfgS" in st0 else [False] * len(K)
        P = tlc.nums(st0["cfgP"])
        U = tlc.bools(st0["cfgU"])[0]
        inputs = [{"kind": K[i], "at": 0, "shield": S[i]} for i in range(len(K))]
        p = {"op": op, "inputs": inputs, "pos": P, "early": True, "cancel_at": 0 if U else None, "horizon": 100,
             "visible": True}
        if out_cb:
            p["out_cb"] = out_cb
        task = {"scen": "combinators", "params": p,
                "strat": ["replay", tlc.schedule_of(beh, NAMES), ["sticky"], True], "gran": "sync",
                "facts": facts(p)}
        exp = [[ev, f, 0] for ev, f, _t in tlc.hist(beh[-1][1]["hist"]) if ev in HIST_EVENTS]
        return task, exp
    return convert


def project(trace):
    out = []
    for e in trace:
        ev = e["ev"]
        if ev == "CancelArrived":
            if e["s"] == "input":
                out.append([ev, e["f"], 0])
        elif ev in HIST_EVENTS:
            out.append([ev, e["f"], 0])
    return out


def extra_findings():
    """Candidate findings of the combinators that are not (yet) in known_findings.json."""
    path = os.path.join(core.ROOT, "known_findings.d", "combinators.json")
    if not os.path.exists(path):
        return []
    return json.load(open(path)).get("findings", [])


def require_complete(ck, pairs):
    """Every execution must have reached its End event with all threads intact - otherwise the clauses that
    hang on End were never evaluated and 'ok' would be vacuous: that is a machinery error, not a pass."""
    for (t, r), _v in pairs:
        if r.get("outcome") != "finished" or r.get("thread_excs") or not any(e["ev"] == "End" for e in r["trace"]):
            ck.machinery_errors.append("execution did not run to its End event: outcome=%s thread_excs=%s params=%s" % (
                r.get("outcome"), r.get("thread_excs"), json.dumps(t["params"])[:300]))
            return


def run(ck):
    quick = ck.tier == "quick"
    rng = random.Random(ck.seed)
    ck.findings = ck.findings + extra_findings()
    # 1. the modelled design (BoolOperation.handle_done: decision under the lock, output write / loser
    #    cancellation outside it, chain_cancel) satisfies every C14 clause on every interleaving
    ck.mc("BoolOp", "BoolOp.mc.cfg", timeout=600)      # f_or, one action per micro-operation
    ck.mc("BoolOp", "BoolOp.mc2.cfg", timeout=600)     # f_and, repeated inputs, f_nocancel, output cancel
    ck.mc("BoolOp", "BoolOp.mc9.cfg", timeout=600)     # a client callback on the output that cancels an input (re-entry)
    if not quick:
        for c in ("BoolOp.mc3.cfg", "BoolOp.mc4.cfg", "BoolOp.mc5.cfg", "BoolOp.mc6.cfg", "BoolOp.mc7.cfg"):
            ck.mc("BoolOp", c, timeout=1500)
    # 2. spec -> code: coarse-grained TLC behaviours replayed in the real f_or / f_and
    for cfg, op in (("BoolOp.sim.cfg", "or"), ("BoolOp.sim2.cfg", "and")):
        behs = tlc.simulate_behaviours("BoolOp", cfg, 40 if quick else 400, 60, ck.seed + 1, timeout=900)
        ck.replay_behaviours(behs, converter(op), project, TRACE)
    behs = tlc.simulate_behaviours("BoolOp", "BoolOp.sim3.cfg", 40 if quick else 400, 60, ck.seed + 2, timeout=900)
    ck.replay_behaviours(behs, converter("or", out_cb=1), project, TRACE)
    # 3. code -> spec: real executions of f_or / f_and with concurrent completers, judged by TLC
    tasks = make_tasks(rng, 450 if quick else 10000, gen)
    require_complete(ck, ck.run_and_validate(tasks, TRACE))
    # directed two-preemption sweeps: two completers finishing at the same instant, and a completer racing a cancel
    # of the output (line granularity)
    from .. import core as _core
    swept = []
    for op in ['or', 'and']:
        for kinds in ((1, 2), (2, 1), (3, 1), (1, 1)):
            params = {"op": op, "inputs": [{"kind": kinds[0], "at": 100}, {"kind": kinds[1], "at": 100}], "cancel_at": 100,
                      "horizon": 800}
            swept += _core.phase_tasks("combinators", params,
                                       [("comp1", "comp2"), ("comp2", "comp1"), ("comp1", "can1"), ("can1", "comp2")],
                                       range(2, 40, 4 if quick else 1), range(2, 26, 5 if quick else 1),
                                       facts={"op": op})
    ck.run_and_validate(swept, TRACE, nontrivial=lambda t, r: True)
    ck.assumptions += [
        "a completion linearises between its InputSetCall and InputSetRet, and for the combinator not before "
        "the combinator was called (already-done inputs count as concurrent with each other)",
        "a client's cancel() of the output that returns True overrides the fold; CANCELLED and "
        "CANCELLED_AND_NOTIFIED both count as cancelled (waiter release is C02 / D4)",
        "losers = inputs whose own completion had not begun when the deciding call returned",
        "interleavings at synchronisation operations (sync) or source lines of more_executors (line)",
    ]
