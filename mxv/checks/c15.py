"""C15 - f_zip / f_sequence / f_traverse keep positions and propagate the first failure."""
import random

from .. import tlc
from . import c14

TRACE = c14.TRACE


def gen(rng):
    op = rng.choice(["zip", "zip", "sequence", "traverse"])
    n = rng.choice([0, 1, 2, 2, 3, 3, 3, 4])
    kinds = rng.choice([[1, 2], [1, 1, 2, 3], [1, 1, 2, 4], [0, 1, 3, 4], [0, 1, 2, 3, 4], [1, 2, 3, 3, 4]])
    inputs = c14.gen_inputs(rng, n, kinds, shield_p=0.05)
    pos = c14.gen_pos(rng, n, dup_p=0.3)
    p = {"op": op, "inputs": inputs, "pos": pos, "early": rng.random() < 0.3,
         "cancel_at": rng.choice([None, None, None, None, 50, 100, 100, 150, 250, 400]),
         "wait": [50, 500] if rng.random() < 0.1 else None, "horizon": 1000}
    if op == "traverse" and pos and rng.random() < 0.2:
        p["fn_raise"] = rng.randrange(1, len(pos) + 1)
        p["fn_raise_type"] = rng.choice(["user", "user", "stop", "key"])
    if op == "sequence" and rng.random() < 0.3:
        p["iter"] = True
    if pos and rng.random() < 0.2:
        p["out_cb"] = rng.choice(pos)
    return p


def large_tasks(rng, quick):
    """Sequential large-N cases around the ZipTuple class boundary (19 / 20 / 21) and ~200 inputs: completion
    orders forward / reverse / shuffled, a failure or cancellation in the middle, a repeated input."""
    tasks = []
    # (counts just above a round number too: any slicing of a long input list must keep its incomplete last slice)
    sizes = [19, 20, 21, 200, 1001] if quick else [19, 20, 21, 64, 200, 1000, 1001, 1500, 2345]
    for n in sizes:
        for op in (("sequence", "traverse") if n > 1000 else ("zip", "sequence") if n in (21, 200, 1000) else ("zip",)):
            for variant in (("fwd", "fail") if n > 1000 else ("fwd", "rev", "shuffle", "fail", "dup")):
                inputs = [{"kind": rng.choice([1, 1, 2])} for _ in range(n)]
                ids = list(range(1, n + 1))
                pos = list(ids)
                if variant == "rev":
                    order = ids[::-1]
                elif variant == "fwd":
                    order = ids
                else:
                    order = ids[:]
                    rng.shuffle(order)
                if variant == "fail":
                    bad = order[n // 2] if n <= 1000 else order[-1]      # (in the last, incomplete slice)
                    inputs[bad - 1]["kind"] = 3 if op == "zip" else rng.choice([3, 3, 4])
                if variant == "dup":
                    pos[rng.randrange(n)] = pos[0]
                    pos.append(pos[n // 3])
                    order = [i for i in order if i in set(pos)]
                p = {"op": op, "inputs": inputs, "pos": pos, "seq": order, "horizon": 100, "max_steps": 400000}
                tasks.append({"scen": "combinators", "params": p, "strat": ["first"], "gran": "sync",
                              "facts": dict(c14.facts(p), large=n)})
    return tasks


def cancel_sweep_tasks(quick):
    """The output is cancelled by a client while another thread completes an input successfully: the completion lands at
    every point of the cancel's fan-out; a third input stays pending and must still be asked to cancel."""
    from .. import core as _core
    out = []
    for op in ("zip", "sequence"):
        params = {"op": op, "inputs": [{"kind": 0}, {"kind": 1, "at": 100}, {"kind": 0}, {"kind": 1, "at": 300}],
                  "cancel_at": 100, "horizon": 800}
        out += _core.phase_tasks("combinators", params, [("can1", "comp2")], range(1, 40, 2 if quick else 1), [10000],
                                 facts={"op": op})
    return out


def run(ck):
    quick = ck.tier == "quick"
    rng = random.Random(ck.seed)
    ck.findings = ck.findings + c14.extra_findings()
    # 1. the modelled design (Zipper.handle_done: slots, count_remaining, done under the lock; cancel / write
    #    outside; chain_cancel; the MapFuture layer of f_sequence / f_traverse) against the C15 clauses
    ck.mc("Zip", "Zip.mc.cfg", timeout=600)
    ck.mc("Zip", "Zip.mc2.cfg", timeout=600)
    ck.mc("Zip", "Zip.mc6.cfg", timeout=600)
    if not quick:
        for c in ("Zip.mc3.cfg", "Zip.mc4.cfg", "Zip.mc5.cfg"):
            ck.mc("Zip", c, timeout=1500)
    # 2. spec -> code: coarse-grained TLC behaviours replayed in the real f_zip / f_sequence
    for cfg, op in (("Zip.sim.cfg", "zip"), ("Zip.sim2.cfg", "sequence")):
        behs = tlc.simulate_behaviours("Zip", cfg, 40 if quick else 400, 60, ck.seed + 1, timeout=900)
        ck.replay_behaviours(behs, c14.converter(op), c14.project, TRACE)
    # 3. code -> spec: real executions with concurrent completers, judged by TLC; plus the large-N cases
    tasks = c14.make_tasks(rng, 450 if quick else 10000, gen)
    res = ck.run_and_validate(tasks, TRACE)
    res += ck.run_and_validate(large_tasks(rng, quick), TRACE, nontrivial=lambda t, r: True)
    c14.require_complete(ck, res)
    # directed two-preemption sweeps: two completers finishing at the same instant, and a completer racing a cancel
    # of the output (line granularity)
    from .. import core as _core
    swept = []
    for op in ['zip', 'sequence']:
        for kinds in ((1, 2), (2, 1), (3, 1), (1, 1)):
            params = {"op": op, "inputs": [{"kind": kinds[0], "at": 100}, {"kind": kinds[1], "at": 100}], "cancel_at": 100,
                      "horizon": 800}
            swept += _core.phase_tasks("combinators", params,
                                       [("comp1", "comp2"), ("comp2", "comp1"), ("comp1", "can1"), ("can1", "comp2")],
                                       range(2, 40, 4 if quick else 1), range(2, 26, 5 if quick else 1),
                                       facts={"op": op})
    # ... two inputs that both decide the outcome (failure / cancellation) completing at the same instant: the one
    # observed first wins, also when the other lands between the decision and the resolution of the output
    for op in ['zip', 'sequence']:
        for kinds in ((3, 4), (4, 3), (3, 3)):
            params = {"op": op, "inputs": [{"kind": kinds[0], "at": 100}, {"kind": kinds[1], "at": 100}], "cancel_at": None,
                      "horizon": 800}
            swept += _core.phase_tasks("combinators", params, [("comp1", "comp2"), ("comp2", "comp1")],
                                       range(2, 40, 2 if quick else 1), [10000] if quick else [10000, 5, 10, 20],
                                       facts={"op": op})
    swept += cancel_sweep_tasks(quick)
    ck.run_and_validate(swept, TRACE, nontrivial=lambda t, r: True)
    ck.assumptions += [
        "a completion linearises between its InputSetCall and InputSetRet, and for the combinator not before "
        "the combinator was called (already-done inputs count as concurrent with each other)",
        "a client's cancel() of the output that returns True overrides the outcome; CANCELLED and "
        "CANCELLED_AND_NOTIFIED both count as cancelled (waiter release is C02 / D4)",
        "element identity by object identity; large-N cases (19/20/21/200, thorough: 1000) are sequential",
        "interleavings at synchronisation operations (sync) or source lines of more_executors (line)",
    ]
