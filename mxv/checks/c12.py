"""C12 - Worker threads and references are reclaimed; pending futures keep working."""
import random

TRACE = "ReclaimObsTrace"
KINDS = ["retry", "poll", "throttle", "timeout"]


def run(ck):
    quick = ck.tier == "quick"
    rng = random.Random(ck.seed)
    # every placement of drop / shutdown / exit relative to the loop's deref-work-del-wait-clear sequence (model)
    ck.mc("WorkerLoop", "WorkerLoop.mc.cfg", timeout=3000)
    ck.mc("WorkerLoop", "WorkerLoop.mc2.cfg", timeout=3000)
    ck.mc("Retry", "Retry.mc.cfg", timeout=3000)     # NoStaleJobAtEnd: finished futures leave _jobs
    # f_timeout's executor, shared through a weak reference and kept alive by pending futures only
    ck.mc("SharedTimeout", "SharedTimeout.mc2.cfg" if quick else "SharedTimeout.mc.cfg", timeout=3000)
    # the registry of shutdown-aware events against the exit hook, constructions and reclaimed events
    ck.mc("ExitRegistry", "ExitRegistry.mc2.cfg" if quick else "ExitRegistry.mc.cfg", timeout=3000)
    if not quick:
        ck.mc("ExitRegistry", "ExitRegistry.mc3.cfg", timeout=3000)     # four executors, two of them dropped (14.6 M states)
    tasks = []
    # placement sweep in the real code: the action lands at every step index of the handling of a submission
    for kind in KINDS:
        for action in ("drop", "exit", "shutdown"):
            for pending in ((False, True) if action == "drop" else (False,)):
                for gran, top, stepk in (("sync", 160, 1), ("line", 900, 23 if quick else 4)):
                    for k in range(0, top, stepk):
                        p = {"kind": kind, "mode": "thread", "action": action, "pending": pending}
                        tasks.append({"scen": "reclaim", "params": p, "strat": ["placement", {"actor": k}, ["sticky"]],
                                      "gran": gran, "facts": {"kind": kind, "action": action}})
    # directed: the action lands inside the very loop iteration that a completion has just triggered (the worker is
    # between its flag checks, its work and its wait) - every source line of that iteration
    wname = {"retry": "RetryExecutor-w", "poll": "PollExecutor-w", "throttle": "ThrottleExecutor-w",
             "timeout": "TimeoutExecutor-w"}
    for kind in KINDS:
        for action in ("shutdown", "exit", "drop"):
            for n in range(1, 140, 2 if quick else 1):
                p = {"kind": kind, "mode": "thread", "action": action, "pending": False, "actor_at": 140,
                     "wait": action == "shutdown"}
                tasks.append({"scen": "reclaim", "params": p,
                              "strat": ["phases", [["env2", 10000, 140], [wname[kind], n], ["actor", 10000],
                                                   [wname[kind], 10000]]],
                              "gran": "line", "facts": {"kind": kind, "action": action, "directed": True}})
    ck.run_and_validate(tasks, TRACE, nontrivial=lambda t, r: True)
    # references: histories of finished jobs, everything dropped by the user, weak references examined
    tasks = []
    items = ["ok", "fail", "cancel_queued", "cancel_inflight"]
    for kind in KINDS:
        for i in range(12 if quick else 120):
            hist = [rng.choice(items + ["xcancel"] + (["cancel_between", "cancel_between"] if kind == "retry" else []))
                    for _ in range(rng.choice([1, 2, 3]))]
            tasks.append({"scen": "reclaim", "params": {"kind": kind, "mode": "refs", "hist": hist,
                                                       "poll_returns": "descs" if i % 2 else None,
                                                       "poll_interval": 100.0 if i % 4 == 1 else 0.3},
                          "strat": ["random", rng.randrange(10 ** 9), 0.5], "gran": "sync",
                          "facts": {"kind": kind, "hist": "+".join(sorted(set(hist)))}})
    # ... every kind of cancellation as the LAST thing that happens (nothing afterwards wakes the worker thread up)
    for kind in KINDS:
        for last in ["cancel_queued", "cancel_inflight", "xcancel"] + (["cancel_between"] if kind == "retry" else []):
            for hist in ([last], ["ok", last], ["fail", last]):
                tasks.append({"scen": "reclaim", "params": {"kind": kind, "mode": "refs", "hist": hist, "poll_returns": None,
                                                           "poll_interval": 0.3},
                              "strat": ["random", rng.randrange(10 ** 9), 0.5], "gran": "sync",
                              "facts": {"kind": kind, "hist": "+".join(sorted(set(hist))), "directed": True}})
    ck.run_and_validate(tasks, TRACE, nontrivial=lambda t, r: True)
    # the other direction: the user keeps the finished futures and drops the executor without shutdown()
    tasks = []
    for kind in KINDS:
        for i in range(12 if quick else 120):
            hist = [rng.choice(items + (["cancel_between", "cancel_between"] if kind == "retry" else []))
                    for _ in range(rng.choice([1, 1, 2, 3]))]
            tasks.append({"scen": "reclaim", "params": {"kind": kind, "mode": "keep", "hist": hist},
                          "strat": ["random", rng.randrange(10 ** 9), 0.5], "gran": "sync",
                          "facts": {"kind": kind, "hist": "+".join(sorted(set(hist))), "keep": True}})
    ck.run_and_validate(tasks, TRACE, nontrivial=lambda t, r: True)
    # the registry of shutdown-aware events: one executor's event is reclaimed (weakref callback rebuilding the list)
    # while another thread registers the event of a new executor; then the exit hook must still reach the new one.
    # Directed, at the granularity of single bytecodes (the window lies inside one source line).
    tasks = []
    wname = {"retry": "RetryExecutor-w", "poll": "PollExecutor-w", "throttle": "ThrottleExecutor-w",
             "timeout": "TimeoutExecutor-w"}
    for kind in KINDS:
        for n in range(1, 90, 1 if not quick else 1):
            for order in (0, 1):
                if order == 0:
                    ph = [["dropper", 10000], [wname[kind], n], ["creator", 10000], [wname[kind], 10000]]
                else:
                    if quick and n % 3:
                        continue
                    ph = [["dropper", 10000], ["creator", 4 * n], [wname[kind], 10000], ["creator", 10000]]
                tasks.append({"scen": "reclaim", "params": {"kind": kind, "mode": "exitrace"}, "strat": ["phases", ph],
                              "gran": "instr", "facts": {"kind": kind, "exitrace": True}})
    # the exit hook walking the registry while another thread registers a new executor's event
    for kind in KINDS:
        for kind2 in ("timeout", "retry"):
            for n in range(1, 60, 3 if quick else 1):
                for ph in ([["exiter", n, 1000], ["creator", 10000], ["exiter", 10000]],
                           [["creator", 3 * n, 1000], ["exiter", 10000], ["creator", 10000]]):
                    tasks.append({"scen": "reclaim", "params": {"kind": kind, "kind2": kind2, "mode": "exitadd"},
                                  "strat": ["phases", ph], "gran": "line", "facts": {"kind": kind, "exitrace": True}})
    # f_timeout(): the shared executor behind it lives exactly as long as calls are in progress or futures pending;
    # clients arriving at the instant the previous executor is being reclaimed (SharedTimeout.tla)
    for i in range(60 if quick else 1500):
        n = rng.choice([1, 2, 2, 3, 3, 4])
        t0 = rng.choice([0, 100])
        cl = []
        for _ in range(n):
            at = t0 + rng.choice([0, 0, 100, 200, 200, 300])
            T = rng.choice([100, 200, 300])
            cl.append({"at": at, "T": T, "D": rng.choice([0, 0, at, at + 100, at + 100, at + T, at + T + 100])})
        strat = ["random", rng.randrange(10 ** 9), 0.5] if i % 3 else ["pct", rng.randrange(10 ** 9), 3, 400]
        tasks.append({"scen": "reclaim", "params": {"kind": "timeout", "mode": "ftshared", "clients": cl},
                      "strat": strat, "gran": ("sync", "line", "line")[i % 3],
                      "facts": {"kind": "timeout", "ftshared": True, "clients": n}})
    # directed: the second client's call against every point of the first executor's last loop iteration
    for n in range(1, 80, 3 if quick else 1):
        cl = [{"at": 0, "T": 300, "D": 100}, {"at": 100, "T": 100, "D": 0}]
        for ph in ([["cli1", 10000, 100], ["TimeoutExecutor-internal", n], ["cli2", 10000]],
                   [["cli1", 10000, 100], ["cli2", n], ["TimeoutExecutor-internal", 10000], ["cli2", 10000]]):
            tasks.append({"scen": "reclaim", "params": {"kind": "timeout", "mode": "ftshared", "clients": cl},
                          "strat": ["phases", ph], "gran": "line",
                          "facts": {"kind": "timeout", "ftshared": True, "directed": True}})
    ck.run_and_validate(tasks, TRACE, nontrivial=lambda t, r: True)
    ck.assumptions += ["CPython reference counting and gc.collect() decide when an object is freed",
                       "a real interpreter exit is represented by calling the library's exit hook",
                       "user functions of the scenarios do not reference the executor"]
