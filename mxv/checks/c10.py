"""C10 - Cancel-on-shutdown covers every future the executor ever accepted."""
import random

from .. import tlc

TRACE = "ShutdownObsTrace"
NAMES = {"sub": "client%d", "env": "env%d", "sh": "sh", "obs": "main"}


def convert(beh):
    st0 = beh[0][1]
    S, D = tlc.nums(st0["cfgS"]), tlc.nums(st0["cfgD"])
    subs = [{"S": S[i], "script": ["V"], "dur": D[i], "thread": i} for i in range(len(S))]
    sched = []
    for act, st in beh[1:]:
        a = tlc.actor(st["actor"], {"sub": "SUB%d", "env": "env%d", "sh": "sh", "obs": "main"})
        if a is None:
            continue
        if a.startswith("SUB"):
            a = "client%d" % (int(a[3:]) - 1)
        sched.append(a)
    p = {"base": "manual", "layers": [{"t": "cos"}], "subs": subs, "shutdown": {"at": 100, "wait": True},
         "horizon": 1000, "roles": [[1, "_shutdown._lock", "gate"], [1, "_lock", "lock"]]}
    return ({"scen": "stack", "params": p, "strat": ["replay", sched, ["sticky"], True], "gran": "sync",
             "facts": {"replay": True}}, tlc.hist(beh[-1][1]["hist"]))


def project(trace):
    out = []
    for e in trace:
        ev = e["ev"]
        if ev in ("SubmitCall", "SubmitRet", "SubmitRaise", "ShutdownCall", "ShutdownRet", "End"):
            out.append([ev, e["f"], e["t"]])
        elif ev in ("DelegateSubmit", "CancelArrived", "DelegateShutdown", "DelegateShutdownRet") and e["s"] == "tap1":
            out.append([ev, e["f"], e["t"]])
        elif ev == "DelegateState" and e["c"] == 1 and e["s"] in ("FINISHED", "CANCELLED"):
            out.append([ev, e["f"], e["t"]])
    return out


def gen(rng, i):
    n = rng.choice([1, 2, 3, 4])
    nthreads = rng.choice([1, 2, 3])
    at = rng.choice([100, 100, 150])
    subs = []
    for j in range(n):
        subs.append({"S": rng.choice([0, 50, at, at, at + 1, at + 50]), "script": [rng.choice(["V", "V", "E"])],
                     "dur": rng.choice([20, 60, 300, 300]), "thread": j % nthreads, "cb": rng.random() < 0.3,
                     "nested": rng.random() < 0.1})
    below = []
    if rng.random() < 0.5:
        below = [rng.choice([{"t": "map", "fn": "tag"}, {"t": "retry", "max": 2, "sleep": 100},
                             {"t": "throttle", "count": 1}, {"t": "poll", "mode": "second"},
                             {"t": "timeout", "T": 5000}])]
    return {"base": rng.choice(["manual", "pool", "pool"]) if not below else "pool", "workers": rng.choice([1, 2]),
            "layers": below + [{"t": "cos"}], "subs": subs,
            "shutdown": {"at": at, "wait": rng.random() < 0.6, "repeat": rng.choice([1, 1, 2]),
                         "cancel_futures": rng.choice([None, None, True, False])}, "horizon": 2500}


def run(ck):
    quick = ck.tier == "quick"
    rng = random.Random(ck.seed)
    ck.mc("CancelOnShutdown", "CancelOnShutdown.mc.cfg", timeout=3000)
    ck.mc("CancelOnShutdown", "CancelOnShutdown.mc2.cfg", timeout=3000)      # a completion at the very instant of shutdown()
    behs = tlc.simulate_behaviours("CancelOnShutdown", "CancelOnShutdown.sim.cfg", 60 if quick else 500, 60,
                                   ck.seed + 1, timeout=600)
    ck.replay_behaviours(behs, convert, project, TRACE, unordered=("CancelArrived",))
    tasks = []
    for i in range(600 if quick else 12000):
        p = gen(rng, i)
        strat = ["random", rng.randrange(10 ** 9), 0.5] if i % 4 else ["pct", rng.randrange(10 ** 9), 3, 200]
        tasks.append({"scen": "stack", "params": p, "strat": strat, "gran": "line" if i % 5 == 0 else "sync",
                      "facts": {"nested": any(s.get("nested") for s in p["subs"]), "base": p["base"]}})
    ck.run_and_validate(tasks, TRACE)
    # directed two-preemption sweeps: a submit() racing the shutdown() call (line granularity)
    from .. import core as _core
    pp = {"base": "pool", "workers": 2, "layers": [{"t": "cos"}],
          "subs": [{"S": 0, "script": ["V"], "dur": 300, "thread": 0, "cb": True},
                   {"S": 100, "script": ["V"], "dur": 300, "thread": 1}, {"S": 100, "script": ["V"], "dur": 50, "thread": 2}],
          "shutdown": {"at": 100, "wait": True, "repeat": 1}, "horizon": 2500}
    swept = _core.phase_tasks("stack", pp, [("client1", "sh"), ("sh", "client1"), ("client2", "sh"), ("sh", "client2")],
                              range(1, 60, 5 if quick else 1), range(1, 50, 6 if quick else 1),
                              facts={"nested": False, "base": "pool"})
    # the same without anything that finishes the escaped future before shutdown() returns (wait=False / a delegate that
    # does not join): the submitter is parked right after the gate check, the shutdown thread runs its snapshot and sweep
    for base, wait in (("pool", False), ("manual", True)):
        pq = dict(pp, base=base, shutdown={"at": 100, "wait": wait, "repeat": 1})
        swept += _core.phase_tasks("stack", pq, [("client1", "sh"), ("client2", "sh")], range(1, 16),
                                   range(4, 40, 4 if quick else 1), facts={"nested": False, "base": base})
    # bookkeeping of the tracked set at bytecode granularity: (a) an earlier future finishes (its done-callback leaves the
    # set, on the worker's thread, without the executor's lock) at every point of another thread's submit(); (b) it
    # finishes at every point of shutdown()'s snapshot and sweep.  The later futures must still be swept exactly once.
    pa = {"base": "manual", "workers": 2, "layers": [{"t": "cos"}],
          "subs": [{"S": 0, "script": ["V"], "dur": 100, "thread": 0}, {"S": 100, "script": ["V"], "dur": 700, "thread": 1}],
          "shutdown": {"at": 300, "wait": False, "repeat": 1}, "horizon": 2500}
    pb = {"base": "manual", "workers": 2, "layers": [{"t": "cos"}],
          "subs": [{"S": 0, "script": ["V"], "dur": 300, "thread": 0}, {"S": 10, "script": ["V"], "dur": 900, "thread": 1},
                   {"S": 20, "script": ["V"], "dur": 900, "thread": 2}],
          "shutdown": {"at": 300, "wait": False, "repeat": 1}, "horizon": 2500}
    fine = []
    for n in range(1, 160, 3 if quick else 1):
        for (prm, a, b, t0) in ((pa, "env1", "client1", 100), (pa, "client1", "env1", 100), (pb, "sh", "env1", 300),
                                (pb, "env1", "sh", 300)):
            fine.append({"scen": "stack", "params": prm, "strat": ["phases", [[a, n, t0], [b, 10000], [a, 10000]]],
                         "gran": "instr", "facts": {"nested": False, "base": "manual", "directed": True}})
    ck.run_and_validate(swept + fine, TRACE, nontrivial=lambda t, r: True)
    ck.assumptions += ["cancel() arrivals are observed on the futures the executor returned (instance-level wrapper)",
                       "one thread calls shutdown(); submitters race with it from other threads"]
