"""C01 - Composed executors deliver each callable's own outcome, exactly once."""
import random
import re

TRACE = "StackObsTrace"
SCRIPT = {0: "V", 1: "E", 2: "F"}
KINDS = {
    "map_tag": {"t": "map", "fn": "tag"}, "map_raise": {"t": "map", "fn": "raise"},
    "map_efn_tag": {"t": "map", "efn": "tag"}, "map_efn_raise": {"t": "map", "efn": "raise"},
    "map_efn_reraise": {"t": "map", "efn": "reraise"}, "map_both": {"t": "map", "fn": "tag", "efn": "tag"},
    "map_fn_none": {"t": "map", "fn": "none"}, "map_efn_none": {"t": "map", "efn": "none"},
    "flat_tag": {"t": "flat_map", "fn": "tag"}, "flat_later": {"t": "flat_map", "fn": "later"},
    "flat_nonfuture": {"t": "flat_map", "fn": "nonfuture"}, "flat_none": {"t": "flat_map"},
    "flat_efn_fail": {"t": "flat_map", "efn": "fail_future"},
    "flat_efn_nonfuture": {"t": "flat_map", "efn": "nonfuture"},
    "retry2": {"t": "retry", "max": 2, "sleep": 100}, "retry3": {"t": "retry", "max": 3, "sleep": 100},
    "poll_first": {"t": "poll", "mode": "first"}, "poll_second": {"t": "poll", "mode": "second"},
    "throttle1": {"t": "throttle", "count": 1}, "throttle_none": {"t": "throttle", "count": None},
    "timeout": {"t": "timeout", "T": 10 ** 6}, "cos": {"t": "cos"},
}
LIB_KW = ["timeout", "fn", "retry_policy", "delegate"]


def programs_from(out):
    progs = []
    for m in re.finditer(r'<<"PROG", <<(.*?)>>, <<([\d, ]+)>>, (\d+)>>', out):
        kinds = re.findall(r'"(\w+)"', m.group(1))
        script = [int(x) for x in m.group(2).split(",")]
        progs.append((kinds, script))
    for m in re.finditer(r'<<"PROG", <<>>, <<([\d, ]+)>>, (\d+)>>', out):
        progs.append(([], [int(x) for x in m.group(1).split(",")]))
    return progs


def task_for(kinds, scripts, rng, base=None, nthreads=1, gran="sync", libkw=False):
    subs = []
    for i, sc in enumerate(scripts):
        kw = []
        if rng.random() < 0.4:
            kw = rng.sample(["alpha", "beta", "x"], rng.choice([1, 2]))
        if libkw:
            kw = kw + [rng.choice(LIB_KW)]
        subs.append({"S": rng.choice([0, 0, 10]), "script": [SCRIPT[c] for c in sc], "dur": rng.choice([0, 30, 50]),
                     "nargs": rng.choice([0, 1, 2, 3]), "kwnames": kw, "thread": i % nthreads})
    # nested retry layers multiply: the horizon must cover every attempt (duration + back-off + poll interval)
    attempts = 1
    for k in kinds:
        attempts *= {"retry2": 2, "retry3": 3}.get(k, 1)
    horizon = 6000 + attempts * (len(scripts) + 1) * 600
    p = {"base": base or rng.choice(["sync", "pool", "pool"]), "workers": rng.choice([1, 2, 3]),
         "layers": [dict(KINDS[k]) for k in kinds], "subs": subs, "horizon": horizon}
    strat = ["random", rng.randrange(10 ** 9), 0.6] if rng.random() < 0.75 else ["pct", rng.randrange(10 ** 9), 3, 400]
    return {"scen": "stack", "params": p, "strat": strat, "gran": gran,
            "facts": {"libkw": libkw, "depth": len(kinds)}}


def run(ck):
    quick = ck.tier == "quick"
    rng = random.Random(ck.seed)
    r = ck.mc("Stack", "Stack.mc.cfg", workers=1, timeout=1200)
    progs = programs_from(r["out"])
    if len(progs) < 100:
        ck.machinery_errors.append("program enumeration produced only %d programs" % len(progs))
    if not quick:
        ck.mc("Stack", "Stack.mc3.cfg", workers=8, timeout=3000)
    ck.notes["programs_enumerated_by_tlc"] = len(progs)
    tasks = []
    # every TLC-enumerated program (depth <= 2) once in quick (sampled), several schedules in thorough
    sample = progs if not quick else rng.sample(progs, min(len(progs), 500))
    reps = 1 if quick else 4
    for kinds, script in sample:
        for _ in range(reps):
            others = [rng.choice([[0], [1, 0], [2], [1, 1, 1]]) for _ in range(rng.choice([0, 1, 2]))]
            tasks.append(task_for(kinds, [script] + others, rng, nthreads=rng.choice([1, 2, 3]),
                                  gran="line" if rng.random() < 0.15 else "sync"))
    # deeper stacks (3..6), sampled
    kinds_all = sorted(KINDS)
    for _ in range(250 if quick else 6000):
        d = rng.choice([3, 3, 4, 5, 6])
        kinds = [rng.choice(kinds_all) for _ in range(d)]
        scripts = [rng.choice([[0], [1, 0], [1, 1, 1], [2], [1, 2], [1, 1, 0]]) for _ in range(rng.choice([1, 2, 3, 4]))]
        tasks.append(task_for(kinds, scripts, rng, nthreads=rng.choice([1, 2, 3]),
                              gran="line" if rng.random() < 0.15 else "sync"))
    # keyword arguments named like the library's own parameters
    for i in range(40 if quick else 400):
        kinds = [rng.choice(kinds_all) for _ in range(rng.choice([0, 1]))]
        kinds.append(["timeout", "retry2", "throttle1", "map_tag"][i % 4])
        t = task_for(kinds, [[0]], rng, libkw=True, base=["pool", "sync"][i % 2])
        t["params"]["subs"][0]["kwnames"] = [["timeout", "retry_policy", "fn", "fn"][i % 4]]
        tasks.append(t)
    ck.run_and_validate(tasks, TRACE, nontrivial=lambda t, r: len(t["params"]["layers"]) >= 1)
    ck.assumptions += [
        "user functions are injective taggers; exception identity via object ids recorded at the raise site",
        "timeouts large (identity); poll functions resolve on their first / second call",
        "futures on which cancel() was called and submissions after shutdown are excluded (C06 / C11 judge them)",
    ]
