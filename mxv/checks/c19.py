"""C19 - bind / flat_bind chains are equivalent to the executor chain; names propagate.

1. TLC enumerates chain programs (spec/Bind.tla: layers x bind position x callable kind x bind/flat_bind x outcome
   script x names) and checks, for every program, that the forms built with the library's operations satisfy the
   contract spec/BindObs.tla - including that the operational name propagation agrees with the declarative oracle
   ExpName.  Negative control: with AsShipped_D10 = TRUE (a bound callable carries no name) the same run must be
   refuted by C19_NameInThreadNames.
2. spec -> code: programs drawn by TLC (simulation) are executed in all forms on the real library; the outcome
   terms and invocation counts must equal the model's (drift is reported, never an alarm).
3. code -> spec: seeded random programs (deeper chains, several submissions, argument lists, futures resolved
   later, sync / pool bases, names at the base and mid-chain) under random / PCT schedules, judged by TLC
   (BindObsTrace).
"""
import random
import re

from .. import tlc

TRACE = "BindObsTrace"
_RE_HIST = re.compile(r'<<"(\w+)", (-?\d+), (-?\d+), (-?\d+), (-?\d+), (-?\d+)>>')
TYPES = ["map", "flat_map", "retry", "poll", "throttle", "timeout", "cos"]
THREAD_TYPES = ("retry", "poll", "throttle", "timeout")


def exp_name(p, k):
    """Python mirror of BindObs!ExpName - used for the task's *facts* only (known-finding matching), never for
    the verdict."""
    nm = p.get("basename", 0)
    for i, L in enumerate(p["layers"][:k]):
        if L.get("name"):
            nm = L["name"]
    return nm


def facts_of(p):
    inherit_after_bind = any(
        L["type"] in THREAD_TYPES and i + 1 > p["bindpos"] and not L.get("name") and exp_name(p, i + 1) != 0
        for i, L in enumerate(p["layers"]))
    return {"after_bind_layer": bool(inherit_after_bind), "flat": bool(p.get("flat")), "kind": p.get("kind", 1),
            "base": p.get("base", "pool")}


# ---------------------------------------------------------------------------------- spec -> code
def converter(rng):
    def convert(beh):
        st = beh[0][1]
        chain = tlc.tla_str_seq(st["chain"])
        mid = tlc.nums(st["midpos"])[0]
        p = {"base": st["basekind"].strip().strip('"'), "workers": 2, "basename": tlc.nums(st["basename"])[0],
             "layers": [{"type": t, "name": 2 if mid == i + 1 else 0} for i, t in enumerate(chain)],
             "bindpos": tlc.nums(st["bindpos"])[0], "flat": tlc.nums(st["flat"])[0],
             "kind": tlc.nums(st["kind"])[0],
             "subs": [{"script": st["script"].strip().strip('"'), "inner": rng.choice(["done", "later"])}]}
        exp = [[a, int(b), int(c), int(d), int(e), int(f)]
               for a, b, c, d, e, f in _RE_HIST.findall(beh[-1][1]["hist"]) if a in ("FormOutcome", "Flattened")]
        task = {"scen": "bind", "params": p, "strat": ["random", rng.randrange(10 ** 9), 0.6], "gran": "sync",
                "facts": facts_of(p)}
        return task, exp
    return convert


def project(trace):
    out = []
    for e in trace:
        if e["ev"] in ("FormOutcome", "Flattened"):
            out.append([e["ev"], e["f"], e["k"], e["a"], e["b"], e["c"]])
    return out


# ---------------------------------------------------------------------------------- random programs
def gen_program(rng, names_bias):
    depth = rng.choice([0, 1, 1, 2, 2, 3, 3, 4, 5])
    layers = [{"type": rng.choice(TYPES), "name": 0} for _ in range(depth)]
    if names_bias:
        # programs aimed at the naming clause: thread-creating layers on both sides of bind
        for L in layers:
            if rng.random() < 0.6:
                L["type"] = rng.choice(THREAD_TYPES)
    if depth and rng.random() < (0.4 if names_bias else 0.15):
        layers[rng.randrange(depth)]["name"] = 2
    kind = rng.choice([1, 2, 3, 4])
    subs = []
    for _ in range(rng.choice([1, 1, 2, 3, 4])):
        s = {"script": rng.choice(["V", "V", "EV", "EEV", "EEE", "F", "EF"]),
             "args": [rng.randrange(100) for _ in range(rng.choice([0, 0, 1, 2, 3]))],
             "kwargs": rng.choice([{}, {}, {}, {"x": 1}, {"x": 1, "y": [2]}, {"timeout": 5}, {"fn": 3},
                                   {"name": "z"}, {"retry_policy": None}]),
             "inner": rng.choice(["done", "later"])}
        subs.append(s)
    return {"base": rng.choice(["pool", "pool", "sync"]), "workers": rng.choice([1, 2, 3]),
            "basename": 1 if (names_bias or rng.random() < 0.5) else 0, "layers": layers,
            "bindpos": rng.randrange(depth + 1), "flat": 1 if rng.random() < (0.5 if kind == 4 else 0.2) else 0,
            "kind": kind, "subs": subs, "attrs": bool(kind == 3 and rng.random() < 0.5),
            "falsy": bool(kind == 3 and rng.random() < 0.4),
            "derive_junk": rng.choice([0, 0, 1, 1])}


def nontrivial(task, result):
    return len(task["params"]["layers"]) >= 1


def run(ck):
    quick = ck.tier == "quick"
    rng = random.Random(ck.seed)
    # 1. TLC: every program of the bounded space satisfies the contract (equivalence, then names)
    ck.mc("Bind", "Bind.mc.cfg", timeout=900)
    ck.mc("Bind", "Bind.names.cfg", timeout=900)
    r = tlc.model_check("Bind", "Bind.names.cfg", workers=16, timeout=900,
                        constants_override={"AsShipped_D10": "TRUE"})
    last = r["trace"][-1][1].get("viol") if r.get("trace") else None
    ck.witnesses["model_AsShipped_D10_refuted_by"] = last
    if r.get("trace"):
        st = r["trace"][-1][1]
        ck.witnesses["model_AsShipped_D10_program"] = {k: st.get(k) for k in ("chain", "bindpos", "basename", "basekind")}
    if r["violated"] != "ContractHolds" or last != '"C19_NameInThreadNames"':
        ck.machinery_errors.append("negative control: Bind.tla with AsShipped_D10=TRUE was not refuted by "
                                   "C19_NameInThreadNames (%s / %s)" % (r["violated"], last))
    # 2. spec -> code: programs drawn by TLC, executed in all forms
    behs = tlc.simulate_behaviours("Bind", "Bind.sim.cfg", 150 if quick else 3000, 12, ck.seed + 1, timeout=900)
    pairs = ck.replay_behaviours(behs, converter(rng), project, TRACE)
    ck.notes["replayed_programs_with_layer_inheriting_a_name_after_bind"] = sum(
        1 for (t, _r), _v in pairs if t["facts"]["after_bind_layer"])
    # 3. code -> spec: random programs
    tasks = []
    for i in range(700 if quick else 10000):
        p = gen_program(rng, names_bias=(i % 3 == 0))
        strat = ["random", rng.randrange(10 ** 9), 0.6] if i % 4 else ["pct", rng.randrange(10 ** 9), 3, 400]
        tasks.append({"scen": "bind", "params": p, "strat": strat, "gran": "line" if i % 6 == 0 else "sync",
                      "facts": facts_of(p)})
    pairs2 = ck.run_and_validate(tasks, TRACE, nontrivial=nontrivial)
    # a crash of a harness thread (main / inner-future helper) is a defect of this check, never a verdict
    crashed = [(t["params"], r["thread_excs"]) for (t, r), _v in list(pairs) + list(pairs2)
               if any(n.startswith(("main", "inner")) for n, _e in (r.get("thread_excs") or ()))]
    if crashed:
        ck.machinery_errors.append("harness threads crashed in %d executions, e.g. %s" % (len(crashed), crashed[:2]))
    cut = [(t["params"], r["outcome"], r["steps"]) for (t, r), _v in list(pairs) + list(pairs2)
           if r.get("outcome") != "finished"]
    if cut:
        ck.machinery_errors.append("%d executions did not run to their End event, e.g. %s" % (len(cut), cut[:2]))
    ck.notes["max_steps_of_one_execution"] = max([r["steps"] for (t, r), _v in list(pairs) + list(pairs2)] or [0])
    ck.notes["rule"] = ("one evaluation = one generated program (chain, bind position, callable kind, bind/flat_bind, "
                        "names, submissions) executed on the real library in all of its forms under the controlled "
                        "scheduler and validated by TLC against BindObs; distinct = distinct (program, projected "
                        "trace) pairs; non-trivial = the chain has at least one layer")
    ck.notes["programs_with_layer_inheriting_a_name_after_bind"] = sum(
        1 for t in tasks if t["facts"]["after_bind_layer"])
    ck.assumptions += [
        "outcome codes are computed by the harness from the real result objects (identity of the value / exception "
        "produced by the last invocation, tags of the map / flat_map / poll layers passed, nesting in a future) "
        "with the encoding Bind!Enc; thread names are strings of the scheduler's thread table, reduced to name ids "
        "by substring search (DESIGN.md section 7)",
        "layers: map and flat_map with injective taggers, retry (3 attempts, 0.1 s), poll (yields a tagged result), "
        "throttle (2), timeout (60 s, never fires), cancel_on_shutdown; small-scope: chains of depth <= 3 in the "
        "exhaustive runs, <= 5 in the random programs",
        "interleavings at synchronisation operations (sync) or source lines of more_executors (line)",
    ]
