"""C09 - Timeouts fire exactly once, never early, and at the deadline."""
import random
import re

from .. import core, tlc

TRACE = "TimeoutObsTrace"
NAMES = {"sub": "sub%d", "env": "env%d", "loop": "TimeoutExecutor-t", "obs": "main"}


def _actor_name(txt):
    m = re.match(r'<<"(\w+|-)", (\d+)>>', txt)
    kind, n = m.group(1), int(m.group(2))
    if kind in ("tick", "-"):
        return None
    nm = NAMES[kind]
    return nm % n if "%d" in nm else nm


def _nums(txt):
    return [int(x) for x in re.findall(r"-?\d+", txt)]


def _bools(txt):
    return [x == "TRUE" for x in re.findall(r"TRUE|FALSE", txt)]


def convert(beh):
    st0 = beh[0][1]
    T, S, D, C = _nums(st0["cfgT"]), _nums(st0["cfgS"]), _nums(st0["cfgD"]), _bools(st0["cfgC"])
    SD = _nums(st0["cfgSD"])
    CD = _nums(st0["cfgCD"]) if "cfgCD" in st0 else [0] * len(T)
    jobs = [{"T": T[i], "S": S[i], "D": D[i], "C": C[i], "SD": SD[i], "CD": CD[i]} for i in range(len(T))]
    sched = [n for n in (_actor_name(s[1]["actor"]) for s in beh[1:]) if n]
    hist = re.findall(r'<<"(\w+)", (-?\d+), (\d+)>>', beh[-1][1]["hist"])
    # (the model marks the end of SLOW cancels only; the code's trace has one for every cancel: not compared)
    exp = [[a, int(b), int(c)] for a, b, c in hist if a != "CancelArrivedRet"]
    task = {"scen": "timeout", "params": {"flavour": "manual", "jobs": jobs, "horizon": 7000, "visible": True},
            "strat": ["replay", sched, ["sticky"], True], "gran": "sync"}
    return task, exp


def project(trace):
    out = []
    for e in trace:
        ev = e["ev"]
        if ev in ("SubmitCall", "SubmitRet", "InvokeEnd", "End", "FutureCreated"):
            out.append([ev, e["f"], e["t"]])
        elif ev == "CancelArrived" and e["s"] == "outer" and e["r"] == "timeout":
            out.append([ev, e["f"], e["t"]])
        elif ev == "Observed" and e["s"] in ("FINISHED", "CANCELLED_AND_NOTIFIED"):
            out.append([ev, e["f"], e["t"]])
    return out


def gen_jobs(rng, n):
    jobs = []
    for _ in range(n):
        # (a per-call timeout of 0 is a timeout like any other: the deadline is the creation time)
        jobs.append({"T": rng.choice([300, 1000, 1000, 2000, 3000, 0]), "S": rng.choice([0, 0, 500, 1500, 2990]),
                     "D": rng.choice([0, 400, 1000, 1000, 2500, 2999, 3001]), "C": rng.random() < 0.5,
                     "percall": rng.random() < 0.7, "exc": rng.random() < 0.2,
                     "ucancel": rng.choice([None, None, None, 700, 1000, 2000]),
                     "SD": rng.choice([0, 0, 0, 1, 200, 700]), "CD": rng.choice([0, 0, 0, 0, 400, 900]),
                     "resub": rng.random() < 0.2})
        if jobs[-1]["T"] == 0:
            jobs[-1]["percall"] = True
    return jobs


def run(ck):
    quick = ck.tier == "quick"
    rng = random.Random(ck.seed)
    # 1. the modelled design satisfies the contract on every interleaving (exhaustive, small constants)
    ck.mc("Timeout", "Timeout.mc.cfg" if quick else "Timeout.mc3.cfg", timeout=3000)
    ck.mc("Timeout", "Timeout.mc4.cfg", timeout=3000)     # submissions one tick around another one's deadline
    # delegates whose cancel() takes time and refuses (the loop thread is busy while other deadlines pass)
    ck.mc("Timeout", "Timeout.mc5.cfg" if quick else "Timeout.mc6.cfg", timeout=3000)
    # 2. spec -> code: TLC behaviours replayed in the real TimeoutExecutor
    behs = tlc.simulate_behaviours("Timeout", "Timeout.sim.cfg", 60 if quick else 600, 90, ck.seed + 1, timeout=900)
    ck.replay_behaviours(behs, convert, project, TRACE)
    # ... including delegates whose own submit() takes time (the deadline counts from the creation of the future)
    behs = tlc.simulate_behaviours("Timeout", "Timeout.sim2.cfg", 40 if quick else 400, 90, ck.seed + 2, timeout=900)
    ck.replay_behaviours(behs, convert, project, TRACE)
    # ... and delegates whose cancel() takes time
    behs = tlc.simulate_behaviours("Timeout", "Timeout.sim3.cfg", 40 if quick else 400, 90, ck.seed + 3, timeout=900)
    ck.replay_behaviours(behs, convert, project, TRACE)
    # 3. code -> spec: many real executions (all three flavours, both granularities), judged by TLC
    tasks = []
    n = 600 if quick else 12000
    for i in range(n):
        fl = ["manual", "pool", "ftimeout"][i % 3]
        jobs = gen_jobs(rng, rng.choice([1, 2, 3, 3, 4]))
        if fl == "ftimeout":
            for jb in jobs:
                jb["percall"] = True
        strat = ["random", rng.randrange(10 ** 9), 0.6] if i % 4 else ["pct", rng.randrange(10 ** 9), 3, 200]
        tasks.append({"scen": "timeout", "params": {"flavour": fl, "jobs": jobs, "horizon": 8000,
                                                   "default": rng.choice([1000, 2000]),
                                                   "workers": rng.choice([1, 2, 4])},
                      "strat": strat, "gran": "line" if i % 5 == 0 else "sync",
                      "facts": {"flavour": fl}})
    ck.run_and_validate(tasks, TRACE)
    # directed two-preemption sweeps: a submission with an earlier deadline lands while the timeout thread is between
    # its partition, the computation of its sleep time and the wait (a third thread's submission keeps it awake)
    from .. import core as _core
    pp = {"flavour": "manual", "jobs": [{"T": 2000, "S": 0, "D": 0, "C": True}, {"T": 300, "S": 100, "D": 0, "C": True},
                                        {"T": 1500, "S": 100, "D": 0, "C": False}], "horizon": 4000}
    swept = _core.phase_tasks("timeout", pp, [("TimeoutExecutor-t", "sub2"), ("sub2", "TimeoutExecutor-t")],
                              range(1, 50, 4 if quick else 1), range(1, 30, 5 if quick else 1),
                              prefix=[["sub3", 10000]])
    swept += _core.phase_tasks("timeout", pp, [("sub2", "sub3"), ("TimeoutExecutor-t", "sub3")],
                               range(1, 40, 5 if quick else 1), range(1, 30, 6 if quick else 1))
    # a submission lands while the timeout thread - woken by another future's completion - is between computing the
    # earliest deadline of the futures it knows and going back to sleep; a later-deadline future keeps it asleep
    pq = {"flavour": "manual", "jobs": [{"T": 1000, "S": 0, "D": 300, "C": True}, {"T": 2000, "S": 0, "D": 0, "C": True},
                                        {"T": 1000, "S": 300, "D": 0, "C": True}], "horizon": 4000}
    swept += _core.phase_tasks("timeout", pq, [("TimeoutExecutor-t", "sub3")], range(1, 90), [10000],
                               prefix=[["sub1", 10000], ["sub2", 10000], ["env1", 10000]])
    if not quick:
        swept += _core.phase_tasks("timeout", pq, [("TimeoutExecutor-t", "sub3")], range(1, 90), range(1, 40, 3),
                                   prefix=[["sub1", 10000], ["sub2", 10000], ["env1", 10000]])
    # the clock moves WHILE the timeout thread partitions its jobs (one tick, at its k-th clock reading): a pass woken at
    # the very instant of a deadline must still put every job either among the overdue or among the pending ones
    pk = {"flavour": "manual", "jobs": [{"T": 1000, "S": 0, "D": 0, "C": True}, {"T": 5000, "S": 1000, "D": 0, "C": True},
                                        {"T": 1000, "S": 1, "D": 0, "C": False}], "horizon": 4000}
    for k in range(1, 40):
        for strat in (["random", 5, 0.5], ["sticky"]):
            swept.append({"scen": "timeout", "params": pk, "strat": strat, "gran": "sync", "clock_bump": ["TimeoutExecutor-t", k],
                          "facts": {"flavour": "manual", "directed": True}})
    ck.run_and_validate(swept, TRACE, nontrivial=lambda t, r: True)
    ck.assumptions += [
        "virtual time: timers fire one tick late, time advances only when no thread can run",
        "deadline bounds taken from SubmitCall/SubmitRet times; EPS = 2 ticks per wake-up",
        "interleavings at synchronisation operations (sync) or source lines of more_executors (line)",
    ]
