"""C04 - No deadlock among API calls and internal threads, including nested submission."""
import random

from . import c01, c06, c11, chain

TRACE = "DeadlockObsTrace"


def gen(rng, i):
    kinds_all = sorted(c01.KINDS)
    depth = rng.choice([0, 1, 1, 2, 2, 3])
    kinds = [rng.choice(kinds_all) for _ in range(depth)]
    if rng.random() < 0.3:
        kinds.append("cos")
    layers = [dict(c01.KINDS[k]) for k in kinds]
    base = rng.choice(["sync", "sync", "pool"])
    if i % 3 == 0:
        # timers that do fire: a timeout below other layers expires futures while clients cancel, wait and shut down
        # at the same instants (the expiry cancels bottom-up what a client cancels top-down)
        base = "pool"
        layers.insert(rng.randrange(0, len(layers) + 1), {"t": "timeout", "T": rng.choice([50, 100, 100])})
        if rng.random() < 0.4:
            layers.insert(rng.randrange(0, len(layers) + 1), {"t": "cos"})
    n = rng.choice([1, 2, 3])
    nthreads = rng.choice([1, 2, 3])
    subs = []
    for j in range(n):
        sb = {"S": rng.choice([0, 0, 10, 100]), "script": rng.choice([["V"], ["E", "V"], ["F"]]),
              "dur": rng.choice([0, 30, 100, 300] if i % 3 == 0 else [0, 30, 100]), "thread": j % nthreads,
              "cb": rng.random() < 0.3,
              "nested": rng.random() < 0.35, "nested_cb": rng.random() < 0.25, "wait": rng.random() < 0.4,
              "K": rng.sample([0, 50, 100, 150], rng.choice([0, 0, 1]))}
        if i % 3 == 0 and rng.random() < 0.3 and layers:
            # somebody else cancels a future inside the stack (bottom-up cancellation)
            sb["xcancel"] = {"tap": rng.randrange(1, len(layers) + 1), "at": rng.choice([0, 50, 100, 150])}
        subs.append(sb)
    sh = None
    if rng.random() < 0.5:
        sh = {"at": rng.choice([100, 100, 400, 50, 150]), "wait": rng.random() < 0.7, "repeat": 1}
    return {"base": base, "workers": rng.choice([1, 2]), "layers": layers, "subs": subs,
            "shutdown": sh, "horizon": 60000}


def run(ck):
    quick = ck.tier == "quick"
    rng = random.Random(ck.seed)
    # (a submitter of a blocking throttle re-checks the queue as long as the shared event is set; under an unfair schedule
    #  that never lets the hand-over thread clear it, this exhausts the step budget: the prefix is judged.  A thread that
    #  spins while nobody else CAN run is reported by the engine as blocked - that one is a verdict)
    ck.allow_truncation = True
    # lock-order cycles inside one component are deadlock states of the component models
    ck.mc("CancelOnShutdown", "CancelOnShutdown.mc.cfg", timeout=3000)
    ck.mc("WorkerLoop", "WorkerLoop.mc.cfg", timeout=3000)
    ck.mc("LockProg", "LockProg.mc.cfg", timeout=3000)
    tasks = []
    for i in range(800 if quick else 16000):
        p = gen(rng, i)
        strat = ["random", rng.randrange(10 ** 9), 0.5] if i % 3 else ["pct", rng.randrange(10 ** 9), 4, 300]
        tasks.append({"scen": "stack", "params": p, "strat": strat, "gran": "line" if i % 6 == 0 else "sync",
                      "lock_log": True,
                      "lock_key": "stack/%s/%s/%s" % (p["base"], ",".join(l["t"] for l in p["layers"]),
                                                      bool(p.get("shutdown"))),
                      "facts": {"base": p["base"], "nested": any(s.get("nested") or s.get("nested_cb") for s in p["subs"]),
                                "retry": any(l["t"] == "retry" for l in p["layers"])}})
    # the cancel-heavy and shutdown-heavy stack families of C06 / C11, judged for blocked threads here
    for i in range(250 if quick else 5000):
        p = (c06.gen if i % 2 else c11.gen)(rng, i)
        p["horizon"] = 60000
        strat = ["random", rng.randrange(10 ** 9), 0.5] if i % 3 else ["pct", rng.randrange(10 ** 9), 4, 300]
        tasks.append({"scen": "stack", "params": p, "strat": strat, "gran": "line" if i % 6 == 0 else "sync",
                      "lock_log": True,
                      "lock_key": "stack/%s/%s/%s" % (p["base"], ",".join(l["t"] for l in p["layers"]),
                                                      bool(p.get("shutdown"))),
                      "facts": {"base": p["base"], "nested": False, "retry": any(l["t"] == "retry" for l in p["layers"]),
                                "family": "c06" if i % 2 else "c11"}})
    # a future inside the stack is cancelled from outside (bottom-up) at the instant a client cancels the stack's own
    # future (top-down): the two flows take the executor's and the future's locks; queued behind a busy single worker,
    # so that both cancels can succeed
    for ly in ({"t": "retry", "max": 3, "sleep": 100}, {"t": "throttle", "count": 2}, {"t": "timeout", "T": 5000},
               {"t": "poll", "mode": "second"}, {"t": "map", "fn": "tag"}, {"t": "flat_map", "fn": "later"}):
        for above in ([], [{"t": "map", "fn": "tag"}]):
            layers = [dict(ly)] + [dict(x) for x in above]
            for at in (100, 101):
                p = {"base": "pool", "workers": 1, "layers": layers,
                     "subs": [{"S": 0, "script": ["V"], "dur": 300, "thread": 0},
                              {"S": 10, "script": ["E", "V"], "dur": 100, "thread": 1, "cb": True, "K": [at],
                               "xcancel": {"tap": 1, "at": 100}, "wait": True}],
                     "shutdown": None, "horizon": 60000}
                for k in range(2 if quick else 10):
                    tasks.append({"scen": "stack", "params": p, "strat": ["random", rng.randrange(10 ** 9), 0.5],
                                  "gran": "line" if k % 2 else "sync", "lock_log": True,
                                  "lock_key": "xk/%s" % ",".join(l["t"] for l in layers),
                                  "facts": {"base": "pool", "nested": False, "retry": ly["t"] == "retry", "family": "xk"}})
    # a running callable submits (once) to its own stack through a BLOCKING throttle of one slot: the slot it occupies
    # itself is not something the nested submit() may wait for (only a full queue blocks)
    for base in ("pool", "sync"):
        for layers in ([{"t": "throttle", "count": 1, "block": True}],
                       [{"t": "map", "fn": "tag"}, {"t": "throttle", "count": 1, "block": True}],
                       [{"t": "throttle", "count": 1, "block": True}, {"t": "retry", "max": 2, "sleep": 100}]):
            p = {"base": base, "workers": 2, "layers": [dict(l) for l in layers],
                 "subs": [{"S": 0, "script": ["V"], "dur": 100, "thread": 0, "nested": True, "wait": True}],
                 "shutdown": None, "horizon": 60000}
            for k in range(2 if quick else 8):
                tasks.append({"scen": "stack", "params": p, "strat": ["random", rng.randrange(10 ** 9), 0.5],
                              "gran": "line" if k % 2 else "sync", "lock_log": True,
                              "lock_key": "nb/%s/%s" % (base, ",".join(l["t"] for l in layers)),
                              "facts": {"base": base, "nested": True, "retry": any(l["t"] == "retry" for l in layers),
                                        "family": "nested_block"}})
    pairs = ck.run_and_validate(tasks, TRACE)
    # directed: shutdown(wait=True) at every point of a freshly woken worker-loop iteration (a lost wake-up ends in a
    # join that never returns)
    swept = c11.directed_shutdown_tasks(quick)
    for t in swept:
        t["facts"] = dict(t["facts"], nested=False, retry=t["facts"]["types"] == ["retry"], family="c11d")
    ck.run_and_validate(swept, TRACE, nontrivial=lambda t, r: True)
    # the lock programs of those executions, interleaved exhaustively by TLC (spec/LockCases.tla); candidate cycles
    # are steered towards in the real code and only a deadlock that really happens there is reported
    ck.lock_cycles(pairs, TRACE)
    # chains of derived futures: FutureChain.tla (NoDeadlock on every interleaving of cancel / completion / outside
    # cancellation / callback registration); its behaviours replayed in the code; random executions including the
    # combination that TLC shows to deadlock (D16: FutureChain.d16.cfg), whose lock programs go through LockCases too
    cpairs = chain.run(ck, quick, rng, d16=True)
    ck.lock_cycles(cpairs, chain.TRACE, patience=100)
    ck.assumptions += ["shutdown is called by a single thread", "every scripted callable terminates; horizon 60 s virtual"]
