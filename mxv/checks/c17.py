"""C17 - f_proxy is transparent for forwarded operations; f_nocancel shields cancel.

1. TLC model-checks spec/Proxy.tla (states of f x operation class x timeout x interleavings of callers, the
   owner of f and cancellers) against the contract spec/ProxyObs.tla, plus one seeded model bug that must be
   refuted (the model can see a forwarded cancel).
2. spec -> code: TLC simulation behaviours of Proxy.tla are replayed thread by thread in the real f_proxy /
   f_nocancel; the recorded history must equal the model's (drift is reported, never an alarm).
3. code -> spec: real executions judged clause by clause by TLC (ProxyObsTrace):
     table   every forwarded operation x every state of f, every non-forwarded operation on pending futures
     state   random cases: all states, timeouts, several callers / completers / cancellers per case, random and
             PCT schedules at sync and line granularity
     sweep   sampled differential testing of every forwarded operation over a seeded pool of operands across
             the builtin types (DESIGN.md section 7: the honest limit - Python operator semantics is not in TLA+)
"""
import random
import re

from .. import tlc
from ..scen import proxy as P

TRACE = "ProxyObsTrace"
NAMES = {"op": "op%d", "comp": "comp1", "can": "can%d", "obs": "main"}
NO_TMO = 99999
LIST_IDX = 33          # POOL[33] = [1, 2, 3]
_RE_HIST = re.compile(r'<<"(\w+)", (-?\d+), (-?\d+), (-?\d+), (-?\d+), (\d+)>>')

FUTURE_NAMES = {"cancel", "cancelled", "running", "done", "result", "exception", "add_done_callback",
                "set_running_or_notify_cancel", "set_result", "set_exception", "set_exception_info"}


def _wrapper_names():
    try:
        from more_executors.futures import f_proxy, f_return
        return set(dir(f_proxy(f_return(0)))) | FUTURE_NAMES
    except Exception:  # noqa
        return set(FUTURE_NAMES)


# ---------------------------------------------------------------------------------- spec -> code
def convert(beh):
    st0 = beh[0][1]
    F, W, T, D = (tlc.nums(st0[k])[0] for k in ("cfgF", "cfgW", "cfgT", "cfgD"))
    S, K, R, C = (tlc.nums(st0[k]) for k in ("cfgS", "cfgK", "cfgR", "cfgC"))
    case = {"id": 1, "kind": W, "state": F, "tmo": None if T == NO_TMO else T, "D": D, "val": LIST_IDX,
            "exc": "UserError", "callers": [], "cancels": []}
    if W == 1:
        for c in range(len(S)):
            if K[c] == 2:
                op = ["bool", []]
            elif R[c] == 1:
                op = ["len", []]                       # the operator answers
            else:
                op = ["getitem", [["lit", 7]]]         # the operator raises (IndexError) on the plain value too
            case["callers"].append({"name": "op%d" % (c + 1), "S": S[c], "ops": [op], "k": c + 1})
    else:
        for x in range(len(C)):
            case["cancels"].append({"name": "can%d" % (x + 1), "S": C[x], "n": 1})
    task = {"scen": "proxy", "params": {"cases": [case], "horizon": 2000, "visible": True},
            "strat": ["replay", tlc.schedule_of(beh, NAMES), ["sticky"], True], "gran": "sync",
            "facts": {"part": "replay"}}
    exp = [[a, int(b), int(c), int(d), int(e), int(f)] for a, b, c, d, e, f in _RE_HIST.findall(beh[-1][1]["hist"])]
    return task, exp


def project(trace):
    out = []
    for e in trace:
        ev = e["ev"]
        if ev in ("Cfg", "OpCall", "OpRet", "InputSet", "CancelCall", "CancelRet", "End"):
            out.append([ev, e["f"], e["k"], e["a"], e["b"], e["t"]])
        elif ev in ("DelegateState", "Observed") and e["s"] == "FINISHED":
            out.append([ev, e["f"], e["k"], e["a"], 7, e["t"]])     # 7 = the model's id of f's outcome object
    return out


# ---------------------------------------------------------------------------------- task generators
class Gen(object):
    def __init__(self, rng):
        self.rng = rng
        self.reserved = _wrapper_names()
        self.names = 0
        self.ops_seen = {}
        self.cells = set()

    def tname(self, prefix):
        self.names += 1
        return "%s%d" % (prefix, self.names)

    def attr_for(self, value):
        rng = self.rng
        own = [n for n in dir(value) if not n.startswith("_") and n not in self.reserved]
        # names with ONE leading underscore are forwarded like any other (namedtuple's API, "private" attributes)
        under = [n for n in dir(value) if n.startswith("_") and not n.startswith("__") and n not in self.reserved]
        if under and rng.random() < 0.35:
            return ["lit", rng.choice(under)]
        if own and rng.random() < 0.6:
            return ["lit", rng.choice(own)]
        return rng.choice(P.ATTR_IDX)

    def operands(self, opname, valspec):
        """Operand specs for one instance of opname on the value valspec (None: no harmless combination found)."""
        rng = self.rng
        value = P.make(valspec)
        n = P.op_arity(opname)
        for _ in range(20):
            specs = []
            if opname in ("getattr", "call", "call0"):
                specs.append(self.attr_for(value))
                if opname == "call":
                    specs.append(rng.choice(P.OPERAND_IDX))
            elif opname in ("dunder", "hasdunder"):
                specs.append(["lit", rng.choice(P.DUNDERS)])
            elif opname in ("getitem", "delitem", "setitem", "contains"):
                r = rng.random()
                if isinstance(value, dict) and value and r < 0.5:
                    specs.append(["lit", rng.choice([k for k in value if isinstance(k, (int, str))] or [0])])
                elif r < 0.6:
                    specs.append(["lit", rng.choice([0, 1, -1, 2, 5, "a", 2])])
                else:
                    specs.append(rng.choice(P.OPERAND_IDX))
                if opname == "setitem":
                    specs.append(rng.choice(P.OPERAND_IDX))
            else:
                for _i in range(n):
                    same = [i for i in P.OPERAND_IDX if P.POOL[i][0] == P.type_of(valspec)]
                    if same and rng.random() < 0.35:
                        specs.append(rng.choice(same))
                    elif rng.random() < 0.15:
                        specs.append(["lit", rng.choice([0, 1, 2, 3, -1, 10, 64])])
                    else:
                        specs.append(rng.choice(P.OPERAND_IDX))
            if P.harmless(opname, value, [P.make(s) for s in specs]):
                return specs
        return None

    def note(self, opname, valspec, specs, state):
        self.ops_seen[opname] = self.ops_seen.get(opname, 0) + 1
        self.cells.add((opname, P.type_of(valspec), tuple(P.type_of(s) for s in specs), state))

    def one_op(self, opname, valspec, state):
        specs = self.operands(opname, valspec)
        if specs is None:
            return None
        self.note(opname, valspec, specs, state)
        return [opname, specs]

    # ---- every forwarded operation x every state; every non-forwarded operation on pending futures
    def table_tasks(self):
        rng = self.rng
        cases = []
        for opname in sorted(P.FORWARDED):
            for state in (1, 2, 3, 4, 5):
                val = rng.choice(P.VALUE_IDX)
                op = self.one_op(opname, val, state)
                if op is None:
                    continue
                cases.append({"kind": 1, "state": state, "tmo": rng.choice([200, 500]) if state == 4 else
                              rng.choice([None, 500, 900]), "D": rng.choice([100, 300]), "val": val,
                              "exc": rng.choice(sorted(P.EXCS)),
                              "callers": [{"name": self.tname("op"), "S": rng.choice([0, 50]), "ops": [op]}]})
        for opname in sorted(P.NONFORWARDED):
            for state in (3, 4, 5, 1, 2):
                val = rng.choice(P.VALUE_IDX)
                op = self.one_op(opname, val, state)
                if op is None:
                    continue
                cases.append({"kind": 1, "state": state, "tmo": rng.choice([None, 200]), "D": 300, "val": val,
                              "exc": rng.choice(sorted(P.EXCS)),
                              "callers": [{"name": self.tname("op"), "S": rng.choice([0, 50, 299]), "ops": [op]}]})
        rng.shuffle(cases)
        tasks = []
        for i in range(0, len(cases), 10):
            part = cases[i:i + 10]
            for j, cs in enumerate(part):
                cs["id"] = j + 1
            tasks.append({"scen": "proxy", "params": {"cases": part, "horizon": 2000},
                          "strat": ["random", rng.randrange(10 ** 9), 0.6], "gran": "sync",
                          "facts": {"part": "table"}})
        return tasks

    # ---- random cases: the blocking / timeout / shield state machine under many schedules
    def state_task(self, i):
        rng = self.rng
        cases = []
        for cid in range(1, rng.choice([1, 2, 2, 3, 4]) + 1):
            kind = 2 if rng.random() < 0.3 else 1
            if rng.random() < 0.25:
                kind += 2       # wrappers of wrappers: f_nocancel(f_proxy(f)) / f_proxy(f_proxy(f), timeout)
            state = rng.choice([1, 2, 3, 3, 4, 5])
            if kind in (2, 3) and rng.random() < 0.3:
                state = 6       # f_nocancel only: the owner of f cancels it; the wrapper's cancel() must still say False
            cs = {"id": cid, "kind": kind, "state": state, "D": rng.choice([100, 300]),
                  "val": rng.choice(P.VALUE_IDX), "exc": rng.choice(sorted(P.EXCS)), "callers": [], "cancels": []}
            if kind in (2, 3):
                for _ in range(rng.choice([1, 2, 3])):
                    cs["cancels"].append({"name": self.tname("can"), "S": rng.choice([0, 99, 100, 300, 301, 500]),
                                          "n": rng.choice([1, 1, 2])})
                cases.append(cs)
                continue
            cs["tmo"] = rng.choice([0, 200, 200, 500]) if state == 4 else rng.choice([None, None, 0, 200, 500])
            ncall = rng.choice([1, 1, 2, 3])
            for _c in range(ncall):
                ops = []
                for _o in range(rng.choice([1, 2, 3, 4])):
                    if rng.random() < 0.4:
                        name = rng.choice(sorted(P.NONFORWARDED))
                    else:
                        name = rng.choice([n for n in sorted(P.FORWARDED) if n not in P.MUTATING])
                    op = self.one_op(name, cs["val"], state)
                    if op:
                        ops.append(op)
                cs["callers"].append({"name": self.tname("op"),
                                      "S": rng.choice([0, 0, 50, 99, 100, 299, 300, 301]), "ops": ops,
                                      "gap": rng.choice([None, None, 100])})
            cases.append(cs)
        strat = ["random", rng.randrange(10 ** 9), 0.6] if i % 4 else ["pct", rng.randrange(10 ** 9), 3, 250]
        return {"scen": "proxy", "params": {"cases": cases, "horizon": 3000}, "strat": strat,
                "gran": "line" if i % 5 == 0 else "sync", "facts": {"part": "state"}}

    # ---- sequences of reads and mutations of ONE result object through one proxy, compared with the same sequence on
    #      one plain copy (a proxy must not remember anything about the result between two operations)
    def twin_task(self, i):
        rng = self.rng
        mutable = [k for k in P.VALUE_IDX if P.POOL[k][0] in ("list", "dict", "set", "bytearray", "Box")]
        cases = []
        for cid in range(1, rng.choice([2, 3, 4]) + 1):
            boxes = [k for k in mutable if P.POOL[k][0] == "Box"]
            val = rng.choice(boxes) if rng.random() < 0.5 else rng.choice(mutable)
            state = rng.choice([1, 1, 3])
            value = P.make(val)
            reads = [n for n in dir(value) if not n.startswith("_") and n not in self.reserved]
            # attributes whose value changes when the object is mutated come first
            reads.sort(key=lambda n: (callable(getattr(type(value), n, None)) and not isinstance(getattr(type(value), n, None), property), n))
            ops = []
            watched = rng.choice(reads[:5]) if reads else None     # read again after every mutation
            for _o in range(rng.choice([3, 4, 5])):
                if watched:
                    op = ["getattr", [["lit", watched]]]
                    self.note("getattr", val, op[1], state)
                    ops.append(op)
                r = rng.random()
                if P.POOL[val][0] == "Box" and r < 0.6:
                    op = (["call", [["lit", "put"], rng.choice(P.OPERAND_IDX)]] if rng.random() < 0.5
                          else ["call", [["lit", "relabel"], rng.choice(P.OPERAND_IDX)]])
                    self.note("call", val, op[1], state)
                elif r < 0.85:
                    op = self.one_op(rng.choice(P.MUTATING), val, state)
                else:
                    op = self.one_op(rng.choice(["len", "iter", "contains", "getitem"]), val, state)
                if op:
                    ops.append(op)
            if watched:
                ops.append(["getattr", [["lit", watched]]])
            cases.append({"id": cid, "kind": rng.choice([1, 1, 4]), "state": state, "tmo": rng.choice([None, 900]),
                          "D": 100, "val": val, "twin": True,
                          "callers": [{"name": self.tname("op"), "S": rng.choice([0, 50]), "ops": ops}], "cancels": []})
        return {"scen": "proxy", "params": {"cases": cases, "horizon": 2000},
                "strat": ["random", rng.randrange(10 ** 9), 0.6], "gran": "sync", "facts": {"part": "twin"}}

    # ---- the operand sweep: one forwarded operation per task, many (value, operands) cells
    def sweep_task(self, opname, ncases):
        rng = self.rng
        cases = []
        while len(cases) < ncases:
            val = rng.choice(P.VALUE_IDX)
            state = 3 if rng.random() < 0.2 else 1
            op = self.one_op(opname, val, state)
            if op is None:
                continue
            cases.append({"id": len(cases) + 1, "kind": 1, "state": state, "tmo": rng.choice([None, 500]), "D": 100,
                          "val": val, "callers": [{"name": self.tname("op"), "S": 0, "ops": [op]}]})
        return {"scen": "proxy", "params": {"cases": cases, "horizon": 1000},
                "strat": ["random", rng.randrange(10 ** 9), 0.7], "gran": "sync",
                "facts": {"part": "sweep", "op": opname}}


def nontrivial(task, result):
    return any(e["ev"] in ("OpRet", "CancelRet") for e in result["trace"])


def run(ck):
    quick = ck.tier == "quick"
    rng = random.Random(ck.seed)
    # 1. the state machine satisfies every clause of the contract on every interleaving
    ck.mc("Proxy", "Proxy.mc.cfg", timeout=600)
    r = tlc.model_check("Proxy", "Proxy.mc.cfg", workers=16, timeout=600,
                        constants_override={"Bug": '"forward_cancel"'})
    last = r["trace"][-1][1].get("viol") if r.get("trace") else None
    ck.witnesses["model_bug_forward_cancel_refuted_by"] = last
    if r["violated"] != "ContractHolds" or last != '"C17_NoCancelShield"':
        ck.machinery_errors.append("negative control: Proxy.tla with Bug=forward_cancel was not refuted by "
                                   "C17_NoCancelShield (%s / %s)" % (r["violated"], last))
    # 2. spec -> code
    behs = tlc.simulate_behaviours("Proxy", "Proxy.sim.cfg", 80 if quick else 1500, 40, ck.seed + 1, timeout=900)
    ck.replay_behaviours(behs, convert, project, TRACE)
    # 3. code -> spec
    g = Gen(rng)
    tasks = g.table_tasks()
    for i in range(350 if quick else 6000):
        tasks.append(g.state_task(i))
    for i in range(120 if quick else 2500):
        tasks.append(g.twin_task(i))
    ops = sorted(P.FORWARDED)
    for i in range(len(ops) * (12 if quick else 150)):
        tasks.append(g.sweep_task(ops[i % len(ops)], 24))
    pairs = ck.run_and_validate(tasks, TRACE, nontrivial=nontrivial)
    # a crash of a harness thread (caller / owner / canceller) is a defect of this check, never a verdict
    crashed = [(t["facts"], r["thread_excs"]) for (t, r), _v in pairs if r.get("thread_excs")]
    if crashed:
        ck.machinery_errors.append("harness threads crashed in %d executions, e.g. %s" % (len(crashed), crashed[:2]))
    cut = [(t["facts"], r["outcome"], r["steps"]) for (t, r), _v in pairs if r.get("outcome") != "finished"]
    if cut:
        ck.machinery_errors.append("%d executions did not run to their End event, e.g. %s" % (len(cut), cut[:2]))
    ck.notes["rule"] = ("one evaluation = one execution of the real library under the controlled scheduler holding "
                        "1-24 independent cases (input future + f_proxy / f_nocancel wrapper + operations), validated "
                        "by TLC against ProxyObs; distinct = distinct (scenario, projected trace) pairs; non-trivial = "
                        "at least one operation or cancel() was applied to a wrapper")
    ck.notes["operation_instances"] = sum(g.ops_seen.values())
    ck.notes["operation_instances_per_op"] = dict(sorted(g.ops_seen.items()))
    ck.notes["distinct_cells_op_valuetype_operandtypes_state"] = len(g.cells)
    ck.notes["forwarded_operations"] = sorted(P.FORWARDED)
    ck.notes["non_forwarded_operations"] = sorted(P.NONFORWARDED)
    ck.notes["operand_pool_size"] = len(P.POOL)
    missing = [n for n in list(P.FORWARDED) + list(P.NONFORWARDED) if not g.ops_seen.get(n)]
    if missing:
        ck.machinery_errors.append("operations never exercised: %s" % missing)
    ck.assumptions += [
        "value transparency ('same value or same exception type for all operand values') is Python operator "
        "semantics, outside TLA+: decided by SAMPLED differential testing - the harness applies each forwarded "
        "operation to the wrapper and to a plain copy of the value over a seeded operand pool and records the "
        "comparison code; the TLA+ contract asserts the codes (DESIGN.md section 7)",
        "equality of outcomes = equal type and equal printable normal form (iterators are drained, bound methods "
        "compared by name and receiver, mutating operations also compare the value left inside the future)",
        "operand combinations whose plain evaluation is astronomically expensive (10**20 ** 10**20) are skipped",
        "virtual time: timers fire one tick late; SLACK = 2 ticks for a timed result() wait",
        "interleavings at synchronisation operations (sync) or source lines of more_executors (line)",
    ]
