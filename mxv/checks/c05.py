"""C05 - Retry: exact attempt accounting, sequential attempts, exact back-off."""
import random
import re

from .. import tlc

TRACE = "RetryObsTrace"
NAMES = {"sub": "sub%d", "can": "can%d", "cab": "cab%d", "loop": "RetryExecutor-r", "obs": "main"}
POLICY = {"kind": "exc", "max_attempts": 3, "sleep": 100, "exponent": 2, "max_sleep": 150}


def scripts_of(txt):
    # cfgScript = <<<<"E", "V">>, <<"V">>>>   or  (1 :> <<..>> @@ ...) for one job it prints <<<<"V">>>>
    return [re.findall(r'"(\w)"', grp) for grp in re.findall(r"<<((?:\"\w\"(?:, )?)+)>>", txt)]


def convert(beh, policy=POLICY, dur=300):
    st0 = beh[0][1]
    scripts = scripts_of(st0["cfgScript"])
    S, K, K2, C = tlc.nums(st0["cfgS"]), tlc.nums(st0["cfgK"]), tlc.nums(st0["cfgK2"]), tlc.bools(st0["cfgC"])
    jobs = [{"script": scripts[i], "S": S[i], "K": K[i] if K[i] < 90000 else None,
             "K2": K2[i] if K2[i] < 90000 else None, "C": C[i]} for i in range(len(S))]
    sched = []
    for act, st in beh[1:]:
        m = re.match(r'<<"([\w-]+)", (\d+)>>', st["actor"].strip())
        kind, n = m.group(1), int(m.group(2))
        if kind in ("tick", "-"):
            continue
        if kind == "env":
            a = tlc.nums(st["att"])[n - 1]
            sched.append("env%d" % n if a <= 1 else "env%d_%d" % (n, a))
        else:
            nm = NAMES[kind]
            sched.append(nm % n if "%d" in nm else nm)
    task = {"scen": "retry", "params": {"flavour": "manual", "policy": policy, "jobs": jobs, "dur": dur,
                                        "horizon": 2000, "visible": True},
            "strat": ["replay", sched, ["sticky"], True], "gran": "sync",
            "facts": {"cancels": sum(1 for jb in jobs for k in ("K", "K2") if jb[k] is not None)}}
    return task, tlc.hist(beh[-1][1]["hist"])


KEEP = ("SubmitCall", "SubmitRet", "Invoke", "InvokeEnd", "ShouldRetry", "SleepTime", "CancelCall", "CancelRet",
        "CancelRaise", "End")


def project(trace):
    out = []
    for e in trace:
        ev = e["ev"]
        if ev in KEEP:
            out.append([ev, e["f"], e["t"]])
        elif ev == "DelegateSubmit" and e["s"] == "tap":
            out.append([ev, e["f"], e["t"]])
        elif ev == "DelegateState" and e["s"] in ("FINISHED", "CANCELLED"):
            out.append([ev, e["f"], e["t"]])
        elif ev == "Observed" and e["s"] in ("FINISHED", "CANCELLED_AND_NOTIFIED"):
            out.append([ev, e["f"], e["t"]])
        elif ev == "ThreadExit" and e["a"] == 1:
            out.append([ev, -1, e["t"]])
    return out


def gen(rng, i, cancels=True):
    n = rng.choice([1, 1, 2, 3])
    if rng.random() < 0.7:
        # (falsy parameters are values like any other: a zero back-off, a zero cap, no attempts at all)
        pol = {"kind": "exc", "max_attempts": rng.choice([1, 2, 3, 3, 4, 0]), "sleep": rng.choice([100, 250, 100, 0]),
               "exponent": rng.choice([1, 2, 3, 0]), "max_sleep": rng.choice([150, 400, 120000, 0])}
    else:
        dec = []
        for _ in range(rng.choice([1, 2, 3])):
            dec.append([rng.choice([1, 1, 1, 0, "raise"]), rng.choice([100, 100, 250, 0, "raise"])])
        dec.append([0, 100])
        pol = {"kind": "custom", "decisions": dec}
    jobs = []
    for _ in range(n):
        script = [rng.choice(["V", "E", "E", "E", "F", "B"]) for _ in range(rng.choice([1, 2, 3, 4]))]
        jb = {"script": script, "S": rng.choice([0, 0, 100]), "C": rng.random() < 0.5, "cb": rng.random() < 0.5}
        if cancels and rng.random() < 0.5:
            jb["K"] = rng.choice([0, 150, 300, 300, 350, 400, 401, 700])
            if rng.random() < 0.4:
                jb["K2"] = rng.choice([300, 400, 401, 402, 700])
            if rng.random() < 0.25:
                jb["cancel_in_policy"] = rng.choice([1, 2])
        if rng.random() < 0.2:
            jb["probe"] = [rng.choice([0, 150, 300, 350, 400, 401]), rng.choice([1, 2, 3]), rng.choice([0, 50, 100])]
        jobs.append(jb)
    if rng.random() < 0.25 and pol["kind"] == "exc":
        # several submissions ending their attempts at the same instant with different back-offs (per-call policies):
        # a wake-up lost while the submit thread goes to sleep for the longer one delays the shorter one
        n = rng.choice([2, 3])
        jobs = []
        for j in range(n):
            jobs.append({"script": ["E", "E", "V"], "S": 0, "C": False,
                         "percall": {"kind": "exc", "max_attempts": 3, "sleep": [100, 250, 400][j % 3], "exponent": 1,
                                     "max_sleep": 120000}})
        rng.shuffle(jobs)
    fl = ["manual", "pool", "manual", "sync"][i % 4]
    if any(jb.get("percall") for jb in jobs) and fl == "sync":
        fl = "manual"
    if fl == "sync" and any("B" in jb["script"] for jb in jobs):
        # a BaseException-only outcome over a synchronous delegate propagates out of submit() like out of a direct
        # call (SyncExecutor mirrors `except Exception`): only delegates that record such outcomes are in scope
        fl = "pool"
    return {"flavour": fl, "policy": pol, "jobs": jobs, "dur": 300, "horizon": 4000, "workers": rng.choice([1, 2, 3])}


def facts_of(p):
    return {"flavour": p["flavour"],
            "cancels": sum(1 for jb in p["jobs"] for k in ("K", "K2", "cancel_in_policy") if jb.get(k) is not None),
            "cancel_in_policy": any(jb.get("cancel_in_policy") for jb in p["jobs"])}


def stopped_tasks(quick):
    """Retries stopped by a refused cancel() (arriving while the policy is being consulted) while another submission
    waits for an EARLIER retry time: the stopped one is finalised at once, not when the other one's back-off ends."""
    swept = []
    for s_stop, s_other in ((100, 0), (0, 100), (50, 0)):
        for fl in ("manual", "pool"):
            ps = {"flavour": fl, "policy": {"kind": "exc", "max_attempts": 3, "sleep": 400, "exponent": 1, "max_sleep": 400},
                  "jobs": [{"script": ["E", "E", "V"], "S": s_other, "C": False},
                           {"script": ["E", "V"], "S": s_stop, "C": False, "cancel_in_policy": 1}],
                  "dur": 300, "horizon": 4000, "workers": 2}
            for k in range(2 if quick else 12):
                swept.append({"scen": "retry", "params": ps, "strat": ["random", 11 + k, 0.6],
                              "gran": "line" if k % 2 else "sync", "facts": facts_of(ps)})
    # ... and a SECOND cancel() at the very instant the retry thread deals with the stopped job (it has picked it and is
    # about to resolve the future with the outcome of the last attempt): the cancel lands at every point of that handling
    for fl in ("manual", "pool"):
        p2 = {"flavour": fl, "policy": {"kind": "exc", "max_attempts": 3, "sleep": 400, "exponent": 1, "max_sleep": 400},
              "jobs": [{"script": ["E", "V"], "S": 0, "C": False, "cancel_in_policy": 1, "K2": 300}],
              "dur": 300, "horizon": 3000, "workers": 1}
        for n in range(1, 80, 2 if quick else 1):
            swept.append({"scen": "retry", "params": p2,
                          "strat": ["phases", [["RetryExecutor-r", n, 300], ["cab1", 10000], ["RetryExecutor-r", 10000]]],
                          "gran": "line", "facts": dict(facts_of(p2), directed=True)})
    # ... and a client asking running() while the future is cancelled between two retries (bytecode granularity: the
    # query reads the future's delegate more than once)
    for fl in ("manual",):
        p3 = {"flavour": fl, "policy": {"kind": "exc", "max_attempts": 3, "sleep": 400, "exponent": 1, "max_sleep": 400},
              "jobs": [{"script": ["E", "V"], "S": 0, "C": False, "K": 500, "probe": [500, 2, 0]}],
              "dur": 300, "horizon": 3000, "workers": 1}
        for n in range(1, 90, 2 if quick else 1):
            for a, b in (("probe1", "can1"), ("can1", "probe1")):
                swept.append({"scen": "retry", "params": p3,
                              "strat": ["phases", [[a, n, 500], [b, 10000], [a, 10000]]],
                              "gran": "instr", "facts": dict(facts_of(p3), directed=True)})
    return swept


def run(ck, cancels=False):
    quick = ck.tier == "quick"
    rng = random.Random(ck.seed + (17 if cancels else 0))
    ck.mc("Retry", "Retry.mc.cfg", timeout=3000)
    if not quick:
        ck.mc("Retry", "Retry.mc2.cfg", timeout=3000)
    behs = tlc.simulate_behaviours("Retry", "Retry.sim.cfg", 60 if quick else 600, 150, ck.seed + 1, timeout=900)
    ck.replay_behaviours(behs, convert, project, TRACE)
    tasks = []
    n = 600 if quick else 12000
    for i in range(n):
        p = gen(rng, i, cancels=cancels or i % 3 == 0)
        strat = ["random", rng.randrange(10 ** 9), 0.6] if i % 4 else ["pct", rng.randrange(10 ** 9), 3, 300]
        tasks.append({"scen": "retry", "params": p, "strat": strat, "gran": "line" if i % 5 == 0 else "sync",
                      "facts": facts_of(p)})
    ck.run_and_validate(tasks, TRACE)
    # directed two-preemption sweeps: two submissions whose attempts end at the same instant with different
    # back-offs, against each other and against the submit thread's scan / wait
    from .. import core as _core
    pp = {"flavour": "manual", "policy": POLICY,
          "jobs": [{"script": ["E", "E", "V"], "S": 0, "C": False,
                    "percall": {"kind": "exc", "max_attempts": 3, "sleep": 400, "exponent": 1, "max_sleep": 120000}},
                   {"script": ["E", "E", "V"], "S": 0, "C": False,
                    "percall": {"kind": "exc", "max_attempts": 3, "sleep": 100, "exponent": 1, "max_sleep": 120000}}],
          "dur": 300, "horizon": 4000}
    swept = _core.phase_tasks("retry", pp, [("RetryExecutor-r", "env2"), ("env2", "RetryExecutor-r")],
                              range(1, 60, 5 if quick else 1), range(1, 40, 6 if quick else 1), facts=facts_of(pp),
                              prefix=[["env1", 10000]])
    swept += _core.phase_tasks("retry", pp, [("env1", "env2"), ("env2", "env1")],
                               range(1, 50, 6 if quick else 1), range(1, 40, 7 if quick else 1), facts=facts_of(pp))
    # a policy that retries on VALUES, cancelled around the end of an attempt: the stopped job is finalised with the
    # outcome of its last attempt, whatever kind of outcome that was
    pv = {"flavour": "manual", "policy": {"kind": "custom", "decisions": [[1, 100], [1, 100], [0, 100]]},
          "jobs": [{"script": ["V", "V", "V"], "S": 0, "K": 300, "C": False}], "dur": 300, "horizon": 2500}
    swept += _core.phase_tasks("retry", pv, [("env1", "can1"), ("can1", "env1")], range(1, 70, 2 if quick else 1),
                               [10000] if quick else [10000, 5, 15], facts=facts_of(pv))
    # a delegate completion that looks its submission up while an earlier submission is being removed
    pq = {"flavour": "manual", "policy": POLICY,
          "jobs": [{"script": ["V"], "S": 0, "C": False}, {"script": ["E", "V"], "S": 0, "C": False},
                   {"script": ["E", "V"], "S": 0, "C": False}],
          "dur": 300, "horizon": 4000}
    swept += _core.phase_tasks("retry", pq, [("env2", "env1"), ("env3", "env1")],
                               range(1, 30 if quick else 60), [100, 300] if quick else range(10, 310, 10),
                               facts=facts_of(pq))
    # long runs of zero-delay retries over a synchronous delegate (every attempt completes inside submit()): the
    # attempts stay sequential - and the stack flat - however many there are
    for nfail in ((350,) if quick else (350, 600, 900)):
        pz = {"flavour": "sync", "policy": {"kind": "exc", "max_attempts": nfail + 50, "sleep": 0, "exponent": 1, "max_sleep": 0},
              "jobs": [{"script": ["E"] * nfail + ["V"], "S": 0, "C": False}], "dur": 0, "horizon": 4000}
        swept.append({"scen": "retry", "params": pz, "strat": ["random", 1, 0.6], "gran": "sync", "facts": facts_of(pz),
                      "opts": {"max_steps": 40 * nfail + 2000}})
    swept += stopped_tasks(quick)
    # back-offs of a fraction of a tick, and a long geometric back-off with an exponent close to 1 (66+ attempts)
    for pol, nfail in (({"kind": "exc", "max_attempts": 5, "sleep": 0.5, "exponent": 2, "max_sleep": 3}, 4),
                       ({"kind": "exc", "max_attempts": 6, "sleep": 0.25, "exponent": 1.5, "max_sleep": 1000}, 5),
                       ({"kind": "exc", "max_attempts": 80, "sleep": 0.5, "exponent": 1.1, "max_sleep": 5000}, 75)):
        for fl in ("manual", "pool"):
            pf = {"flavour": fl, "policy": pol, "jobs": [{"script": ["E"] * nfail + ["V"], "S": 0, "C": False}], "dur": 10,
                  "horizon": 12000}
            swept.append({"scen": "retry", "params": pf, "strat": ["random", 7, 0.6], "gran": "sync", "facts": facts_of(pf),
                          "opts": {"max_steps": 60000}})
    ck.run_and_validate(swept, TRACE, nontrivial=lambda t, r: True)
    ck.assumptions += [
        "back-off arithmetic in integer ticks (1 ms); attempt end = InvokeEnd; SLACK = 3 ticks",
        "policy calls observed through a recording subclass of ExceptionRetryPolicy / a scripted RetryPolicy",
    ]
