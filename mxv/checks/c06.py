"""C06 - Cancel: True means the work never starts; it stops retries; it propagates."""
import random

from .. import tlc
from . import c05, c07

TRACE = "CancelObsTrace"
LAYERS = [
    {"t": "map", "fn": "tag"}, {"t": "map", "efn": "tag"}, {"t": "flat_map", "fn": "tag"},
    {"t": "flat_map", "fn": "later"}, {"t": "flat_map", "fn": "later", "fn_dur": 30},
    {"t": "retry", "max": 3, "sleep": 200}, {"t": "retry", "max": 2, "sleep": 100}, {"t": "poll", "mode": "second"},
    {"t": "throttle", "count": 1}, {"t": "throttle", "count": 2}, {"t": "timeout", "T": 100000}, {"t": "cos"},
]


def gen(rng, i):
    depth = rng.choice([1, 1, 2, 2, 3, 4])
    layers = [dict(rng.choice(LAYERS)) for _ in range(depth)]
    if i % 6 == 0:
        # retry layers on top of each other (possibly with other layers between): a cancel that arrives while the
        # INNER layer is between two attempts must still reach it
        mid = [dict(rng.choice(LAYERS)) for _ in range(rng.choice([0, 1, 1, 2]))]
        layers = [{"t": "retry", "max": 3, "sleep": rng.choice([200, 400])}] + mid + \
                 [{"t": "retry", "max": rng.choice([2, 3]), "sleep": 100}]
    n = rng.choice([1, 2, 3])
    subs = []
    for j in range(n):
        dur = rng.choice([0, 50, 150, 150])
        ks = sorted(rng.sample([0, 1, 10, 49, 50, 51, 60, 100, 149, 150, 151, 160, 170, 200, 250, 351, 400, 700], rng.choice([1, 1, 2, 3])))
        subs.append({"S": rng.choice([0, 0, 10]), "script": rng.choice([["V"], ["E", "V"], ["E", "E", "E"], ["E", "F"]]),
                     "dur": dur, "thread": j % rng.choice([1, 2]), "K": ks, "cb": rng.random() < 0.3})
    return {"base": rng.choice(["pool", "pool", "sync"]), "workers": rng.choice([1, 1, 2]), "layers": layers, "subs": subs,
            "horizon": 40000}


def run(ck):
    quick = ck.tier == "quick"
    rng = random.Random(ck.seed)
    # the retry and throttle models carry cancellers; their contracts contain the C06 clauses
    ck.mc("Retry", "Retry.mc.cfg", timeout=3000)
    ck.mc("Throttle", "Throttle.mc.cfg", timeout=3000)
    behs = tlc.simulate_behaviours("Retry", "Retry.sim.cfg", 40 if quick else 400, 150, ck.seed + 7, timeout=900)
    ck.replay_behaviours(behs, c05.convert, c05.project, c05.TRACE)
    # retry scenarios with cancels (also from inside the policy) judged by RetryObs
    tasks = []
    for i in range(300 if quick else 6000):
        p = c05.gen(rng, i, cancels=True)
        tasks.append({"scen": "retry", "params": p, "strat": ["random", rng.randrange(10 ** 9), 0.6],
                      "gran": "line" if i % 5 == 0 else "sync", "facts": c05.facts_of(p)})
    ck.run_and_validate(tasks, c05.TRACE)
    # generic stacks with cancels at many points of the futures' lives judged by CancelObs
    tasks = []
    for i in range(600 if quick else 12000):
        p = gen(rng, i)
        strat = ["random", rng.randrange(10 ** 9), 0.5] if i % 4 else ["pct", rng.randrange(10 ** 9), 3, 300]
        tasks.append({"scen": "stack", "params": p, "strat": strat, "gran": "line" if i % 5 == 0 else "sync",
                      "facts": {"types": sorted(set(l["t"] for l in p["layers"]))}})
    ck.run_and_validate(tasks, TRACE)
    # directed schedules with two preemptions (line granularity) around the hand-over / attempt-end / discard windows
    rp = {"flavour": "manual", "policy": {"kind": "exc", "max_attempts": 3, "sleep": 100, "exponent": 1, "max_sleep": 1000},
          "jobs": [{"script": ["E", "E", "V"], "S": 0, "K": 300, "K2": 300, "C": False}], "dur": 300, "horizon": 2500}
    tp = {"flavour": "manual", "count": 1, "block": False,
          "jobs": [{"S": 0, "D": 300, "K": None, "C": False}, {"S": 0, "D": 300, "K": 300, "C": True}], "horizon": 2500}
    tasks_r, tasks_t = [], []
    ns = range(2, 70, 4 if quick else 1)
    ms = range(2, 40, 5 if quick else 1)
    for a, b in (("env1", "can1"), ("can1", "env1"), ("RetryExecutor-r", "can1"), ("can1", "RetryExecutor-r"), ("can1", "cab1")):
        for n in ns:
            for m in ms:
                tasks_r.append({"scen": "retry", "params": rp, "strat": ["phases", [[a, n], [b, m], [a, 10000]]],
                                "gran": "line", "facts": c05.facts_of(rp)})
    for a, b in (("env1", "can2"), ("can2", "env1"), ("ThrottleExecutor-t", "can2"), ("can2", "ThrottleExecutor-t")):
        for n in ns:
            for m in ms:
                tasks_t.append({"scen": "throttle", "params": tp, "strat": ["phases", [[a, n], [b, m], [a, 10000]]],
                                "gran": "line", "facts": {"block": False}})
    ck.run_and_validate(tasks_r, c05.TRACE, nontrivial=lambda t, r: True)
    ck.run_and_validate(tasks_t, c07.TRACE, nontrivial=lambda t, r: True)
    if not quick:
        # the repository's own test suite (real threads, real time) recorded through class-level wrappers and validated
        # by TLC against spec/ApiObs.tla (order-only clauses)
        from .. import suitecheck
        suitecheck.run(ck, ("C06_",))
    ck.assumptions += ["a start between CancelCall and CancelRet is not judged (the statement says 'afterwards')",
                       "forwarding is demanded for every inner future that was live when cancel() was issued and did not finish by itself meanwhile"]
