"""Shared by C02 / C04 / C03 / C06: the chain-of-futures model (spec/FutureChain.tla) bound to the real f_map chains
(scenario mxv/scen/chain.py): spec -> code replay of TLC behaviours and code -> spec validation against ChainObs."""
import re

from .. import tlc

TRACE = "ChainObsTrace"
NAMES = {"can": "can%d", "comp": "comp", "xcan": "xcan", "add": "add", "fin": None}
CODES = {"PENDING": 0, "RUNNING": 1, "CANCELLED": 2, "CANCELLED_AND_NOTIFIED": 3, "FINISHED": 4}


def converter(n, ncan):
    def convert(beh):
        st0 = beh[0][1]
        x = tlc.nums(st0["cfgX"])[0]
        p = {"n": n, "comp": re.findall(r'"(\w+)"', st0["cfgComp"])[0], "ncan": ncan, "xcan": x if x < 90 else None,
             "add": tlc.bools(st0["cfgAdd"])[0], "recancel": tlc.bools(st0["cfgRe"])[0], "visible": True, "horizon": 500}
        sched = []
        for s in beh[1:]:
            m = re.match(r'<<"([\w-]+)", (\d+)>>', s[1]["actor"].strip())
            kind, k = m.group(1), int(m.group(2))
            nm = NAMES.get(kind)
            if nm:
                sched.append(nm % k if "%d" in nm else nm)
        return ({"scen": "chain", "params": p, "strat": ["replay", sched, ["sticky"], True], "gran": "sync",
                 "facts": facts_of(p)}, tlc.hist(beh[-1][1]["hist"]))
    return convert


def facts_of(p):
    return {"recancel": bool(p.get("recancel")), "xcan_mid": p.get("xcan") is not None and p.get("xcan") >= 1,
            "n": p.get("n")}


def project(trace):
    out = []
    for e in trace:
        ev = e["ev"]
        if ev == "Observed":
            out.append([ev, e["f"], CODES.get(e["s"], 9)])
        elif ev == "CancelRet":
            out.append([ev, e["f"], e["a"]])
        elif ev in ("Callback", "AddCbRet", "AddCbCall") :
            if ev == "AddCbCall" and e["thr"] == "main":
                continue
            out.append([ev, e["f"], e["k"]])
        elif ev in ("CancelCall", "CancelRaise"):
            out.append([ev, e["f"], 0])
        elif ev in ("Cfg", "End"):
            out.append([ev, 0, 0])
    return out


def gen(rng, i, d16=False):
    """d16=False: never both a re-entering callback on the base and somebody cancelling the middle of the chain (that
    combination is the lock-order inversion D16, judged under C04)."""
    n = rng.choice([1, 2, 2, 3, 4])
    p = _gen(rng, n)
    while not d16 and p["recancel"] and p["xcan"] is not None and p["xcan"] >= 1:
        p = _gen(rng, n)
    return p


def _gen(rng, n):
    return {"n": n, "comp": rng.choice(["value", "value", "never", "exc"]), "ncan": rng.choice([0, 1, 1, 2]),
            "xcan": rng.choice([None, None, 0] + list(range(1, n))), "add": rng.random() < 0.5,
            "recancel": rng.random() < 0.3, "horizon": 500,
            "start": {nm: rng.choice([0, 0, 0, 1]) for nm in ("can1", "can2", "comp", "xcan", "add")}}


def run(ck, quick, rng, mc=True, d16=False):
    if mc:
        ck.mc("FutureChain", "FutureChain.mc.cfg", timeout=1500)     # re-entrant cancel from a callback of the base
        ck.mc("FutureChain", "FutureChain.mc2.cfg", timeout=1500)    # somebody cancels the middle of the chain
        ck.mc("FutureChain", "FutureChain.mc3.cfg", timeout=1500)    # three layers
        ck.mc("FutureChain", "FutureChain.mc4.cfg", timeout=1500)    # three layers, two cancellers
        if not quick:
            ck.mc("FutureChain", "FutureChain.mc5.cfg", timeout=3000)    # four layers
    for cfg, n, ncan in (("FutureChain.sim.cfg", 2, 2), ("FutureChain.sim2.cfg", 2, 2), ("FutureChain.sim3.cfg", 3, 2)):
        behs = tlc.simulate_behaviours("FutureChain", cfg, 40 if quick else 400, 80, ck.seed + 11, timeout=900)
        ck.replay_behaviours(behs, converter(n, ncan), project, TRACE)
    tasks = []
    for i in range(300 if quick else 6000):
        p = gen(rng, i, d16=d16)
        strat = ["random", rng.randrange(10 ** 9), 0.5] if i % 3 else ["pct", rng.randrange(10 ** 9), 3, 100]
        tasks.append({"scen": "chain", "params": p, "strat": strat, "gran": "line" if i % 3 == 0 else "sync",
                      "lock_log": True, "lock_key": "chain/%d/%s/%s" % (p["n"], p["recancel"], p["xcan"]),
                      "facts": facts_of(p)})
    return ck.run_and_validate(tasks, TRACE)
