"""C03 - No future is lost: once its underlying work is finished, the future finishes."""
import random

from . import c05, c07, c08, c09, c01

TRACE = "LostObsTrace"


def gen(rng, i, single):
    kinds_all = sorted(k for k in c01.KINDS if k not in ("map_raise",))
    depth = rng.choice([1, 2, 2, 3, 4])
    kinds = [rng.choice(kinds_all) for _ in range(depth)]
    layers = [dict(c01.KINDS[k]) for k in kinds]
    if rng.random() < 0.3:
        # a retry policy that raises (from should_retry or from sleep_time): the future must still end
        layers.insert(rng.randrange(len(layers) + 1),
                      {"t": "retry", "max": 3, "sleep": 100, "policy": rng.choice(["raise_should", "raise_sleep"])})
    n = 1 if single else rng.choice([2, 3, 4])
    subs = []
    for j in range(n):
        sb = {"S": rng.choice([0, 10, 100]), "script": rng.choice([["V"], ["E", "V"], ["E", "E", "E"], ["F"], ["E", "F"]]),
              "dur": rng.choice([0, 50, 150]), "thread": j % rng.choice([1, 2, 3]), "cb": rng.random() < 0.2}
        if not single and rng.random() < 0.35 and depth >= 1:
            sb["xcancel"] = {"tap": rng.randint(1, depth), "at": rng.choice([0, 1, 20, 60, 120, 160, 260])}
        subs.append(sb)
    if not single and rng.random() < 0.2:
        # a cancel() of the outer future is refused (the poll layer's cancel function vetoes it), later somebody else
        # cancels the polled future itself (now the cancel function agrees): the outer future must still end
        top = [dict(rng.choice([{"t": "map", "fn": "tag"}, {"t": "timeout", "T": 10 ** 6}, {"t": "throttle", "count": 2}]))
               for _ in range(rng.choice([1, 2]))]
        layers = [{"t": "poll", "mode": "never", "cancel_fn": "false_then_true"}] + top
        subs = [{"S": 0, "script": ["V"], "dur": 50, "thread": 0, "K": [300], "xcancel": {"tap": 2, "at": 600}}]
    return {"base": "pool" if single else rng.choice(["pool", "pool", "sync"]), "workers": rng.choice([1, 2, 3]),
            "layers": layers, "subs": subs, "horizon": 60000}


def run(ck):
    quick = ck.tier == "quick"
    rng = random.Random(ck.seed)
    ck.allow_truncation = True   # blocking / spinning paths may exhaust the step budget under unfair schedules
    # the wake-up protocols: lost wake-ups are states of the models (Stuck / NoLostWakeup / PromptPoll / AtDeadline)
    ck.mc("Retry", "Retry.mc.cfg", timeout=3000)
    ck.mc("Retry", "Retry.mc3.cfg", timeout=3000)       # two submissions, a cancel at the end of an attempt: the stopped
    #                                                     job is finalised at once whatever the other one waits for
    ck.mc("Timeout", "Timeout.mc.cfg", timeout=3000)
    ck.mc("Poll", "Poll.mc.cfg", timeout=3000)
    ck.mc("WorkerLoop", "WorkerLoop.mc.cfg", timeout=3000)
    # stacks: everything finishes, external cancels end the dependent future, nothing waits for a fallback timer
    tasks = []
    for i in range(700 if quick else 14000):
        p = gen(rng, i, single=(i % 2 == 0))
        strat = ["random", rng.randrange(10 ** 9), 0.5] if i % 4 else ["pct", rng.randrange(10 ** 9), 3, 300]
        tasks.append({"scen": "stack", "params": p, "strat": strat, "gran": "line" if i % 6 == 0 else "sync",
                      "facts": {"xcancel": any(s.get("xcancel") for s in p["subs"]),
                                "types": sorted(set(l["t"] for l in p["layers"]))}})
    ck.run_and_validate(tasks, TRACE)
    # the components' own promptness clauses on their own scenario families (producer step x worker step)
    for mod, scen, trace, n in ((c09, "timeout", c09.TRACE, 150), (c08, "poll", c08.TRACE, 150)):
        tasks = []
        for i in range(n if quick else n * 20):
            p = mod.gen(rng, i) if scen == "poll" else {"flavour": ["manual", "pool", "ftimeout"][i % 3],
                                                         "jobs": mod.gen_jobs(rng, rng.choice([1, 2, 3])), "horizon": 8000}
            if scen == "timeout" and p["flavour"] == "ftimeout":
                for jb in p["jobs"]:
                    jb["percall"] = True
            tasks.append({"scen": scen, "params": p, "strat": ["pct", rng.randrange(10 ** 9), 3, 200],
                          "gran": "line" if i % 3 == 0 else "sync", "facts": {}})
        ck.run_and_validate(tasks, trace)
    # retries stopped by a refused cancel while another submission's earlier back-off is pending: finalised at once
    ck.run_and_validate(c05.stopped_tasks(quick), c05.TRACE, nontrivial=lambda t, r: True)
    # placement sweep: every producer-side state change lands at every step index of the worker's
    # check / wait / clear sequence (sync granularity) and at a dense sample of source lines (line granularity)
    fixed = [
        ("timeout", c09.TRACE, {"flavour": "manual", "jobs": [{"T": 1000, "S": 0, "D": 400, "C": True},
                                                              {"T": 300, "S": 100, "D": 0, "C": True}], "horizon": 3000},
         ["sub1", "sub2", "env1"]),
        ("throttle", c07.TRACE, {"flavour": "manual", "count": 1, "block": False,
                                 "jobs": [{"S": 0, "D": 300, "K": None, "C": False}, {"S": 0, "D": 300, "K": 150, "C": False},
                                          {"S": 100, "D": 200, "K": None, "C": False}], "horizon": 2500},
         ["sub2", "sub3", "env1", "can2"]),
        ("retry", c05.TRACE, {"flavour": "manual", "policy": {"kind": "exc", "max_attempts": 3, "sleep": 100, "exponent": 2,
                                                              "max_sleep": 150},
                              "jobs": [{"script": ["E", "V"], "S": 0, "K": None, "C": False},
                                       {"script": ["E", "E", "E"], "S": 50, "K": 420, "C": False}], "dur": 300, "horizon": 3000},
         ["sub2", "env1", "env2", "env1_2", "can2"]),
        ("poll", c08.TRACE, {"flavour": "manual", "jobs": [{"S": 0, "D": 200, "y": 2, "K": None}, {"S": 100, "D": 200, "y": 1, "K": 320}],
                             "cancel_fn": None, "poll_raise": 0, "poll_dur": 0, "notify": [260], "interval": 500, "horizon": 3000},
         ["sub2", "env1", "env2", "can2", "notif0"]),
    ]
    for scen, trace, params, producers in fixed:
        tasks = []
        for thr in producers:
            for gran, top, stepk in (("sync", 260, 7 if quick else 1), ("line", 1500, 110 if quick else 7)):
                for k in range(0, top, stepk):
                    tasks.append({"scen": scen, "params": params, "strat": ["placement", {thr: k}, ["sticky"]],
                                  "gran": gran, "facts": {"block": False, "placement": thr}})
        ck.run_and_validate(tasks, trace, nontrivial=lambda t, r: True)
    ck.assumptions += ["horizon 60 s of virtual time, far beyond every configured delay",
                       "time bound only for single submissions over a thread pool (no contention); attempts from the sequential oracle"]
