"""C11 - Shutdown: submit refuses afterwards, idempotent, propagates, joins, returns."""
import random

from .. import tlc

TRACE = "ShutdownObsTrace"
LAYERS = [
    {"t": "map", "fn": "tag"}, {"t": "flat_map", "fn": "later"}, {"t": "retry", "max": 3, "sleep": 400},
    {"t": "poll", "mode": "second"}, {"t": "throttle", "count": 1}, {"t": "throttle", "count": 1, "block": True},
    {"t": "timeout", "T": 700}, {"t": "timeout", "T": 100000}, {"t": "cos"}, {"t": "poll", "mode": "never"},
]


def gen(rng, i):
    depth = rng.choice([1, 1, 2, 2, 3])
    layers = [dict(rng.choice(LAYERS)) for _ in range(depth)]
    if rng.random() < 0.15:
        layers.append({"t": "asyncio"})     # AsyncioExecutor on top (the same gate / propagation duties)
    at = rng.choice([100, 200, 450])
    n = rng.choice([1, 2, 3, 4])
    nthreads = rng.choice([1, 2, 3])
    subs = []
    for j in range(n):
        subs.append({"S": rng.choice([0, 0, 50, at - 1, at, at, at + 1, at + 200, at + 700]),
                     "script": rng.choice([["V"], ["E", "V"], ["E", "E", "V"], ["F"]]),
                     "dur": rng.choice([0, 20, 150, 600]), "thread": j % nthreads, "cb": rng.random() < 0.2})
    if any(l.get("block") for l in layers):
        # a blocking throttle keeps the gate while it waits; keep the queue short so shutdown can get through
        subs = subs[:2]
    return {"base": rng.choice(["sync", "pool", "pool"]), "workers": rng.choice([1, 2]), "layers": layers, "subs": subs,
            "shutdown": {"at": at, "wait": rng.random() < 0.7, "repeat": rng.choice([1, 1, 2, 3]),
                         "threads": rng.choice([1, 1, 2, 3]), "cancel_futures": rng.choice([None, None, True, False])},
            "horizon": 40000}


def directed_shutdown_tasks(quick):
    """shutdown(wait=True) lands at every point of an iteration of each worker loop that a submission at the same
    instant has just woken (the flag check / clear / wait sequence of the loop; line granularity)."""
    swept = []
    for ly, worker in (({"t": "retry", "max": 3, "sleep": 400}, "RetryExecutor-L1"),
                       ({"t": "poll", "mode": "second"}, "PollExecutor-L1"),
                       ({"t": "throttle", "count": 1}, "ThrottleExecutor-L1"),
                       ({"t": "timeout", "T": 700}, "TimeoutExecutor-L1")):
        # (a) only the submission that woke the loop: afterwards nothing is queued, the loop sleeps without a timer;
        # (b) an earlier submission is waiting for its retry / deadline: the loop sleeps with a timer
        for subs in ([{"S": 300, "script": ["V"], "dur": 50, "thread": 0}],
                     [{"S": 0, "script": ["E", "V"], "dur": 50, "thread": 0}, {"S": 300, "script": ["V"], "dur": 50, "thread": 1}]):
            pp = {"base": "pool", "workers": 1, "layers": [ly], "subs": subs,
                  "shutdown": {"at": 300, "wait": True, "repeat": 1, "threads": 1, "cancel_futures": None}, "horizon": 40000}
            for n in range(1, 140 if len(subs) == 1 else 60, 1 if len(subs) == 1 or not quick else 3):
                for m in ((10000,) if quick else (2, 6, 12, 24, 10000)):
                    swept.append({"scen": "stack", "params": pp,
                                  "strat": ["phases", [[worker, n, 300], ["sh", m], [worker, 10000]]], "gran": "line",
                                  "facts": {"base": "pool", "types": [ly["t"]], "block": False, "directed": True}})
    return swept


def blocking_throttle_tasks(rng, quick):
    """A saturated blocking throttle (one running, `count` queued) is shut down; submitters arrive while shutdown() is
    in progress and after it has returned: each of them raises or returns, none hangs."""
    tasks = []
    for wait in (False, True):
        for count in (1, 2):
            subs = [{"S": 0, "script": ["V"], "dur": 600, "thread": 0}]
            for q in range(count):
                subs.append({"S": 10 + q, "script": ["V"], "dur": 50, "thread": 1 + q})
            subs.append({"S": 300, "script": ["V"], "dur": 50, "thread": 1 + count})      # while / after shutdown()
            subs.append({"S": 2000, "script": ["V"], "dur": 50, "thread": 2 + count})     # long after
            pp = {"base": "pool", "workers": 1, "layers": [{"t": "throttle", "count": count, "block": True}], "subs": subs,
                  "shutdown": {"at": 100, "wait": wait, "repeat": 1, "threads": 1, "cancel_futures": None},
                  "horizon": 40000}
            for k in range(3 if quick else 30):
                tasks.append({"scen": "stack", "params": pp, "strat": ["random", rng.randrange(10 ** 9), 0.5],
                              "gran": "line" if k % 2 else "sync",
                              "facts": {"base": "pool", "types": ["throttle"], "block": True, "directed": True}})
    return tasks


def late_shutdown_tasks(rng, quick):
    """shutdown(wait=False) by the main client while a future is being completed; a done-callback of that future -
    running on the executor's own worker thread where there is one - then calls shutdown(wait=True) again."""
    tasks = []
    for ly in ({"t": "poll", "mode": "first"}, {"t": "retry", "max": 2, "sleep": 100}, {"t": "throttle", "count": 1},
               {"t": "timeout", "T": 5000}, {"t": "map", "fn": "tag"}, {"t": "cos"}):
        for base in ("pool", "sync"):
            pp = {"base": base, "workers": 1, "layers": [dict(ly)],
                  "subs": [{"S": 0, "script": ["V"], "dur": 50, "thread": 0, "cb_shutdown": True}],
                  "shutdown": {"at": 100, "wait": False, "repeat": 1, "threads": 1, "cancel_futures": None}, "horizon": 20000}
            for k in range(2 if quick else 10):
                tasks.append({"scen": "stack", "params": pp, "strat": ["random", rng.randrange(10 ** 9), 0.5],
                              "gran": "line" if k % 2 else "sync",
                              "facts": {"base": base, "types": [ly["t"]], "block": False, "directed": True}})
    return tasks


def run(ck):
    quick = ck.tier == "quick"
    rng = random.Random(ck.seed)
    ck.allow_truncation = True   # blocking / spinning paths may exhaust the step budget under unfair schedules
    ck.mc("CancelOnShutdown", "CancelOnShutdown.mc.cfg", timeout=3000)
    ck.mc("WorkerLoop", "WorkerLoop.mc.cfg", timeout=3000)
    tasks = []
    for i in range(700 if quick else 14000):
        p = gen(rng, i)
        strat = ["random", rng.randrange(10 ** 9), 0.5] if i % 4 else ["pct", rng.randrange(10 ** 9), 3, 300]
        tasks.append({"scen": "stack", "params": p, "strat": strat, "gran": "line" if i % 6 == 0 else "sync",
                      "facts": {"base": p["base"], "types": sorted(set(l["t"] for l in p["layers"])),
                                "block": any(l.get("block") for l in p["layers"])}})
    ck.run_and_validate(tasks, TRACE)
    swept = directed_shutdown_tasks(quick) + blocking_throttle_tasks(rng, quick) + late_shutdown_tasks(rng, quick)
    ck.run_and_validate(swept, TRACE, nontrivial=lambda t, r: True)
    if not quick:
        # the repository's own test suite (real threads, real time) recorded through class-level wrappers and validated
        # by TLC against spec/ApiObs.tla (order-only clauses)
        from .. import suitecheck
        suitecheck.run(ck, ("C11_",))
    ck.assumptions += ["taps between all layers observe the propagated shutdown calls and their arguments",
                       "worker threads are identified by their role-specific thread names"]
