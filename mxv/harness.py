"""Recording stand-ins used by the scenario drivers: scripted callables, tap executors, recording
futures, client-operation wrappers.  Everything is recorded through engine.emit() in the scheduler's
single total order.  Nothing here names a private attribute of the library."""
from concurrent.futures import Executor

from . import engine as E

FIELDS = ("ev", "thr", "t", "f", "k", "a", "b", "c", "s", "xs")


class UserError(Exception):
    """Exception class raised by scripted user code (retryable family)."""

    def __init__(self, tag):
        Exception.__init__(self, tag)
        self.tag = tag


class AbortOutcome(BaseException):
    """An outcome that derives from BaseException only (like asyncio.CancelledError, SystemExit, a user's own abort
    signal): for the futures machinery an exception like any other - concurrent.futures records it, the library must
    propagate it."""

    def __init__(self, tag):
        BaseException.__init__(self, "abort %s" % (tag,))
        self.tag = tag


class OtherError(Exception):
    """Exception outside the retry policy's exception_base."""

    def __init__(self, tag):
        Exception.__init__(self, tag)
        self.tag = tag


def export(events):
    """Project recorded events onto the fixed field set TLC reads."""
    out = []
    for e in events:
        out.append({
            "ev": e["ev"], "thr": e.get("thr", "-"), "t": int(e.get("t", 0)),
            "f": int(e.get("f", -1)), "k": int(e.get("k", -1)), "a": int(e.get("a", -1)),
            "b": int(e.get("b", -1)), "c": int(e.get("c", -1)), "s": str(e.get("s", "")),
            "xs": [int(x) for x in e.get("xs", ())],
        })
    return out


class Scripted(object):
    """A callable standing for submission `sub`.  script: list of outcomes per invocation:
    ("V", value) | ("E", tag) retryable exception | ("F", tag) other exception | ("B", tag) an exception deriving from
    BaseException only.  The last entry repeats.
    dur: virtual duration in ticks of each invocation (list or int).  hook(k) is called inside the call."""

    def __init__(self, sub, script, dur=0, hook=None, site="call"):
        self.sub = sub
        self.script = script
        self.dur = dur
        self.n = 0
        self.hook = hook
        self.site = site
        self.excs = []
        self.__name__ = "scripted%d" % sub

    def __call__(self, *args, **kwargs):
        self.n += 1
        k = self.n
        s = E.SCHED
        xs = [s.ident_val(a) for a in args]
        E.emit("Invoke", f=self.sub, k=k, xs=xs, a=len(kwargs), s=self.site)
        E.upoint()
        d = self.dur[min(k, len(self.dur)) - 1] if isinstance(self.dur, (list, tuple)) else self.dur
        if d:
            E.vsleep(d)
        if self.hook is not None:
            self.hook(k)
        kind, val = self.script[min(k, len(self.script)) - 1]
        if kind == "V":
            E.emit("InvokeEnd", f=self.sub, k=k, a=0, b=s.ident_val(val), s=self.site)
            return val
        exc = UserError(val) if kind == "E" else (AbortOutcome(val) if kind == "B" else OtherError(val))
        self.excs.append(exc)
        E.emit("InvokeEnd", f=self.sub, k=k, a=1 if kind == "E" else 2, b=s.ident(exc, "val"), s=self.site)
        raise exc


class TapExecutor(Executor):
    """Transparent executor inserted under a layer: records submit / shutdown reaching the delegate and
    cancel() calls arriving at the futures it returns."""

    def __init__(self, delegate, tag="tap"):
        self._d = delegate
        self.tag = tag
        self.n = 0
        self.futs = []
        self._name = getattr(delegate, "_name", "default")

    def submit(self, fn, *args, **kwargs):
        sub = getattr(fn, "sub", -1)
        self.n += 1
        E.emit("DelegateSubmit", f=sub, k=self.n, s=self.tag)
        E.upoint()
        try:
            fut = self._d.submit(fn, *args, **kwargs)
        except BaseException as ex:
            E.emit("DelegateSubmitRaise", f=sub, k=self.n, s=self.tag, a=1)
            raise
        try:
            fut._mxv_sub = sub
        except Exception:
            pass
        tap_cancel(fut, sub, self.tag, self.n)
        self.futs.append(fut)
        E.emit("DelegateSubmitRet", f=sub, k=self.n, s=self.tag)
        return fut

    def shutdown(self, wait=True, **kw):
        E.emit("DelegateShutdown", s=self.tag, a=1 if wait else 0, b=1 if kw.get("cancel_futures") else 0,
               c=len(kw))
        E.upoint()
        r = self._d.shutdown(wait, **kw)
        E.emit("DelegateShutdownRet", s=self.tag)
        return r

    def __getattr__(self, k):
        return getattr(self._d, k)


TAG_IDS = {"tap": 0, "manual": 0, "input": 0, "tap1": 1, "tap2": 2, "tap3": 3, "inner": 8}


def tap_cancel(fut, fid, tag, k=-1):
    """Record cancel() calls arriving at `fut` (instance-level wrapper)."""
    orig = fut.cancel

    def cancel():
        E.emit("CancelArrived", f=fid, s=tag, k=k, a=1 if fut.done() else 0)
        E.upoint()
        r = orig()
        E.emit("CancelArrivedRet", f=fid, s=tag, k=k, a=1 if r else 0)
        return r

    fut.cancel = cancel
    if tag != "outer":
        c = int(tag[3:]) if tag.startswith("tap") and tag[3:].isdigit() else TAG_IDS.get(tag, 9)
        E.SCHED.track(fid, fut, ev="DelegateState", k=k, c=c)
    return fut


# ---------------------------------------------------------------------------------- client operations
def do_submit(ex, sub, fn, *args, **kwargs):
    E.emit("SubmitCall", f=sub)
    E.upoint()
    try:
        fut = ex.submit(fn, *args, **kwargs)
    except BaseException as e:
        if isinstance(e, E.SchedAbort):
            raise
        msg = str(e)
        E.emit("SubmitRaise", f=sub, s=type(e).__name__,
               a=1 if msg == "cannot schedule new futures after shutdown" else 0)
        return None
    E.SCHED.track(sub, fut)
    E.emit("SubmitRet", f=sub)
    return fut


def do_cancel(fut, fid):
    E.emit("CancelCall", f=fid)
    E.upoint()
    try:
        r = fut.cancel()
    except BaseException as e:
        if isinstance(e, E.SchedAbort):
            raise
        E.emit("CancelRaise", f=fid, s=type(e).__name__)
        return None
    E.emit("CancelRet", f=fid, a=1 if r else 0)
    return r


def do_result(fut, fid, timeout=None):
    E.emit("ResultCall", f=fid)
    try:
        v = fut.result(timeout)
    except BaseException as e:
        if isinstance(e, E.SchedAbort):
            raise
        E.emit("ResultRaise", f=fid, s=type(e).__name__, b=E.SCHED.ident(e, "val"))
        return e
    E.emit("ResultRet", f=fid, b=E.SCHED.ident_val(v))
    return v


def add_cb(fut, fid, cbid):
    def cb(f):
        E.emit("Callback", f=fid, k=cbid, a=1 if f.done() else 0)

    E.emit("AddCbCall", f=fid, k=cbid)
    E.upoint()
    try:
        fut.add_done_callback(cb)
    except BaseException as e:
        if isinstance(e, E.SchedAbort):
            raise
        E.emit("AddCbRaise", f=fid, k=cbid, s=type(e).__name__)
        return
    E.emit("AddCbRet", f=fid, k=cbid)


def do_shutdown(ex, tag="top", wait=True, **kw):
    E.emit("ShutdownCall", s=tag, a=1 if wait else 0, b=1 if kw.get("cancel_futures") else 0, c=len(kw))
    E.upoint()
    try:
        ex.shutdown(wait, **kw)
    except BaseException as e:
        if isinstance(e, E.SchedAbort):
            raise
        E.emit("ShutdownRaise", s=tag, x=type(e).__name__)
        return False
    E.emit("ShutdownRet", s=tag)
    return True


def wait_all(futs, horizon_ticks):
    """Main-thread helper: advance virtual time until all futures are done or the horizon passes."""
    end = E.now() + horizon_ticks
    while True:
        E.settle()
        if all(f is None or f.done() for f in futs):
            return True
        if E.now() >= end:
            return False
        # sleep to the next interesting instant: let the scheduler advance time by one timer hop
        _nap(end)


def _nap(end):
    s = E.SCHED
    # wake at the earliest pending timer of any other thread (+0), bounded by `end`
    me = s.me()
    dls = [r.op[2] for r in s.threads.values()
           if r is not me and r.state == "blocked" and r.op and r.op != "aborted" and r.op[2] is not None]
    target = min(dls) if dls else end
    target = min(max(target, s.now + 1), end)
    s.point("sleep", None, target - s.now, exact=True)


def join_all(threads):
    for t in threads:
        t.join()
