"""Coverage of the library's public input space by the scenarios (a report, never a verdict).

With MXV_APICOV=<dir> in the environment every worker process wraps the public callables of more_executors - the
Executors.* entry points, the constructors and submit*/shutdown of the executor classes, the retry policies, the
f_* functions - and records, per parameter, the *kinds* of values the scenarios pass (absent / None / 0 / 0.0 / positive
/ negative / True / False / empty / callable / other type).  tools/apicov.py prints, per callable and parameter, what
was seen and flags parameters never passed or never passed with a boundary value.  Several seeded changes were
missed only because a parameter was never exercised (cancel_futures, sleep=0, timeout=0 ...): this report makes
such gaps visible before somebody else finds them.
"""
import functools
import inspect
import json
import os
import threading

_SEEN = {}
_LOCK = threading.Lock()
_DONE = [False]


def kind_of(v):
    if v is None:
        return "None"
    if v is True:
        return "True"
    if v is False:
        return "False"
    if isinstance(v, (int, float)):
        return "0" if v == 0 else ("pos" if v > 0 else "neg")
    if isinstance(v, (str, bytes, list, tuple, dict, set, frozenset)):
        return ("empty-" if len(v) == 0 else "") + type(v).__name__
    if inspect.isclass(v):
        return "class"
    if callable(v):
        return "callable"
    return type(v).__name__


def _record(name, sig, args, kwargs):
    try:
        ba = sig.bind_partial(*args, **kwargs)
    except TypeError:
        return
    with _LOCK:
        d = _SEEN.setdefault(name, {})
        for pname, p in sig.parameters.items():
            if pname in ("self", "cls"):
                continue
            if p.kind in (p.VAR_POSITIONAL, p.VAR_KEYWORD):
                val = ba.arguments.get(pname)
                if p.kind == p.VAR_KEYWORD:
                    for k, v in (val or {}).items():
                        d.setdefault("**" + k, {}).setdefault(kind_of(v), 0)
                        d["**" + k][kind_of(v)] += 1
                    d.setdefault("**" + pname, {}).setdefault("n=%d" % len(val or {}), 0)
                    d["**" + pname]["n=%d" % len(val or {})] += 1
                else:
                    d.setdefault("*" + pname, {}).setdefault("n=%d" % min(len(val or ()), 3), 0)
                    d["*" + pname]["n=%d" % min(len(val or ()), 3)] += 1
                continue
            k = kind_of(ba.arguments[pname]) if pname in ba.arguments else "absent"
            d.setdefault(pname, {}).setdefault(k, 0)
            d[pname][k] += 1


def _wrap(owner, attr, name):
    try:
        raw = owner.__dict__[attr]
    except (KeyError, AttributeError):
        return
    fn = raw.__func__ if isinstance(raw, (classmethod, staticmethod)) else raw
    if not callable(fn) or getattr(fn, "_mxv_apicov", False):
        return
    try:
        sig = inspect.signature(fn)
    except (TypeError, ValueError):
        return

    @functools.wraps(fn)
    def wrapper(*args, **kwargs):
        _record(name, sig, args, kwargs)
        return fn(*args, **kwargs)

    wrapper._mxv_apicov = True
    if isinstance(raw, classmethod):
        setattr(owner, attr, classmethod(wrapper))
    elif isinstance(raw, staticmethod):
        setattr(owner, attr, staticmethod(wrapper))
    else:
        setattr(owner, attr, wrapper)


def install():
    if _DONE[0] or not os.environ.get("MXV_APICOV"):
        return
    _DONE[0] = True
    import concurrent.futures as cf
    import more_executors
    from more_executors import Executors, futures
    import more_executors._impl.retry as retry
    for attr in list(vars(Executors)):
        if not attr.startswith("_"):
            _wrap(Executors, attr, "Executors." + attr)
    seen = set()
    for mod in list(__import__("sys").modules.values()):
        if mod is None or not getattr(mod, "__name__", "").startswith("more_executors._impl"):
            continue
        for obj in list(vars(mod).values()):
            if isinstance(obj, type) and obj.__module__ == mod.__name__ and obj not in seen:
                seen.add(obj)
                if issubclass(obj, cf.Executor) or obj.__name__.endswith("Policy"):
                    for attr in ("__init__", "submit", "submit_retry", "submit_timeout", "shutdown", "notify", "bind",
                                 "flat_bind"):
                        if attr in obj.__dict__:
                            _wrap(obj, attr, obj.__name__ + "." + attr)
    for attr in dir(futures):
        if attr.startswith("f_"):
            fn = getattr(futures, attr)
            if callable(fn):
                try:
                    sig = inspect.signature(fn)
                except (TypeError, ValueError):
                    continue

                def make(fn=fn, sig=sig, nm="futures." + attr):
                    @functools.wraps(fn)
                    def wrapper(*a, **k):
                        _record(nm, sig, a, k)
                        return fn(*a, **k)
                    return wrapper
                w = make()
                setattr(futures, attr, w)
                if getattr(more_executors, attr, None) is fn:
                    setattr(more_executors, attr, w)
    import atexit
    atexit.register(dump)


def dump():
    d = os.environ.get("MXV_APICOV")
    if not d or not _SEEN:
        return
    os.makedirs(d, exist_ok=True)
    with _LOCK:
        with open(os.path.join(d, "apicov-%d.json" % os.getpid()), "w") as fh:
            json.dump(_SEEN, fh)
