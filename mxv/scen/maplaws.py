"""Scenario for C13 (map / flat_map laws): one *case* of spec/MapLaws.tla executed on the real library.

params (all JSON-able; the codes are those of spec/MapLawsObs.tla):
  form      0 executor form: Executors.sync() / thread_pool(1)  .with_map / .with_flat_map ... .submit(src)
            1 f_ form: f_map / f_flat_map applied to a plain Future
  inp       0 the input succeeds with V0   1 it fails with the exception EORIG
  timing    0 the input is done before the chain sees it   1 it completes later, from another thread
            (f_ form: thread comp1 after d_in ticks; executor form: the pool's worker after d_in ticks)
  stages    [[flat, fb, eb], ...]   1..3 stages; fb / eb = behaviour codes of fn / error_fn
  d_in      ticks before the input completes (timing 1)
  d_inner   ticks before a pending inner future (FUT_PV / FUT_PE) is completed by its thread comp2
  early     f_ form, timing 1: start comp1 *before* the chain is built (completion races the construction)
  cancel    None | ticks: thread can1 cancels the chain's output at that virtual time
  compose   also run the case as ONE stage with the composed function (run 1), see C13_Compose
  fn_shape  None | "partial" | "object": the user functions are functools.partial objects / instances with __call__
  in_except the futures of the case are completed, and the f_ chain is built, from inside the `except` block of an
            unrelated exception (the propagated exception object and its traceback must not pick anything up from it)

Events: Cfg, FnCall, CancelCall/CancelRet, Result, End (see MapLawsObs.tla).  The observed term is computed
from the real result object: tags by structural inspection of the T values, values and exceptions by
identity (`is`) against the objects this driver created.  Nothing here reads a private attribute of the
library.
"""
from .. import engine as E
from .. import harness as H

ABSENT, RET, RAISE, FUT_V, FUT_E, FUT_PV, FUT_PE, FUT_C, NONFUT, RERAISE = range(10)
V0, EORIG, TYPEERR = 1, 100, 199
UNKNOWN_EXC, UNFLATTENED_FUTURE, UNKNOWN_OBJ = 999, 997, 998


class T(object):
    """Injective tagger: T(tag, x) is what a user function returns for x."""
    __slots__ = ("tag", "inner")

    def __init__(self, tag, inner):
        self.tag = tag
        self.inner = inner

    def __repr__(self):
        return "T(%d, %r)" % (self.tag, self.inner)


class Base(object):
    def __repr__(self):
        return "V0"


class MxErr(Exception):
    pass


class MxBaseErr(BaseException):
    """A failure deriving from BaseException only (what a pool records when a task calls sys.exit(), a user's abort
    signal...): as the exception of an INPUT future it is an exception like any other for the laws."""


def _cancelled_error_class():
    from concurrent.futures import CancelledError

    class MxCancelledErr(MxErr, CancelledError):
        """A failure whose class happens to derive from CancelledError (e.g. re-raised from another future)."""
    return MxCancelledErr


def _raise_here(exc):
    """The frame every scripted exception is first raised in (C13_TracebackKept looks for it)."""
    raise exc


def _born(exc):
    try:
        _raise_here(exc)
    except (MxErr, MxBaseErr):
        pass
    return exc


def tb_codes(exc):
    out = []
    tb = getattr(exc, "__traceback__", None)
    while tb is not None:
        out.append(tb.tb_frame.f_code)
        tb = tb.tb_next
    return out


def tb_has_origin(exc):
    return _raise_here.__code__ in tb_codes(exc)


def _unrelated():
    raise KeyError("unrelated")


def _maybe_in_except(p, thunk):
    if not p.get("in_except"):
        return thunk()
    try:
        _unrelated()
    except KeyError:
        return thunk()


class Run(object):
    """One run (0 = the chain, 1 = the composed form): its own value / exception objects."""

    def __init__(self, run, p):
        self.run = run
        self.p = p
        self.v0 = Base()
        self.ids = {}
        self.keep = []
        self.orig = self.exc(EORIG)
        self.ncomp = 0
        self.tb_seen = {}   # id(exc) -> code objects in its traceback when an error_fn first re-raised it

    def exc(self, eid):
        if eid == EORIG and self.p.get("orig_cancelled_error"):
            e = _cancelled_error_class()("e%d" % eid)
        elif eid == EORIG and self.p.get("orig_base_exception"):
            e = MxBaseErr("e%d" % eid)
        else:
            e = MxErr("e%d" % eid)
        self.ids[id(e)] = eid
        self.keep.append(e)
        return e

    # ---- structural inspection of real objects
    def term(self, x):
        out = []
        while isinstance(x, T):
            out.append(x.tag)
            x = x.inner
        if x is self.v0:
            out.append(V0)
        elif id(x) in self.ids:
            out.append(self.ids[id(x)])
        elif isinstance(x, BaseException):
            out.append(TYPEERR if isinstance(x, TypeError) else UNKNOWN_EXC)
        elif callable(getattr(x, "add_done_callback", None)):
            out.append(UNFLATTENED_FUTURE)
        else:
            out.append(UNKNOWN_OBJ)
        return out

    def tb_kept(self, exc):
        """The frames the exception had (the one that first raised it, for the driver's own exceptions;
        all those it had when an error_fn re-raised it, e.g. for a TypeError made by the library) are
        still in its __traceback__."""
        now = tb_codes(exc)
        if not all(c in now for c in self.tb_seen.get(id(exc), ())):
            return False
        if isinstance(exc, (MxErr, MxBaseErr)):
            return _raise_here.__code__ in now
        return id(exc) in self.tb_seen

    def result_event(self, fut):
        if not fut.done():
            E.emit("Result", f=self.run, s="PENDING")
        elif fut.cancelled():
            E.emit("Result", f=self.run, s="CANCELLED_AND_NOTIFIED")
        else:
            exc = fut.exception()
            if exc is not None:
                E.emit("Result", f=self.run, s="FINISHED", a=1, b=1 if self.tb_kept(exc) else 0, xs=self.term(exc))
            else:
                E.emit("Result", f=self.run, s="FINISHED", a=0, b=0, xs=self.term(fut.result()))

    # ---- recording stand-ins for fn / error_fn
    def complete_later(self, fut, kind, val, delay, name):
        def work():
            if delay:
                E.vsleep(delay)
            E.upoint()
            if not fut.set_running_or_notify_cancel():
                return
            E.upoint()
            if kind == "V":
                _maybe_in_except(self.p, lambda: fut.set_result(val))
            else:
                _maybe_in_except(self.p, lambda: fut.set_exception(val))

        E.spawn(name, work)

    def future_for(self, beh, tag_v, id_e, x):
        from concurrent.futures import Future
        fut = Future()
        if beh in (FUT_V, FUT_PV):
            kind, val = "V", T(tag_v, x)
        elif beh in (FUT_E, FUT_PE):
            kind, val = "E", _born(self.exc(id_e))
        else:
            kind, val = "C", None
        if beh == FUT_V:
            fut.set_result(val)
        elif beh == FUT_E:
            fut.set_exception(val)
        elif beh == FUT_C:
            fut.cancel()
            fut.set_running_or_notify_cancel()
        else:
            self.ncomp += 1
            self.complete_later(fut, kind, val, self.p.get("d_inner", 0), "comp2")
        return fut

    def make_fn(self, stage, which, beh):
        """which: 0 fn / 1 error_fn of `stage`."""
        if beh == ABSENT:
            return None
        run = self
        tag_ret = (20 if which else 10) + stage
        tag_in = (40 if which else 30) + stage
        id_raise = (120 if which else 110) + stage
        id_in = (140 if which else 130) + stage

        def fn(x):
            E.emit("FnCall", f=run.run, k=stage, a=which, xs=run.term(x))
            E.upoint()
            if beh in (RET, NONFUT):
                return T(tag_ret, x)
            if beh == RAISE:
                _raise_here(run.exc(id_raise))
            if beh == RERAISE:
                run.tb_seen.setdefault(id(x), tb_codes(x))
                run.keep.append(x)
                raise x
            return run.future_for(beh, tag_in, id_in, x)

        fn.__name__ = "%s%d" % ("efn" if which else "fn", stage)
        shape = self.p.get("fn_shape")
        if shape == "partial":
            # the user's function is a functools.partial (no __name__ / __qualname__): a callable like any other
            import functools
            return functools.partial(lambda _pad, x: fn(x), "pad")
        if shape == "object":
            class Callable(object):       # an instance with __call__
                def __call__(self, x):
                    return fn(x)
            return Callable()
        return fn

    # ---- the input
    def src(self):
        """The submitted callable of the executor form."""
        d = self.p.get("d_in", 0) if self.p["timing"] else 0
        if d:
            E.vsleep(d)
        E.upoint()
        if self.p["inp"]:
            _raise_here(self.orig)
        return self.v0

    def input_future(self):
        """The input of the f_ form; returns (future, starter of the completer thread or None)."""
        from concurrent.futures import Future
        fut = Future()
        kind, val = ("E", _born(self.orig)) if self.p["inp"] else ("V", self.v0)
        if not self.p["timing"]:
            if kind == "V":
                fut.set_result(val)
            else:
                fut.set_exception(val)
            return fut, None
        return fut, lambda: self.complete_later(fut, kind, val, self.p.get("d_in", 0), "comp1")

    # ---- building the real chain
    def build(self, stages_fns):
        """stages_fns: [(flat, fn, efn)].  Returns the output future of the real chain."""
        from more_executors import Executors
        from more_executors.futures import f_map, f_flat_map
        p = self.p
        if p["form"] == 0:
            ex = Executors.thread_pool(max_workers=1, name="p") if p["timing"] else Executors.sync(name="s")
            for flat, fn, efn in stages_fns:
                ex = ex.with_flat_map(fn, error_fn=efn) if flat else ex.with_map(fn, error_fn=efn)
            return ex.submit(self.src)
        fut, starter = self.input_future()
        if starter and p.get("early"):
            starter()
            starter = None
        cur = fut
        if p.get("proxy_input"):
            from more_executors.futures import f_proxy
            cur = f_proxy(fut)
        for flat, fn, efn in stages_fns:
            cur = _maybe_in_except(p, lambda cur=cur: f_flat_map(cur, fn, error_fn=efn) if flat
                                   else f_map(cur, fn, error_fn=efn))
        if starter:
            starter()
        return cur


def composed_stage(run, stages):
    """The chain's functions composed into one function (no error_fn anywhere): plain composition for
    map stages, Kleisli composition  x -> f_flat_map(g(x), rest)  for flat_map stages."""
    from more_executors.futures import f_flat_map, f_return
    flat = bool(stages[0][0])
    fns = [run.make_fn(i + 1, 0, sg[1]) for i, sg in enumerate(stages)]
    if not flat:
        def comp(x):
            for g in fns:
                if g is not None:
                    x = g(x)
            return x

        return (False, comp, None)

    def kleisli(i):
        g = fns[i] or f_return
        if i == len(fns) - 1:
            return g
        rest = kleisli(i + 1)
        return lambda x: f_flat_map(g(x), rest)

    return (True, kleisli(0), None)


def composable(stages):
    return (len(stages) >= 2 and all(sg[2] == ABSENT for sg in stages)
            and (all(sg[0] for sg in stages) or not any(sg[0] for sg in stages)))


def build(p):
    stages = p["stages"]
    horizon = p.get("horizon", 3000)

    def main():
        xs = []
        for sg in stages:
            xs += [1 if sg[0] else 0, sg[1], sg[2]]
        E.emit("Cfg", k=len(stages), a=p["inp"], b=p["timing"], c=p["form"], xs=xs)
        r0 = Run(0, p)
        try:
            out = r0.build([(bool(sg[0]), r0.make_fn(i + 1, 0, sg[1]), r0.make_fn(i + 1, 1, sg[2]))
                            for i, sg in enumerate(stages)])
        except E.SchedAbort:
            raise
        except BaseException as ex:      # the f_* call / submit() itself raised: there is no future to look at
            E.emit("CallRaise", f=0, s=type(ex).__name__)
            E.emit("End")
            return
        E.SCHED.track(0, out)
        if p.get("cancel") is not None:
            def canceller():
                if p["cancel"]:
                    E.vsleep(p["cancel"])
                H.do_cancel(out, 0)

            can = E.spawn("can1", canceller)
        else:
            can = None
        H.wait_all([out], horizon)
        if can is not None:
            can.join()
        E.settle()
        r0.result_event(out)
        if p.get("compose") and composable(stages):
            r1 = Run(1, p)
            out1 = r1.build([composed_stage(r1, stages)])
            E.SCHED.track(1, out1)
            H.wait_all([out1], horizon)
            E.settle()
            r1.result_event(out1)
        E.emit("End")

    return main, {"horizon": 10 ** 7, "max_steps": 60000}
