"""Scenarios for the future combinators f_or / f_and (C14) and f_zip / f_sequence / f_traverse (C15).

params:
  op        "or" | "and" | "zip" | "sequence" | "traverse"
  inputs    list (input id = index + 1) of dicts
              kind   0 never finishes | 1 truthy value | 2 falsy value | 3 exception | 4 cancelled
              at     virtual time at which thread comp<id> completes it (same time for several = a race)
              vt     value type (see VALUE_TYPES), default "val" / "fobj"
              shield True: the combinator gets f_nocancel(input)
              pre    True: completed by the main thread before the combinator is called
              run    True: the input is in the RUNNING state (running() is True, cancel() is refused)
              et     kind 3 only: class of the exception the input fails with: None (an ordinary Exception) |
                     "cancelled_error" (an INSTANCE of concurrent.futures.CancelledError: a failure, not a
                     cancellation - e.g. what pool.submit(other.result) records when `other` was cancelled) |
                     "base" (derives from BaseException only)
  pos       input id per argument position (default 1..n; repeat an id for a duplicated input)
  early     True: completer threads are started before the combinator is called (they race with the
            registration of the callbacks)
  cancel_at None | virtual time at which thread can1 cancels the output
  wait      None | [at, timeout]: thread wait1 calls concurrent.futures.wait([output], timeout) (recorded,
            never asserted: a cancelled plain Future output never releases it - D4, property C02)
  fn_raise  f_traverse only: element (1-based) at which fn raises, or None; fn_raise_type: "user" (default) |
            "stop" (StopIteration: an exception like any other for the caller of fn) | "key" (KeyError)
  nest      f_or / f_and only: None | {"inner": [argument positions], "skip": [positions left out of the outer call]}:
            out = op(op(*inner), *(all positions but skip)); skip must be a subset of inner
  out_cb    None | input id: the client adds a done-callback to the output that calls cancel() on that input
  seq       None | list of input ids: no threads, the main thread completes these inputs in this order after
            the call (large-N cases)
  horizon   ticks
Threads: main, comp<i>, can1, wait1.  The output is tracked as future 0.
"""
from .. import engine as E
from .. import harness as H
from .common import Val

BOOL_OPS = ("or", "and")


class Len1(object):
    def __len__(self):
        return 1


class Len0(object):
    def __len__(self):
        return 0


class FalsyObj(object):
    def __bool__(self):
        return False

    __nonzero__ = __bool__


VALUE_TYPES = {
    # truthy
    "val": lambda t: Val(t), "list": lambda t: [t], "dict": lambda t: {t: 1}, "tuple": lambda t: tuple([t, t]),
    "len1": lambda t: Len1(), "str": lambda t: "v%d-%s" % (t, "x" * (t % 3 + 1)),
    "excval": lambda t: ValueError("a value that happens to be an exception instance %d" % t),   # returned, not raised
    # falsy (the first five are fresh objects; the singletons must be used at most once per scenario)
    "fobj": lambda t: FalsyObj(), "flist": lambda t: [], "fdict": lambda t: {}, "fset": lambda t: set(),
    "len0": lambda t: Len0(), "zero": lambda t: 0, "none": lambda t: None, "false": lambda t: False,
    "fstr": lambda t: "", "ftuple": lambda t: (),
}
TRUTHY = ("val", "list", "dict", "tuple", "len1", "str", "excval")
FALSY_FRESH = ("fobj", "flist", "fdict", "fset", "len0")
FALSY_SINGLE = ("zero", "none", "false", "fstr", "ftuple")


def _is_combinator_lock(obj):
    """Replay steering only: is this controlled Lock the `lock` of a BoolOperation / Zipper?  (Found through
    the object that refers to it; if the library stops looking like this the replay degrades, never the verdict.)"""
    import gc
    if type(obj) is not E.Lock:
        return False
    for d in gc.get_referrers(obj):
        if not isinstance(d, dict):       # (3.12 keeps instance attributes inline: the referrer is the instance)
            d = getattr(d, "__dict__", None)
        if isinstance(d, dict) and d.get("lock") is obj and "out" in d and "done" in d and "fs" in d:
            return True
    return False


def build(p):
    op = p["op"]
    inputs = p["inputs"]
    n_in = len(inputs)
    pos = p.get("pos") or list(range(1, n_in + 1))
    horizon = p.get("horizon", 1000)
    seq = p.get("seq")

    def main():
        from concurrent.futures import Future, InvalidStateError
        import concurrent.futures as cf
        from more_executors.futures import f_or, f_and, f_zip, f_sequence, f_traverse, f_nocancel
        S = E.SCHED
        raw, given, orig_cancel, vals, vids = {}, {}, {}, {}, {}
        comb_cancelled = set()

        def tap(fut, i, tag):
            orig = fut.cancel

            def cancel():
                E.emit("CancelArrived", f=i, s=tag)
                E.upoint()
                r = orig()
                if r and tag == "input":
                    comb_cancelled.add(i)
                E.emit("CancelArrivedRet", f=i, s=tag, a=1 if r else 0)
                return r

            fut.cancel = cancel
            return orig

        for idx, spec in enumerate(inputs):
            i = idx + 1
            f = Future()
            raw[i] = f
            kind = spec.get("kind", 1)
            if spec.get("run") and kind != 4:
                # the input is already running (like an executor's future whose callable has started): cancel()
                # will be refused, but the request must still reach it
                f.set_running_or_notify_cancel()
            if kind in (1, 2):
                vt = spec.get("vt") or ("val" if kind == 1 else "fobj")
                v = VALUE_TYPES[vt](i)
                assert bool(v) == (kind == 1), (vt, kind)
                vals[i] = v
                vids[i] = S.ident_val(v)
            elif kind == 3:
                if spec.get("et") == "cancelled_error":
                    vals[i] = cf.CancelledError("x%d" % i)
                elif spec.get("et") == "base":
                    vals[i] = H.AbortOutcome("x%d" % i)
                else:
                    vals[i] = H.UserError("x%d" % i)
                vids[i] = S.ident(vals[i], "val")
            else:
                vids[i] = -1
            if spec.get("shield"):
                orig_cancel[i] = tap(f, i, "inner")
                g = f_nocancel(f)
                tap(g, i, "input")
                E.emit("Shield", f=i)
            else:
                orig_cancel[i] = tap(f, i, "input")
                g = f
            given[i] = g

        def complete(i):
            spec = inputs[i - 1]
            kind = spec.get("kind", 1)
            E.emit("InputSetCall", f=i, a=kind, b=vids[i])
            already = i in comb_cancelled
            E.upoint()
            ok = 1
            try:
                if kind in (1, 2):
                    raw[i].set_result(vals[i])
                elif kind == 3:
                    raw[i].set_exception(vals[i])
                else:
                    r = orig_cancel[i]()
                    ok = 1 if (r and not already) else 0
            except InvalidStateError:
                ok = 0
            except E.SchedAbort:
                raise
            except BaseException as ex:
                # something escaped from the completion of the input: the combinator's own callback let it through
                E.emit("InputSetRaise", f=i, s=type(ex).__name__)
                return
            E.emit("InputSetRet", f=i, a=ok)

        def completer(i):
            E.vsleep(max(inputs[i - 1].get("at", 0) - E.now(), 0))
            complete(i)

        E.emit("Cfg", s=op, a=len(pos), xs=list(pos), b=1 if (p.get("nest") and op in BOOL_OPS) else 0)
        for i in sorted(set(pos)):       # already-done inputs, in argument order
            if inputs[i - 1].get("pre") and inputs[i - 1].get("kind", 1):
                complete(i)
        threaded = [] if seq is not None else [
            i for i in range(1, n_in + 1) if inputs[i - 1].get("kind", 1) and not inputs[i - 1].get("pre")]
        if p.get("early"):
            for i in threaded:
                E.spawn("comp%d" % i, completer, i)
        args = [given[i] for i in pos]
        fn_raise = p.get("fn_raise")

        def fn(x):
            E.emit("FnCall", k=x)
            E.upoint()
            if fn_raise == x:
                exc = {"stop": StopIteration, "key": KeyError}.get(p.get("fn_raise_type"), H.UserError)("fn%d" % x)
                E.emit("FnRaise", k=x, b=S.ident(exc, "val"))
                raise exc
            E.emit("FnRet", k=x, f=pos[x - 1])
            return args[x - 1]

        if p.get("visible"):
            E.vsleep(0)       # replay: the call is a step of its own (spec: MAIN's first action)
        E.emit("CombCall")
        E.upoint()
        try:
            nest = p.get("nest") if op in BOOL_OPS else None
            if nest:
                # op(op(inner...), rest...): the fold is associative and idempotent over the order in which inputs
                # finish, so the outer output is judged by the same contract as op(all inputs)
                bop = f_or if op == "or" else f_and
                inner = bop(*[args[q - 1] for q in nest["inner"]])
                out = bop(inner, *[args[q - 1] for q in range(1, len(args) + 1) if q not in nest.get("skip", ())])
            elif op == "or":
                out = f_or(*args)
            elif op == "and":
                out = f_and(*args)
            elif op == "zip":
                out = f_zip(*args)
            elif op == "sequence":
                out = f_sequence(iter(args) if p.get("iter") else list(args))
            else:
                out = f_traverse(fn, range(1, len(pos) + 1))
        except E.SchedAbort:
            raise
        except BaseException as ex:   # the combinator itself raised: there is no output to look at
            E.emit("CombRaise", s=type(ex).__name__)
            E.vsleep(max(horizon - E.now(), 0))
            E.emit("End")
            return
        S.track(0, out)
        E.emit("CombRet", c=1 if (args and out is args[0]) else 0)
        if p.get("out_cb"):
            # a client's done-callback on the output that cancels one of the inputs ("the race is over")
            out.add_done_callback(lambda _f, j=p["out_cb"]: given[j].cancel())
        if not p.get("early"):
            for i in threaded:
                E.spawn("comp%d" % i, completer, i)

        def canceller(when):
            E.vsleep(max(when - E.now(), 0))
            H.do_cancel(out, 0)

        def waiter(when, tmo):
            E.vsleep(max(when - E.now(), 0))
            E.emit("WaitCall", f=0, a=tmo)
            done, _ = cf.wait([out], timeout=tmo / 1000.0)
            E.emit("WaitRet", f=0, a=len(done))

        if p.get("cancel_at") is not None:
            E.spawn("can1", canceller, p["cancel_at"])
        if p.get("wait"):
            E.spawn("wait1", waiter, p["wait"][0], p["wait"][1])
        if seq is not None:
            for i in seq:
                if inputs[i - 1].get("kind", 1):
                    complete(i)
        E.vsleep(max(horizon - E.now(), 0))
        if op not in BOOL_OPS and out.done() and not out.cancelled() and out.exception() is None:
            r = out.result()
            tname = "tuple" if isinstance(r, tuple) else ("list" if type(r) is list else type(r).__name__)
            try:
                E.emit("OutShape", s=tname, a=len(r), xs=[S.ident_val(x) for x in r])
            except TypeError:
                E.emit("OutShape", s=tname, a=-1)
        E.emit("End")

    def visible(obj):
        roles = E.SCHED.roles
        r = roles.get(id(obj))
        if r is None:
            r = "lock" if _is_combinator_lock(obj) else "other"
            roles[id(obj)] = r
            E.SCHED.keepalive.append(obj)
        return r == "lock"

    opts = {"horizon": horizon + 100000, "max_steps": p.get("max_steps", 60000)}
    if p.get("visible"):
        opts["visible"] = visible
    return main, opts
