"""Scenarios for TimeoutExecutor / f_timeout (C09, also C03/C11/C12 material).

params:
  flavour   "manual"  : TimeoutExecutor over ManualExecutor (mirrors spec/Timeout.tla: threads sub<j>, env<j>)
            "pool"    : thread_pool(n).with_timeout(default) with scripted callables of given durations
            "ftimeout": f_timeout(input future, t), inputs completed by env threads
  jobs      list of dicts {T: timeout ticks, S: submit time, D: duration (0 never), C: cancellable,
                           percall: bool, exc: bool, ucancel: time or None,
                           SD: ticks the delegate's own submit() takes (manual flavour),
                           CD: ticks the delegate future's cancel() takes before it refuses (manual flavour),
                           resub: a done-callback of the expired future submits to the same executor}
The creation of the future that submit_timeout / f_timeout returns is observed through the creation of its lock
(event FutureCreated): its deadline counts from there.
  horizon   ticks
"""
from .. import engine as E
from .. import harness as H
from .common import ManualExecutor, Val, role_attr


def build(p):
    flavour = p.get("flavour", "manual")
    jobs = p["jobs"]
    horizon = p.get("horizon", 6000)
    default_t = p.get("default", 1000)
    workers = p.get("workers", len(jobs))

    def main():
        from more_executors import Executors, TimeoutExecutor
        from more_executors.futures import f_timeout
        from concurrent.futures import Future
        vals = {}
        if flavour == "manual":
            plan = {j + 1: {"dur": jb["D"], "cancellable": jb.get("C", True), "submit_delay": jb.get("SD", 0),
                            "cancel_dur": jb.get("CD", 0)}
                    for j, jb in enumerate(jobs)}
            base = ManualExecutor(plan)
            ex = TimeoutExecutor(base, default_t / 1000.0, name="t")
        elif flavour == "pool":
            base = Executors.thread_pool(max_workers=workers, name="p")
            ex = base.with_timeout(default_t / 1000.0, name="t")
        else:
            ex = None
        if ex is not None:
            role_attr(ex, "_jobs_lock", "jobs_lock")
            role_attr(ex, "_jobs_write", "jobs_event")
            role_attr(ex, "_shutdown._lock", "gate")
        futs = {}
        submitting = {}     # thread name -> submission in progress

        def on_lock(info):
            # the returned future (a more_executors future class) is being constructed by a submitting thread
            me = E.SCHED.me()
            j = submitting.get(me.name) if me is not None else None
            if j is not None and info[0].endswith("Future") and info[0] != "Future" and info[1].startswith("common.py"):
                submitting.pop(me.name, None)
                E.emit("FutureCreated", f=j)

        E.SCHED.lock_hooks.append(on_lock)

        def sub(j):
            jb = jobs[j - 1]
            E.vsleep(jb["S"])
            submitting["sub%d" % j] = j
            v = Val(j)
            vals[j] = v
            script = [("E", "x%d" % j)] if jb.get("exc") else [("V", v)]
            if flavour == "ftimeout":
                inp = Future()
                if not jb.get("C", True):
                    inp.set_running_or_notify_cancel()
                H.tap_cancel(inp, j, "input")
                fn = H.Scripted(j, script)

                def work():
                    E.vsleep(jb["D"])
                    if inp._state == "PENDING" and not inp.set_running_or_notify_cancel():
                        return
                    if inp.cancelled():
                        return
                    try:
                        inp.set_result(fn())
                    except H.UserError as ex_:
                        inp.set_exception(ex_)

                E.emit("SubmitCall", f=j, a=jb["T"])
                E.upoint()
                fut = f_timeout(inp, jb["T"] / 1000.0)
                H.tap_cancel(fut, j, "outer")
                E.SCHED.track(j, fut)
                E.emit("SubmitRet", f=j)
                if jb["D"]:
                    E.spawn("env%d" % j, work)
            else:
                dur = 0 if flavour == "manual" else (jb["D"] or 10 ** 7)
                fn = H.Scripted(j, script, dur=dur)
                E.emit("SubmitCall", f=j, a=jb["T"] if jb.get("percall", True) else default_t)
                E.upoint()
                try:
                    if jb.get("percall", True):
                        fut = ex.submit_timeout(jb["T"] / 1000.0, fn)
                    else:
                        fut = ex.submit(fn)
                except RuntimeError as e:
                    E.emit("SubmitRaise", f=j, s=type(e).__name__)
                    return
                H.tap_cancel(fut, j, "outer")
                E.SCHED.track(j, fut)
                E.emit("SubmitRet", f=j)
                if jb.get("resub"):
                    # the "try again on timeout" pattern: a done-callback submits to the same executor
                    def again(f_, j=j):
                        if f_.cancelled():
                            ex.submit(H.Scripted(90 + j, [("V", Val(90 + j))]))
                    fut.add_done_callback(again)
            futs[j] = fut
            uc = jb.get("ucancel")
            if uc is not None:
                E.vsleep(max(uc - E.now(), 0))
                H.do_cancel(fut, j)

        ths = [E.spawn("sub%d" % (j + 1), sub, j + 1) for j in range(len(jobs))]
        E.vsleep(horizon)
        E.emit("End")

    def visible(obj):
        return E.SCHED.roles.get(id(obj)) in ("jobs_lock", "jobs_event", "gate")

    opts = {"horizon": horizon + 100000, "max_steps": 40000}
    if p.get("visible"):
        opts["visible"] = visible
    return main, opts
