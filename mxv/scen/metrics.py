"""Scenarios for C20 (metrics): histories over executor stacks and combinators with registry snapshots.

Needs the stand-in `prometheus_client` (/verif/stubs, put on sys.path by core._setup_worker when MXV_METRICS=1).

A *stack* is a base executor plus layers; a recording tap (`LTap`) sits under the client and between any two
layers, so every future a layer creates, every submit()/shutdown() a layer makes on its delegate and every
cancel() arriving at a layer's future is an event -- nothing is read from private attributes of the library.
Every executor gets its own name "x<id>", which is also its label id in the trace.

params:
  stacks   [{"base": "manual" | "sync" | "pool", "workers": n,
             "layers": [{"t": "map" | "flat_map" | "retry" | "poll" | "throttle" | "timeout" | "cos", ...}]}]
             (layers[0] sits directly on the base; the client submits to the last one)
             retry: attempts, sleep (ticks)   poll: interval (ticks), raise_at [call numbers]
             throttle: count                  timeout: T (ticks)
  jobs     [{"st": stack, "S": submit tick, "D": duration(s) per attempt (0 = never, manual only),
             "script": [["V"|"E"|"F", tag], ...] outcome per attempt, "C": delegate future cancellable (manual),
             "self_shutdown": the callable calls shutdown(wait=True) of its own stack,
             "K": tick of a client cancel() or None, "CD": ticks the delegate future's cancel() takes before refusing (manual), "mfail": map / flat_map fn raises, "polls": polls needed}]
  comb     [{"op": "zip" | "or" | "and" | "map", "ins": [job numbers (1-based)], "at": tick, "K": cancel tick}]
  snaps    ticks at which the main thread waits for quiescence and snapshots the registry
  shutdown [{"st": stack, "at": tick, "wait": bool, "threads": n (default 1: that many threads call it at once)}]
  horizon  tick of the final shutdown of everything + final snapshot
  share_names  bool: executors at the same position of different stacks carry the same name (one metric label)
"""
from concurrent.futures import Executor, Future

from .. import engine as E
from .. import harness as H
from .common import ManualExecutor, Val

TYPES = {"sync": 1, "threadpool": 2, "map": 3, "flat_map": 4, "retry": 5, "poll": 6, "throttle": 7, "timeout": 8,
         "cancel_on_shutdown": 9, "zip": 10, "or": 11, "and": 12}
LAYER_TYPE = {"map": "map", "flat_map": "flat_map", "retry": "retry", "poll": "poll", "throttle": "throttle",
              "timeout": "timeout", "cos": "cancel_on_shutdown"}
T_RETRY, T_THROTTLE, T_COS = 5, 7, 9
EX_DEFAULT, EX_OTHER = 90, 99
FUTURE_METRICS = ("future_total", "future_inprogress", "future_cancel", "future_error")
CHECKED = set(FUTURE_METRICS) | {"exec_inprogress", "exec_total", "retry_total", "retry_queue", "throttle_queue",
                                 "poll_total", "poll_error", "timeout", "shutdown_cancel"}


class Carrier(object):
    """The callable handed one layer down: remembers the submission and the future it is submitted for."""

    def __init__(self, fn, sub, parent):
        self.fn = fn
        self.sub = sub
        self.parent = parent
        self.__name__ = "carrier%d" % sub

    def __call__(self, *a, **kw):
        return self.fn(*a, **kw)


class Ctx(object):
    def __init__(self):
        self.nfid = 0
        self.futs = {}       # fid -> future
        self.children = {}   # fid -> [fid of the futures created on its behalf]
        self.nlow = {}       # fid -> submit() calls made to the delegate on its behalf
        self.in_cos = {}     # thread name -> (id of the CancelOnShutdownExecutor whose shutdown() it is running,
                             #                 cancel() nesting depth of the thread when that shutdown() began)
        self.depth = {}      # thread name -> number of recorded cancel() calls the thread is inside of
        self.exec_ids = {}   # executor name -> id
        self.expected = set()  # (metric, type id, executor id) the scenario knows must exist
        self.top = {}        # job -> future returned to the client

    def new_fid(self):
        self.nfid += 1
        return self.nfid

    def expect_executor(self, typ, exid):
        self.expected |= {("exec_inprogress", typ, exid), ("exec_total", typ, exid)}
        if typ != T_COS:
            self.expect_futures(typ, exid)
        extra = {5: ("retry_total", "retry_queue"), 7: ("throttle_queue",), 6: ("poll_total", "poll_error"),
                 8: ("timeout",), 9: ("shutdown_cancel",)}.get(typ, ())
        self.expected |= {(m, 0, exid) for m in extra}

    def expect_futures(self, typ, exid):
        self.expected |= {(m, typ, exid) for m in FUTURE_METRICS}

    def register(self, fid, fut, typ, exid, parent, up_cos=None):
        """A layer (typ, exid) returned the new future `fut`."""
        self.futs[fid] = fut
        self.children.setdefault(parent, []).append(fid)
        _wrap_cancel(self, fid, fut, typ, exid, up_cos)
        E.emit("FutCreated", f=fid, k=typ, c=exid, b=parent)
        E.SCHED.track(fid, fut, ev="FutState", k=typ, c=exid)


def _wrap_cancel(ctx, fid, fut, typ, exid, up_cos):
    orig = fut.cancel

    def cancel():
        me = E.SCHED.me()
        thr = me.name if me is not None else "-"
        was_done = fut.done()
        pending_kids = [k for k in (ctx.futs[c] for c in ctx.children.get(fid, ())) if not k.done()]
        # a cancel() made by CancelOnShutdownExecutor.shutdown() itself: on a future that executor returned, from
        # the thread running that shutdown(), and not from inside another cancel() (done-callbacks of the future
        # being cancelled - f_or / f_zip propagation - make nested calls that are not the executor's)
        depth = ctx.depth.get(thr, 0)
        cos = up_cos if (up_cos is not None and ctx.in_cos.get(thr) == (up_cos, depth)) else -1
        E.emit("CancelArrived", f=fid, k=typ, c=exid, a=1 if was_done else 0)
        E.upoint()
        ctx.depth[thr] = depth + 1
        try:
            r = orig()
        finally:
            ctx.depth[thr] = depth
        # only a call that is not made from inside another cancel() can be the timeout loop's / the shutdown
        # sweep's own call: nested ones come from done-callbacks (f_or / f_zip cancelling their inputs, ...)
        E.emit("CancelArrivedRet" if depth == 0 or cos >= 0 else "NestedCancelRet", f=fid, k=typ, c=exid,
               a=1 if r else 0, b=cos)
        if r and not was_done:
            # which ingredient of the history this was (attribution of failures only, no clause reads it)
            fact = None
            if typ == T_RETRY:
                if any(k.cancelled() for k in pending_kids):
                    fact = "cancel_in_flight"
                elif ctx.nlow.get(fid, 0):
                    fact = "cancel_between_retries"
                else:
                    fact = "cancel_before_first_attempt"
            elif typ == T_THROTTLE and not ctx.nlow.get(fid, 0):
                fact = "throttle_cancel_queued"
            if fact:
                E.emit("Fact", s=fact, f=fid, c=exid)
        return r

    fut.cancel = cancel


class LTap(Executor):
    """Transparent recording executor wrapped around layer (typ, exid)."""

    def __init__(self, ctx, delegate, typ, exid, up_cos=None, inst=0):
        self.ctx = ctx
        self._d = delegate
        self.typ = typ
        self.exid = exid
        self.inst = inst         # which executor object (several may carry the same name = the same label)
        self.up_cos = up_cos     # id of the CancelOnShutdownExecutor directly above, if any
        self._name = "x%d" % exid

    def submit(self, fn, *args, **kwargs):
        ctx = self.ctx
        parent = getattr(fn, "parent", 0)
        sub = getattr(fn, "sub", -1)
        if self.typ == T_COS:
            # no future of its own: hands the delegate's future through
            return self._d.submit(fn, *args, **kwargs)
        fid = ctx.new_fid()
        ctx.nlow[parent] = ctx.nlow.get(parent, 0) + 1
        E.emit("LowerSubmit", f=parent, k=self.typ, c=self.exid, b=sub, a=fid)
        E.upoint()
        try:
            fut = self._d.submit(Carrier(fn, sub, fid), *args, **kwargs)
        except BaseException as ex:
            if not isinstance(ex, E.SchedAbort):
                E.emit("LowerSubmitRaise", f=parent, k=self.typ, c=self.exid, a=fid, s=type(ex).__name__)
            raise
        ctx.register(fid, fut, self.typ, self.exid, parent, self.up_cos)
        return fut

    def shutdown(self, wait=True, **kw):
        ctx = self.ctx
        me = E.SCHED.me()
        thr = me.name if me is not None else "-"
        E.emit("ExecShutdownCall", k=self.typ, c=self.exid, a=1 if wait else 0, b=self.inst)
        E.upoint()
        prev = ctx.in_cos.get(thr)
        if self.typ == T_COS:
            ctx.in_cos[thr] = (self.exid, ctx.depth.get(thr, 0))
        try:
            self._d.shutdown(wait, **kw)
        except E.SchedAbort:
            raise
        except BaseException:
            # (e.g. shutdown(wait=True) called from one of the executor's own threads: "cannot join current thread")
            E.emit("ExecShutdownRaise", k=self.typ, c=self.exid, b=self.inst)
            raise
        finally:
            if self.typ == T_COS:
                if prev is None:
                    ctx.in_cos.pop(thr, None)
                else:
                    ctx.in_cos[thr] = prev
        E.emit("ExecShutdownRet", k=self.typ, c=self.exid, b=self.inst)


class PollFn(object):
    def __init__(self, exid, jobs, raise_at):
        self.exid = exid
        self.jobs = jobs
        self.raise_at = set(raise_at or ())
        self.n = 0
        self.seen = {}
        self.keep = []

    def __call__(self, descriptors):
        self.n += 1
        bad = self.n in self.raise_at
        E.emit("FnCall", s="poll", c=self.exid, k=self.n, a=1 if bad else 0, b=len(descriptors))
        E.upoint()
        if bad:
            raise H.UserError("poll%d" % self.n)
        for d in descriptors:
            if id(d) not in self.seen:
                self.keep.append(d)
            n = self.seen[id(d)] = self.seen.get(id(d), 0) + 1
            tag = getattr(d.result, "tag", None)
            need = self.jobs[tag - 1].get("polls", 1) if isinstance(tag, int) and 0 < tag <= len(self.jobs) else 1
            if n >= need:
                d.yield_result(d.result)


def _snapshot(ctx, PC, final, uses_fmap):
    """Main thread, at a quiescent point: dump the registry of the stand-in prometheus_client."""
    E.emit("Snapshot", a=1 if final else 0)
    vals = {}
    for (name, labels), v in list(PC.REGISTRY.items()):
        lab = dict(labels)
        ename, tname = lab.get("executor"), lab.get("type")
        tid = 0 if tname is None else TYPES.get(tname, 98)
        eid = ctx.exec_ids.get(ename)
        if eid is None and name in FUTURE_METRICS and (
                (ename == "default" and tname in ("zip", "or", "and")) or
                (ename in ("default", "internal") and tname == "map" and uses_fmap)):
            # (f_map builds its layers on the "internal" executor with with_*() after bind(): since the repair of
            #  D10 they inherit that name, before it they were labelled "default")
            # outputs of the combinators the scenario called itself (f_map's output is labelled map/default;
            # the executors and the intermediate flat_map future f_map builds internally are not events the
            # harness can count, so their children are left out)
            eid = EX_DEFAULT
        if (name, labels) in PC.NEGATIVE:
            E.emit("MetricNegative", s=name, k=tid, c=EX_OTHER if eid is None else eid)
        if eid is None or name not in CHECKED:
            continue  # executors the library made for itself ("internal", "none"): the harness saw no event of theirs
        vals[(name, tid, eid)] = v
    for key in sorted(set(vals) | ctx.expected):
        E.emit("Metric", s=key[0], k=key[1], c=key[2], a=int(vals.get(key, 0)))


def build(p):
    stacks = p["stacks"]
    jobs = p["jobs"]
    combs = p.get("comb", [])
    horizon = p.get("horizon", 4000)
    uses_fmap = any(cb["op"] == "map" for cb in combs)

    def main():
        import prometheus_client as PC
        from more_executors import (Executors, SyncExecutor, MapExecutor, FlatMapExecutor, RetryExecutor,
                                    PollExecutor, ThrottleExecutor, TimeoutExecutor, CancelOnShutdownExecutor)
        from more_executors.futures import f_zip, f_or, f_and, f_map
        if not hasattr(PC, "REGISTRY") or not hasattr(PC, "reset"):
            raise RuntimeError("the prometheus_client stand-in of /verif/stubs is not the one on sys.path")
        PC.reset()
        PC.HOOK[0] = E.upoint      # a scheduling point before every gauge update
        ctx = Ctx()
        nex = [0]

        shared = {}
        ninst = [0]

        def new_exec(tname, pos=0):
            # share_names: executors at the same position of different stacks get the SAME name, i.e. they feed
            # the same labelled metrics (the numbers must then describe all of them together)
            ninst[0] += 1
            if p.get("share_names") and (tname, pos) in shared:
                exid = shared[(tname, pos)]
            else:
                nex[0] += 1
                exid = nex[0]
                shared[(tname, pos)] = exid
            ctx.exec_ids["x%d" % exid] = exid
            return exid, "x%d" % exid

        def done_future(v):
            f = Future()
            f.set_result(v)
            return f

        def fails(v):
            tag = getattr(v, "tag", None)
            return isinstance(tag, int) and 0 < tag <= len(jobs) and jobs[tag - 1].get("mfail")

        def map_fn(v):
            if fails(v):
                raise H.UserError("map")
            return v

        def flat_fn(v):
            if fails(v):
                raise H.UserError("flatmap")
            return done_future(v)

        tops = []
        for si, st in enumerate(stacks):
            base = st.get("base", "manual")
            layers = st.get("layers", [])
            up = [LAYER_TYPE[l["t"]] for l in layers] + [None]
            exid, name = new_exec(base, -1)
            if base == "manual":
                plan = {j + 1: {"dur": jb.get("D", 100), "cancellable": jb.get("C", True), "cancel_dur": jb.get("CD", 0)}
                        for j, jb in enumerate(jobs) if jb.get("st", 0) == si}
                ex, typ = ManualExecutor(plan, tag="base%d" % si), 0
            elif base == "sync":
                ex, typ = SyncExecutor(name=name), TYPES["sync"]
            else:
                ex, typ = Executors.thread_pool(max_workers=st.get("workers", 2), name=name), TYPES["threadpool"]
            if typ:
                E.emit("ExecCreated", k=typ, c=exid, b=ninst[0])
                ctx.expect_executor(typ, exid)
            # the id of a CancelOnShutdownExecutor directly above is only known once it is created: ids are
            # handed out in order, so it is exid + 1
            tap = LTap(ctx, ex, typ, exid, up_cos=exid + 1 if up[0] == "cancel_on_shutdown" else None, inst=ninst[0])
            for li, l in enumerate(layers):
                tname = LAYER_TYPE[l["t"]]
                typ = TYPES[tname]
                exid, name = new_exec(tname, li)
                if tname == "map":
                    ex = MapExecutor(tap, map_fn, name=name)
                elif tname == "flat_map":
                    ex = FlatMapExecutor(tap, flat_fn, name=name)
                elif tname == "retry":
                    ex = RetryExecutor(tap, name=name, max_attempts=l.get("attempts", 3),
                                       sleep=l.get("sleep", 500) / 1000.0, exponent=1.0, max_sleep=120,
                                       exception_base=H.UserError)
                elif tname == "poll":
                    ex = PollExecutor(tap, PollFn(exid, jobs, l.get("raise_at")), None,
                                      default_interval=l.get("interval", 300) / 1000.0, name=name)
                elif tname == "throttle":
                    ex = ThrottleExecutor(tap, l.get("count", 1), name=name)
                elif tname == "timeout":
                    ex = TimeoutExecutor(tap, l.get("T", 430) / 1000.0, name=name)
                else:
                    ex = CancelOnShutdownExecutor(tap, name=name)
                E.emit("ExecCreated", k=typ, c=exid, b=ninst[0])
                ctx.expect_executor(typ, exid)
                tap = LTap(ctx, ex, typ, exid, up_cos=exid + 1 if up[li + 1] == "cancel_on_shutdown" else None,
                           inst=ninst[0])
            tops.append(tap)
        if not PC.REGISTRY:
            raise RuntimeError("metrics are not enabled in the library (MORE_EXECUTORS_PROMETHEUS / import of the "
                               "prometheus_client stand-in failed): nothing to check")
        for cb in combs:
            ctx.expect_futures(TYPES[cb["op"]], EX_DEFAULT)
        down = set()

        def canceller(fid, fut, when):
            E.vsleep(max(when - E.now(), 0))
            E.emit("CancelCall", f=fid)
            E.upoint()
            try:
                r = fut.cancel()
            except E.SchedAbort:
                raise
            except BaseException as ex_:
                E.emit("CancelRaise", f=fid, s=type(ex_).__name__)
                return
            E.emit("CancelRet", f=fid, a=1 if r else 0)

        def sub(j):
            jb = jobs[j - 1]
            si = jb.get("st", 0)
            E.vsleep(jb.get("S", 0))
            v = Val(j)
            script = [(kind, v if kind == "V" else "%s%d" % (tag, j)) for kind, tag in jb.get("script", [["V", 0]])]
            dur = 0 if stacks[si].get("base", "manual") == "manual" else jb.get("D", 0)
            fn = H.Scripted(j, script, dur=dur)
            if jb.get("self_shutdown"):
                # the callable shuts its own stack down (from whichever thread runs it - a pool worker, the retry
                # executor's submit thread over a synchronous base ...): shutdown(wait=True) may then raise because a
                # thread cannot join itself; the executors are shut down all the same
                inner_fn = fn

                def fn(*a, **k):
                    if si not in down:
                        down.add(si)
                        E.emit("ShutdownCall", f=si, a=1)
                        try:
                            tops[si].shutdown(True)
                            E.emit("ShutdownRet", f=si)
                        except RuntimeError:
                            E.emit("ShutdownRaise", f=si)
                    return inner_fn(*a, **k)
            E.emit("SubmitCall", f=j)
            E.upoint()
            try:
                fut = tops[si].submit(fn)
            except E.SchedAbort:
                raise
            except BaseException as ex_:
                E.emit("SubmitRaise", f=j, s=type(ex_).__name__)
                return
            ctx.top[j] = fut
            E.emit("SubmitRet", f=j)
            if jb.get("K") is not None:
                E.spawn("can%d" % j, canceller, j, fut, jb["K"])

        def comb(i, cb):
            E.vsleep(cb["at"])
            ins = [ctx.top.get(j) for j in cb["ins"]]
            if any(f is None for f in ins):
                return
            op = cb["op"]
            fid = ctx.new_fid()
            E.emit("CombCall", f=fid, s=op, xs=list(cb["ins"]))
            E.upoint()
            if op == "zip":
                out = f_zip(*ins)
            elif op == "or":
                out = f_or(*ins)
            elif op == "and":
                out = f_and(*ins)
            else:
                out = f_map(ins[0], lambda x: x)
            ctx.register(fid, out, TYPES[op], EX_DEFAULT, 0)
            if cb.get("K") is not None:
                E.spawn("ccan%d" % i, canceller, 1000 + i, out, cb["K"])

        for j in range(len(jobs)):
            E.spawn("sub%d" % (j + 1), sub, j + 1)
        for i, cb in enumerate(combs):
            E.spawn("cmb%d" % (i + 1), comb, i + 1, cb)

        def shut(si, wait):
            if si in down:
                return
            down.add(si)
            E.emit("ShutdownCall", f=si, a=1 if wait else 0)
            tops[si].shutdown(wait)
            E.emit("ShutdownRet", f=si)

        timeline = [(t, 1, None) for t in p.get("snaps", [])] + \
                   [(sd["at"], 0, sd) for sd in p.get("shutdown", [])]
        for t, _, sd in sorted(timeline, key=lambda x: (x[0], x[1])):
            if t >= horizon:
                continue
            E.vsleep(max(t - E.now(), 0))
            if sd is not None and sd.get("threads", 1) > 1:
                # several threads call shutdown() of the same stack at the same instant
                if sd["st"] not in down:
                    down.add(sd["st"])
                    E.emit("ShutdownCall", f=sd["st"], a=1 if sd.get("wait", True) else 0)
                    ths = [E.spawn("shut%d_%d" % (sd["st"], n), tops[sd["st"]].shutdown, bool(sd.get("wait", True)))
                           for n in range(sd["threads"])]
                    for t in ths:
                        t.join()
                    E.emit("ShutdownRet", f=sd["st"])
            elif sd is not None:
                shut(sd["st"], bool(sd.get("wait", True)))
            E.settle()
            _snapshot(ctx, PC, False, uses_fmap)
        E.vsleep(max(horizon - E.now(), 0))
        for si in range(len(stacks)):
            shut(si, True)
        E.settle()
        _snapshot(ctx, PC, True, uses_fmap)
        E.emit("End")

    return main, {"horizon": horizon + 200000, "max_steps": 150000}
