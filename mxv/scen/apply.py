"""Scenario for C16 (f_apply): one call  out = f_apply(future_fn, *future_args, **future_kwargs)  on the real
library, with a recording, non-commutative function.

params:
  npos, nkw   arities (0..4, 0..2).  Inputs are numbered 0 (function future), 1..npos, npos+1..npos+nkw.
  times       list, one entry per input: virtual time (ticks) at which the input future is resolved;
              0 = resolved before f_apply is called (pre-resolved input)
  threads     list, one entry per input: number t of the completer thread comp<t> that resolves it
  fails       list of input indices that fail (with their own exception) instead of succeeding
  fn_fails    the function itself raises
  rendezvous  a second, independent f_apply is resolved from another thread 100 ticks after the last input; the first
              application's function waits (up to 1500 ticks) for the second one's function to have started
  base_exc    the failing inputs fail with an exception deriving from BaseException only
  futvals     {input index (>= 1): "done" | "failed" | "pending"}: the VALUE that input resolves with is itself a
              future in that state (f_apply hands values over as they are: only the inputs are awaited, one level)
  kwnames     names of the keyword arguments (default k1, k2); any identifiers f_apply can be given

Events: Cfg, InputSet, FnCalled, FnRaise, Result, End (see spec/ApplyObs.tla).  Ids are assigned by object
identity: the value of input i is the object vals[i] (id 200 + i), its exception excs[i] (300 + i).
"""
from .. import engine as E
from .. import harness as H

FNEXC = 399
UNKNOWN = 999


class Val(object):
    __slots__ = ("i",)

    def __init__(self, i):
        self.i = i

    def __repr__(self):
        return "Val(%d)" % self.i


class Rec(object):
    """What the recording function returns: exactly the arguments it received, in the order / under the
    names it received them (so the result depends on order and names: non-commutative)."""
    __slots__ = ("args", "kwargs")

    def __init__(self, args, kwargs):
        self.args = tuple(args)
        self.kwargs = dict(kwargs)


class ApplyErr(Exception):
    pass


class ApplyBaseErr(BaseException):
    """An input failure deriving from BaseException only (e.g. what a pool records for a task calling sys.exit())."""


def build(p):
    npos, nkw = p["npos"], p["nkw"]
    n = npos + nkw
    times = p.get("times") or [0] * (n + 1)
    threads = p.get("threads") or [1] * (n + 1)
    fails = set(p.get("fails") or [])
    kwnames = p.get("kwnames") or ["k%d" % (j + 1) for j in range(nkw)]
    horizon = p.get("horizon", 3000)

    def main():
        from concurrent.futures import Future
        from more_executors.futures import f_apply
        vals = [Val(i) for i in range(n + 1)]
        for key, kind in (p.get("futvals") or {}).items():
            i = int(key)
            if 1 <= i <= n:
                g = Future()
                if kind == "done":
                    g.set_result(Val(1000 + i))
                elif kind == "failed":
                    g.set_exception(ApplyErr("value of input %d" % i))
                vals[i] = g
        excs = [(ApplyBaseErr if p.get("base_exc") else ApplyErr)("input %d" % i) for i in range(n + 1)]
        fnexc = ApplyErr("fn")
        val_ids = {id(v): 200 + i for i, v in enumerate(vals)}
        exc_ids = {id(e): 300 + i for i, e in enumerate(excs)}
        exc_ids[id(fnexc)] = FNEXC

        def enc(args, kwargs):
            xs = [val_ids.get(id(a), UNKNOWN) for a in args]
            pairs = sorted(((kwnames.index(k) + 1 if k in kwnames else 99), val_ids.get(id(v), UNKNOWN))
                           for k, v in kwargs.items())
            for j, v in pairs:
                xs += [j, v]
            return xs

        twin = {"started": False, "out": None}

        def fn(*args, **kwargs):
            E.emit("FnCalled", a=len(args), c=len(kwargs), xs=enc(args, kwargs))
            E.upoint()
            if p.get("rendezvous"):
                # this applied function needs ANOTHER f_apply's function (resolved from another thread) to have started:
                # applications are independent of each other, nothing may serialise them
                waited = 0
                while not twin["started"] and waited < 1500:
                    E.vsleep(50)
                    waited += 50
                if not twin["started"]:
                    raise ApplyErr("rendezvous with the other application never happened")
            if p.get("fn_fails"):
                E.emit("FnRaise", b=FNEXC)
                raise fnexc
            return Rec(args, kwargs)

        vals[0] = fn
        futs = [Future() for _ in range(n + 1)]

        def resolve(i):
            if i in fails:
                E.emit("InputSet", k=i, a=1, b=300 + i)
                E.upoint()
                futs[i].set_exception(excs[i])
            else:
                E.emit("InputSet", k=i, a=0, b=200 + i)
                E.upoint()
                futs[i].set_result(vals[i])

        E.emit("Cfg", a=npos, b=nkw)
        for i in range(n + 1):
            if times[i] == 0:
                resolve(i)
        E.upoint()
        given = list(futs)
        for i in p.get("proxy", ()):
            if 0 <= i <= n:
                from more_executors.futures import f_proxy
                given[i] = f_proxy(futs[i])      # the input is handed over as an f_proxy of the real future
        try:
            out = f_apply(given[0], *given[1:npos + 1], **{kwnames[j]: given[npos + 1 + j] for j in range(nkw)})
        except E.SchedAbort:
            raise
        except BaseException as ex:       # f_apply itself raised: no future to look at
            E.emit("Result", s="RAISED", a=1, b=exc_ids.get(id(ex), UNKNOWN))
            E.emit("End")
            return
        E.SCHED.track(0, out)

        def completer(t):
            mine = sorted((times[i], i) for i in range(n + 1) if times[i] > 0 and threads[i] == t)
            for when, i in mine:
                E.vsleep(max(when - E.now(), 0))
                resolve(i)

        ths = [E.spawn("comp%d" % t, completer, t)
               for t in sorted(set(threads[i] for i in range(n + 1) if times[i] > 0))]
        if p.get("rendezvous"):
            def fn2():
                twin["started"] = True
                return 0

            ff2 = Future()
            twin["out"] = f_apply(ff2)

            def twin_completer():
                E.vsleep(max(max(times) + 100, 100))
                ff2.set_result(fn2)

            ths.append(E.spawn("twin", twin_completer))
        H.wait_all([out], horizon)
        for t in ths:
            t.join()
        E.settle()
        if not out.done():
            E.emit("Result", s="PENDING")
        elif out.cancelled():
            E.emit("Result", s="CANCELLED_AND_NOTIFIED")
        else:
            exc = out.exception()
            if exc is not None:
                E.emit("Result", s="FINISHED", a=1, b=exc_ids.get(id(exc), UNKNOWN))
            else:
                v = out.result()
                E.emit("Result", s="FINISHED", a=0, xs=enc(v.args, v.kwargs) if isinstance(v, Rec) else [UNKNOWN])
        E.emit("End")

    return main, {"horizon": 10 ** 7, "max_steps": 80000}
