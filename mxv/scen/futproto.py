"""Scenarios for C02: one future from a given entry point under concurrent cancel / add_done_callback / waiters.

params:
  entry     executor entry: "sync"|"pool"|"map"|"flat_map"|"retry"|"poll"|"throttle"|"timeout"|"cos"
            combinator entry: "f_or"|"f_and"|"f_zip"|"f_map"|"f_flat_map"|"f_nocancel"|"f_proxy"|"f_timeout"|
                              "f_apply"|"f_sequence"|"f_traverse"
  how       how the underlying work ends: "value" | "exc" | "xcancel" (cancelled from outside) | "never"
  at        when (ticks)
  cancels   [times]   (each from its own thread)
  cbs       [times]   add_done_callback calls (each from its own thread)
  waits     [[time, kind]]  kind in result | exception | wait | as_completed
  probes    [[time, n, gap]]  a client calls running(), done() and cancelled() n times, gap ticks apart (each from its
            own thread): the queries never raise, done() never goes back to False
  recancel  None | "input": a done-callback registered on the underlying future (delegate future / first input)
            BEFORE the library registers its own calls cancel() on the returned future - re-entering a cancel()
            that is being forwarded, or cancelling from inside the completion of the underlying work;
            "own": a done-callback of the returned future itself calls its cancel()
  horizon
"""
import concurrent.futures as cf
from concurrent.futures import Future

from .. import engine as E
from .. import harness as H
from .common import ManualExecutor, Val

EXEC = ("sync", "pool", "map", "flat_map", "retry", "poll", "throttle", "timeout", "cos")


def build(p):
    entry = p["entry"]
    how = p.get("how", "value")
    at = p.get("at", 100)
    horizon = p.get("horizon", 3000)

    def main():
        from more_executors import Executors
        from more_executors import futures as F
        s = E.SCHED
        inputs = []
        holder = []

        def recancel_cb(f_):
            if holder:
                H.do_cancel(holder[0], 1)

        def finish_input(inp):
            if how == "never":
                return
            E.vsleep(at)
            if how == "xcancel":
                inp.cancel()
                inp.set_running_or_notify_cancel() if inp._state == "CANCELLED" else None
                return
            if not inp.set_running_or_notify_cancel():
                return
            if how == "exc":
                inp.set_exception(H.UserError("x"))
            else:
                inp.set_result(Val("v"))

        if entry in EXEC:
            dur = at if how != "never" else 0
            plan = {1: {"dur": dur, "cancellable": p.get("cancellable", True)}}
            if p.get("recancel") == "input":
                plan[1]["on_future"] = lambda f_: f_.add_done_callback(recancel_cb)
            base = ManualExecutor(plan, tag="tap") if entry != "pool" else None
            if entry == "sync":
                ex = Executors.sync()
            elif entry == "pool":
                ex = Executors.thread_pool(max_workers=1, name="p")
            elif entry == "map":
                ex = Executors.with_map(base, lambda x: x)
            elif entry == "flat_map":
                ex = Executors.with_flat_map(base, lambda x: F.f_return(x))
            elif entry == "retry":
                ex = Executors.with_retry(base, max_attempts=1)
            elif entry == "poll":
                ex = Executors.with_poll(base, lambda ds: [d.yield_result(d.result) for d in ds] and None, default_interval=0.1)
            elif entry == "throttle":
                ex = Executors.with_throttle(base, 1)
            elif entry == "timeout":
                ex = Executors.with_timeout(base, 100.0)
            else:
                ex = Executors.with_cancel_on_shutdown(base)
            script = [("E", "x")] if how == "exc" else [("V", Val("v"))]
            fn = H.Scripted(1, script, dur=at if entry in ("sync", "pool") and how != "never" else 0)
            if entry in ("sync", "pool") and how == "never":
                fn = H.Scripted(1, script, dur=10 ** 7)
            fut = ex.submit(fn)
            if how == "xcancel" and base is not None:
                def xc():
                    E.vsleep(max(at - 1, 0))
                    inner = base.futs[1][-1]
                    Future.cancel(inner)
                E.spawn("xcan", xc)
        else:
            n_in = 2 if entry in ("f_or", "f_and", "f_zip", "f_sequence", "f_traverse", "f_apply") else 1
            inputs = [Future() for _ in range(n_in)]
            if p.get("recancel") == "input":
                inputs[-1 if entry == "f_apply" else 0].add_done_callback(recancel_cb)
            if entry == "f_or":
                fut = F.f_or(*inputs)
            elif entry == "f_and":
                fut = F.f_and(*inputs)
            elif entry == "f_zip":
                fut = F.f_zip(*inputs)
            elif entry == "f_map":
                fut = F.f_map(inputs[0], lambda x: x)
            elif entry == "f_flat_map":
                fut = F.f_flat_map(inputs[0], lambda x: F.f_return(x))
            elif entry == "f_nocancel":
                fut = F.f_nocancel(inputs[0])
            elif entry == "f_proxy":
                fut = F.f_proxy(inputs[0])
            elif entry == "f_timeout":
                fut = F.f_timeout(inputs[0], 100.0)
            elif entry == "f_apply":
                inputs[0].set_result(lambda x: x)
                fut = F.f_apply(inputs[0], inputs[1])
                inputs = inputs[1:]
            elif entry == "f_sequence":
                fut = F.f_sequence(inputs)
            else:
                fut = F.f_traverse(lambda x: x, inputs)
            for i, inp in enumerate(inputs):
                E.spawn("env%d" % (i + 1), finish_input, inp)
        s.track(1, fut)
        holder.append(fut)
        if p.get("recancel") == "own":
            fut.add_done_callback(recancel_cb)
        if p.get("cb_raise_first"):
            def bad_cb(f_):
                raise H.OtherError("callback")
            fut.add_done_callback(bad_cb)      # a raising callback registered before every other one

        def canceller(t):
            E.vsleep(t)
            H.do_cancel(fut, 1)

        def adder(t, k):
            E.vsleep(t)
            H.add_cb(fut, 1, k)

        def waiter(t, kind, k):
            E.vsleep(t)
            E.emit("WaitCall", f=1, k=k, s=kind)
            try:
                if kind == "result":
                    fut.result()
                elif kind == "exception":
                    fut.exception()
                elif kind == "wait":
                    cf.wait([fut])
                else:
                    for _ in cf.as_completed([fut]):
                        pass
            except E.SchedAbort:
                raise
            except BaseException:
                pass
            E.emit("WaitRet", f=1, k=k)

        def prober(t, n, gap, k):
            E.vsleep(t)
            for _ in range(n):
                for name in ("running", "done", "cancelled"):
                    E.upoint()
                    try:
                        r = getattr(fut, name)()
                    except E.SchedAbort:
                        raise
                    except BaseException as ex:
                        E.emit("ProbeRaise", f=1, k=k, s=name, x=type(ex).__name__)
                        continue
                    # (b = 1: the answer was not a bool - MapFuture.running() answers None while it has no delegate, e.g. a
                    #  queued throttle future; recorded, not judged: the property does not spell the return type out)
                    E.emit("ProbeRet", f=1, k=k, s=name, a=1 if r else 0, b=0 if isinstance(r, bool) else 1)
                if gap:
                    E.vsleep(gap)

        for i, (t, n, gap) in enumerate(p.get("probes", [])):
            E.spawn("probe%d" % i, prober, t, n, gap, i + 1)
        for i, t in enumerate(p.get("cancels", [])):
            E.spawn("can%d" % i, canceller, t)
        for i, t in enumerate(p.get("cbs", [])):
            E.spawn("add%d" % i, adder, t, i + 1)
        for i, (t, kind) in enumerate(p.get("waits", [])):
            E.spawn("wait%d" % i, waiter, t, kind, i + 1)
        E.vsleep(horizon)
        E.emit("End")

    return main, {"horizon": horizon + 10 ** 7 + 1000, "max_steps": 40000}
