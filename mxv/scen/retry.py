"""Scenarios for RetryExecutor (C05, C06, C03, C18 material).

params:
  flavour   "manual" (ManualExecutor delegate, mirrors spec/Retry.tla) | "pool" | "sync"
  policy    {"kind": "exc", "max_attempts", "sleep", "exponent", "max_sleep"}   (ticks for sleep / max_sleep; they
            may be fractions of a tick and the exponent any float: the recording policy compares every answer of
            sleep_time() with the exactly computed min(sleep * exponent ** (attempt - 1), max_sleep))
            {"kind": "custom", "decisions": [[retry?(0/1/"raise"), sleep ticks | "raise"], ...]} last repeats
  jobs      [{script: ["V"|"E"|"F", ...], S, K, K2 (cancel times or None), C (delegate cancellable),
              probe: [time, n, gap] a client thread probe<j> asks running() / done() / cancelled() n times,
              percall: optional per-call policy dict, cancel_in_policy: attempt k at which sleep_time cancels}]
  dur       ticks per attempt;  horizon
"""
from .. import engine as E
from .. import harness as H
from .common import ManualExecutor, Val, role_attr


def make_policy(spec, subs_of, hooks):
    from more_executors import ExceptionRetryPolicy, RetryPolicy

    def sub_of(fut):
        return getattr(fut, "_mxv_sub", -1)

    if spec["kind"] == "exc":
        class RecExc(ExceptionRetryPolicy):
            def should_retry(self, attempt, future):
                r = ExceptionRetryPolicy.should_retry(self, attempt, future)
                E.emit("ShouldRetry", f=sub_of(future), k=attempt, a=1 if r else 0)
                return r

            def sleep_time(self, attempt, future):
                h = hooks.get((sub_of(future), attempt))
                if h:
                    h()
                r = ExceptionRetryPolicy.sleep_time(self, attempt, future)
                from fractions import Fraction
                want = min(Fraction(spec["sleep"]) * Fraction(spec.get("exponent", 2)) ** (attempt - 1),
                           Fraction(spec.get("max_sleep", 120000)))
                ok = abs(r * 1000.0 - float(want)) <= 1e-6 * max(1.0, float(want))
                E.emit("SleepTime", f=sub_of(future), k=attempt, a=E.to_ticks(r), b=1 if ok else 0)
                return r

        return RecExc(max_attempts=spec["max_attempts"], sleep=spec["sleep"] / 1000.0,
                      exponent=spec.get("exponent", 2), max_sleep=spec.get("max_sleep", 120000) / 1000.0,
                      exception_base=H.UserError)

    decisions = spec["decisions"]

    class RecCustom(RetryPolicy):
        def should_retry(self, attempt, future):
            d = decisions[min(attempt, len(decisions)) - 1][0]
            if d == "raise":
                E.emit("ShouldRetry", f=sub_of(future), k=attempt, a=2)
                raise RuntimeError("should_retry failed")
            E.emit("ShouldRetry", f=sub_of(future), k=attempt, a=1 if d else 0)
            return bool(d)

        def sleep_time(self, attempt, future):
            h = hooks.get((sub_of(future), attempt))
            if h:
                h()
            d = decisions[min(attempt, len(decisions)) - 1][1]
            if d == "raise":
                E.emit("SleepTime", f=sub_of(future), k=attempt, a=-2)
                raise RuntimeError("sleep_time failed")
            E.emit("SleepTime", f=sub_of(future), k=attempt, a=d)
            return d / 1000.0

    return RecCustom()


def build(p):
    jobs = p["jobs"]
    horizon = p.get("horizon", 2000)
    flavour = p.get("flavour", "manual")
    dur = p.get("dur", 300)
    pol = p["policy"]

    def main():
        from more_executors import Executors, RetryExecutor
        hooks = {}
        futs = {}
        if flavour == "manual":
            plan = {j + 1: {"dur": dur, "cancellable": jb.get("C", False)} for j, jb in enumerate(jobs)}
            base = ManualExecutor(plan, tag="tap")
        elif flavour == "pool":
            base = H.TapExecutor(Executors.thread_pool(max_workers=p.get("workers", 2), name="p"), "tap")
        else:
            base = H.TapExecutor(Executors.sync(name="s"), "tap")
        exact = 0 if (flavour == "sync" and len(jobs) > 1) else 1
        whole = all(float(pol.get(k, 0)).is_integer() for k in ("sleep", "exponent", "max_sleep")) if pol["kind"] == "exc" else True
        if pol["kind"] == "exc" and not whole and not any(jb.get("percall") for jb in jobs):
            # fractional parameters: the formula is checked by the recording policy (exact rationals), not in ticks
            E.emit("Cfg", f=exact, s="excf", a=pol["max_attempts"])
        elif pol["kind"] == "exc" and not any(jb.get("percall") for jb in jobs):
            E.emit("Cfg", f=exact, s="exc", a=pol["max_attempts"], b=pol["sleep"], c=pol.get("exponent", 2),
                   k=pol.get("max_sleep", 120000))
        else:
            E.emit("Cfg", f=exact, s="custom")
        policy = make_policy(pol, None, hooks)
        ex = RetryExecutor(base, retry_policy=policy, name="r")
        role_attr(ex, "_shutdown._lock", "gate")
        role_attr(ex, "_lock", "xlock")
        role_attr(ex, "_submit_event", "event")

        def canceller(j, fut, when):
            E.vsleep(max(when - E.now(), 0))
            H.do_cancel(fut, j)

        def prober(j, fut, when, n, gap):
            # a client asks running() / done() / cancelled(): the queries never raise
            E.vsleep(max(when - E.now(), 0))
            for _ in range(n):
                for name in ("running", "done", "cancelled"):
                    E.upoint()
                    try:
                        r = getattr(fut, name)()
                    except E.SchedAbort:
                        raise
                    except BaseException as ex:
                        E.emit("ProbeRaise", f=j, s=name, x=type(ex).__name__)
                        continue
                    E.emit("ProbeRet", f=j, s=name, a=1 if r else 0)
                if gap:
                    E.vsleep(gap)

        def sub(j):
            jb = jobs[j - 1]
            E.vsleep(jb.get("S", 0))
            script = []
            for k, o in enumerate(jb["script"]):
                script.append(("V", Val((j, k + 1))) if o == "V" else (o, "x%d_%d" % (j, k + 1)))
            fn = H.Scripted(j, script, dur=0 if flavour == "manual" else dur)
            cip = jb.get("cancel_in_policy")
            if cip:
                hooks[(j, cip)] = lambda: H.do_cancel(futs[j], j)
            if jb.get("percall"):
                E.emit("SubmitCall", f=j)
                pp = make_policy(jb["percall"], None, hooks)
                try:
                    fut = ex.submit_retry(pp, fn)
                except RuntimeError as e:
                    E.emit("SubmitRaise", f=j, s=type(e).__name__)
                    return
                E.SCHED.track(j, fut)
                E.emit("SubmitRet", f=j)
            else:
                fut = H.do_submit(ex, j, fn)
            if fut is None:
                return
            futs[j] = fut
            if jb.get("cb"):
                H.add_cb(fut, j, 1)
            if jb.get("K") is not None:
                E.spawn("can%d" % j, canceller, j, fut, jb["K"])
            if jb.get("K2") is not None:
                E.spawn("cab%d" % j, canceller, j, fut, jb["K2"])
            if jb.get("probe"):
                E.spawn("probe%d" % j, prober, j, fut, *jb["probe"])

        for j in range(len(jobs)):
            E.spawn("sub%d" % (j + 1), sub, j + 1)
        E.vsleep(horizon)
        E.emit("End")

    def visible(obj):
        return E.SCHED.roles.get(id(obj)) in ("gate", "xlock", "event")

    opts = {"horizon": horizon + 200000, "max_steps": 40000}
    if p.get("visible"):
        opts["visible"] = visible
    return main, opts
