"""Scenarios for C12: reclamation of worker threads and of references.

params:
  kind      "retry" | "poll" | "throttle" | "timeout"
  mode      "thread": history, then an action (drop | exit | shutdown) performed by thread `actor` (placed by the
                      Placement strategy at a given step) while a submission is being handled
            "refs":   histories of finished jobs (ok | fail | cancel_queued | cancel_inflight | cancel_between),
                      then the user drops everything belonging to them and weak references are examined
  action    drop | exit | shutdown
            "keep":   histories of finished jobs whose futures the user KEEPS, then the executor (and its delegate) is
                      dropped without shutdown: a done future must not keep the executor - and so its worker thread -
                      alive
            "exitrace": one executor is dropped (its worker exits and its shutdown-aware event is reclaimed, which
                      rebuilds the registry of such events from a weakref callback) while another thread creates a
                      second executor (which registers its event); then the interpreter-exit hook fires: the second
                      executor's worker must still be woken and exit
            "exitadd": the exit hook walks the registry of several idle executors' events while another thread constructs
                      one more executor
            "ftshared": clients (threads cli<i>) call f_timeout(input, T) - the executor behind it is shared through a
                      weak reference under a module lock and kept alive only by calls in progress and pending futures
                      (spec/SharedTimeout.tla); `clients` = [{at, T, D}]: call time, timeout ticks, time at which the
                      input completes by itself (0 = never); the clients keep their futures; by the end every future
                      is done and every worker thread the calls started has exited
  pending   bool: a job is still running when the action happens (drop only: it must still complete)
  hist      list of history items for mode "refs" (ok | fail | cancel_queued | cancel_inflight | cancel_between |
            xcancel: somebody else cancels the attempt's delegate future while it is in flight)
  poll_returns  "descs": the poll function returns the list of descriptors it was given (kind poll)
"""
import gc
import weakref

from .. import engine as E
from .common import ManualExecutor


class Obj(object):
    __slots__ = ("tag", "__weakref__")

    def __init__(self, tag):
        self.tag = tag


class Fn(object):
    """A callable object (weak-referenceable) standing for the user's function."""

    def __init__(self, outcome, res_holder):
        self.outcome = outcome
        self.res_holder = res_holder

    def __call__(self, arg):
        if self.outcome == "fail":
            raise ValueError("boom")
        if self.outcome == "retryable":
            raise KeyError("again")
        r = Obj("result")
        self.res_holder.append(weakref.ref(r))
        return r


def make(kind, base, polls, interval=0.3):
    from more_executors import Executors
    if kind == "retry":
        return Executors.with_retry(base, max_attempts=2, sleep=5.0, exception_base=KeyError, name="w")
    if kind == "poll":
        def poll_fn(ds):
            for d in ds:
                d.yield_result(d.result)
            if polls == "descs":
                return list(ds)     # a non-numeric return value is legal (and ignored); it refers to the descriptors
        return Executors.with_poll(base, poll_fn, default_interval=interval, name="w")
    if kind == "throttle":
        return Executors.with_throttle(base, 1, name="w")
    return Executors.with_timeout(base, 50.0, name="w")


def build(p):
    kind = p["kind"]
    mode = p.get("mode", "thread")

    def main_thread_mode():
        s = E.SCHED
        action = p.get("action", "drop")
        plan = {1: {"dur": 40, "cancellable": True}, 2: {"dur": 300 if p.get("pending") else 40, "cancellable": True},
                "_noretain": True}
        base = ManualExecutor(plan, tag="tap")
        box = [make(kind, base, None)]
        futs = []

        def work1():
            pass

        def fn1():
            return 1

        fn1.sub = 1

        def fn2():
            return 2

        fn2.sub = 2
        f1 = box[0].submit(fn1)
        E.vsleep(100)          # history: one finished job
        f2 = box[0].submit(fn2)
        s.track(2, f2)         # (the engine reads only the state of a tracked future)
        del f1

        def actor():
            # the Placement strategy decides at which step of the loop's handling of job 2 this runs
            # (or, with actor_at, a directed schedule places it inside the loop iteration that follows the completion
            #  of job 2 at that virtual time)
            if p.get("actor_at"):
                E.vsleep(max(p["actor_at"] - E.now(), 0))
            if f2._state not in ("FINISHED", "CANCELLED", "CANCELLED_AND_NOTIFIED"):
                E.emit("Pending", f=2)
            E.emit("Action", s=action)
            if action == "drop":
                box.pop()
            elif action == "exit":
                from more_executors._impl.event import GLOBAL_HANDLER
                GLOBAL_HANDLER.on_exiting()
            else:
                box[0].shutdown(wait=bool(p.get("wait")))

        E.spawn("actor", actor)
        E.vsleep(20000)
        E.emit("End")

    def main_refs_mode():
        s = E.SCHED
        hist = p.get("hist", ["ok"])
        plan = {"_noretain": True}
        for i, h in enumerate(hist, start=1):
            plan[i] = {"dur": 60, "cancellable": True}
        base = ManualExecutor(plan, tag="tap")
        if kind == "throttle":
            from more_executors import Executors
            ex = Executors.with_throttle(base, 1, name="w")
        else:
            ex = make(kind, base, p.get("poll_returns"), p.get("poll_interval", 0.3))
        refs = []
        for i, h in enumerate(hist, start=1):
            holder = []
            fn = Fn("fail" if h == "fail" else "retryable" if h == "cancel_between" else "ok", holder)
            fn.sub = i
            arg = Obj("arg")
            fut = ex.submit(fn, arg)
            if h == "cancel_queued":
                # throttle: queued behind a running job; retry/poll/timeout: cancel before the delegate started it
                fut.cancel()
            elif h == "cancel_inflight":
                E.vsleep(10)
                fut.cancel()
            elif h == "cancel_between":
                # the first attempt fails at 60, the retry is due 5 s later: cancel while the job sleeps between retries
                E.vsleep(150)
                fut.cancel()
            elif h == "xcancel":
                # somebody else (a timeout below, a cancel-on-shutdown sweep ...) cancels the delegate's future
                E.vsleep(10)
                wd = base.weak.get(i)
                d = wd() if wd is not None else None
                if d is not None:
                    from concurrent.futures import Future as _F
                    if _F.cancel(d):
                        d.set_running_or_notify_cancel()
                del d
            E.vsleep(400)
            refs.append((i, weakref.ref(fut), weakref.ref(fn), weakref.ref(arg), holder))
            done = fut.done()
            E.emit("Observed", f=i, s=fut._state)
            del fut, fn, arg, holder
        # the user has dropped everything; the executor lives on
        base.futs.clear()
        gc.collect()
        for (i, wf, wfn, warg, holder) in refs:
            E.emit("WeakDead", s="future", k=i, a=1 if wf() is None else 0)
            E.emit("WeakDead", s="callable", k=i, a=1 if wfn() is None else 0)
            E.emit("WeakDead", s="argument", k=i, a=1 if warg() is None else 0)
            for wr in holder:
                E.emit("WeakDead", s="result", k=i, a=1 if wr() is None else 0)
        E.emit("Action", s="shutdown")
        ex.shutdown(wait=True)
        E.emit("End")

    def main_keep_mode():
        hist = p.get("hist", ["ok"])
        plan = {"_noretain": True}
        for i, h in enumerate(hist, start=1):
            plan[i] = {"dur": 60, "cancellable": True}
        box = [ManualExecutor(plan, tag="tap")]
        box.append(make(kind, box[0], None))
        kept = []
        for i, h in enumerate(hist, start=1):
            fn = Fn("fail" if h == "fail" else "retryable" if h == "cancel_between" else "ok", [])
            fn.sub = i
            fut = box[1].submit(fn, Obj("arg"))
            if h == "cancel_queued":
                fut.cancel()
            elif h == "cancel_inflight":
                E.vsleep(10)
                fut.cancel()
            elif h == "cancel_between":
                E.vsleep(150)
                fut.cancel()
            E.vsleep(400)
            E.emit("Observed", f=i, s=fut._state)
            kept.append(fut)
            del fut, fn
        E.emit("Action", s="drop")
        del box[:]
        gc.collect()
        E.vsleep(20000)
        E.emit("Kept", a=len(kept))
        E.emit("End")

    def main_exitrace_mode():
        plan = {"_noretain": True}
        box1 = [make(kind, ManualExecutor(plan, tag="tap"), None)]
        created = []

        def dropper():
            E.vsleep(100)
            E.emit("Action", s="drop")
            del box1[:]
            gc.collect()

        def creator():
            E.vsleep(100)
            created.append(make(p.get("kind2", kind), ManualExecutor(plan, tag="tap"), None))

        E.spawn("dropper", dropper)
        E.spawn("creator", creator)
        E.vsleep(1000)
        E.emit("Action", s="exit")
        from more_executors._impl.event import GLOBAL_HANDLER
        GLOBAL_HANDLER.on_exiting()
        E.vsleep(20000)
        E.emit("Kept", a=len(created))
        E.emit("End")

    def main_exitadd_mode():
        # several idle executors; the interpreter-exit hook walks the registry of their events while another thread is
        # constructing one more executor (which registers its event): every worker must still be woken and exit
        plan = {"_noretain": True}
        kept = [make(k, ManualExecutor(plan, tag="tap"), None) for k in (kind, p.get("kind2", kind), kind)]

        def creator():
            E.vsleep(1000)
            kept.append(make(p.get("kind2", kind), ManualExecutor(plan, tag="tap"), None))

        def exiter():
            E.vsleep(1000)
            E.emit("Action", s="exit")
            from more_executors._impl.event import GLOBAL_HANDLER
            try:
                GLOBAL_HANDLER.on_exiting()
            except E.SchedAbort:
                raise
            except BaseException as ex:       # (atexit would print and swallow it)
                E.emit("ExitHookRaise", s=type(ex).__name__)

        E.spawn("creator", creator)
        E.spawn("exiter", exiter)
        E.vsleep(21000)
        E.emit("Kept", a=len(kept))
        E.emit("End")

    def main_ftshared_mode():
        from concurrent.futures import Future, InvalidStateError
        from more_executors.futures import f_timeout
        s = E.SCHED
        kept = []
        # nobody but the library ever refers to the shared executor
        E.emit("Action", s="drop")

        def client(i, c):
            E.vsleep(max(c.get("at", 0) - E.now(), 0))
            inp = Future()
            E.emit("Pending", f=i)
            fut = f_timeout(inp, c["T"] / 1000.0)
            s.track(i, fut)
            kept.append(fut)
            del fut
            if c.get("D"):
                E.vsleep(max(c["D"] - E.now(), 0))
                try:
                    inp.set_result(i)
                except InvalidStateError:
                    pass

        for i, c in enumerate(p["clients"], start=1):
            E.spawn("cli%d" % i, client, i, c)
        E.vsleep(10000)
        gc.collect()
        E.vsleep(10000)
        E.emit("Kept", a=len(kept))
        E.emit("End")

    mains = {"thread": main_thread_mode, "ftshared": main_ftshared_mode, "refs": main_refs_mode, "keep": main_keep_mode, "exitrace": main_exitrace_mode,
             "exitadd": main_exitadd_mode}
    return mains[mode], {"horizon": 10 ** 7, "max_steps": 60000}
