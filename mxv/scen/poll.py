"""Scenarios for PollExecutor (C08; also C03/C06/C18 material).

params:
  flavour   "manual" | "pool"
  jobs      [{S, D (delegate duration), fail: bool (delegate raises), y: n (yield on the n-th poll that shows it;
              0 = never), yexc: bool (yield an exception), K: cancel time | None}]
  cancel_fn None | "true" | "false" | "raise"
  poll_raise  call index at which the poll function raises (0 = never); poll_raise_after: it first yields for the
              futures that are due and raises afterwards
  poll_dur  virtual duration of each poll call
  notify    [times]
  poll_mutates  the poll function empties the list it was given before returning (its argument is its own to use)
  interval  default interval (ticks)
  horizon
"""
from .. import engine as E
from .. import harness as H
from .common import ManualExecutor, Val, role_attr


def build(p):
    jobs = p["jobs"]
    horizon = p.get("horizon", 3000)
    flavour = p.get("flavour", "manual")
    interval = p.get("interval", 500)

    def main():
        from more_executors import Executors, PollExecutor
        s = E.SCHED
        calls = [0]
        seen = {}
        vals = {}

        none_job = p.get("none_job")      # the one job (if any) whose delegate callable returns None: a result like any other

        def job_of(res):
            if res is None and none_job:
                return none_job
            return getattr(res, "tag", (None, -1))[1] if isinstance(getattr(res, "tag", None), tuple) else -1

        def poll_fn(descriptors):
            calls[0] += 1
            k = calls[0]
            xs = []
            for d in descriptors:
                r = d.result
                xs += [job_of(r), s.ident_val(r)]
            E.emit("PollCall", k=k, xs=xs)
            E.upoint()
            try:
                if p.get("poll_dur"):
                    E.vsleep(p["poll_dur"])
                raise_now = p.get("poll_raise") == k
                if raise_now and not p.get("poll_raise_after"):
                    exc = H.OtherError("poll%d" % k)
                    E.emit("PollRet", k=k, a=1, b=s.ident(exc, "val"))
                    raise exc
                for d in descriptors:
                    j = job_of(d.result)
                    seen[j] = seen.get(j, 0) + 1
                    jb = jobs[j - 1]
                    if jb.get("y", 1) and seen[j] >= jb.get("y", 1):
                        if jb.get("yexc"):
                            exc = H.UserError("y%d" % j)
                            E.emit("Yield", f=j, k=k, a=1, b=s.ident(exc, "val"))
                            E.upoint()
                            d.yield_exception(exc)
                        else:
                            v = Val(("y", j))
                            E.emit("Yield", f=j, k=k, a=0, b=s.ident_val(v))
                            E.upoint()
                            d.yield_result(v)
                        E.emit("YieldRet", f=j, k=k)
                if raise_now:
                    # the poll function resolved some of the futures it was shown and then fails
                    exc = H.OtherError("poll%d" % k)
                    E.emit("PollRet", k=k, a=1, b=s.ident(exc, "val"))
                    raise exc
                if p.get("poll_mutates"):
                    del descriptors[:]
                E.emit("PollRet", k=k, a=0)
            except H.OtherError:
                raise
            return None

        cmode = p.get("cancel_fn")

        def cancel_fn(res):
            j = job_of(res)
            E.emit("CancelFnCall", f=j, b=s.ident_val(res))
            E.upoint()
            if p.get("cancel_dur"):
                E.vsleep(p["cancel_dur"])       # a cancel function that takes time (a remote call)
            if cmode == "raise":
                E.emit("CancelFnRet", f=j, a=2)
                raise RuntimeError("cancel fn failed")
            E.emit("CancelFnRet", f=j, a=1 if cmode == "true" else 0)
            return cmode == "true"

        if flavour == "manual":
            plan = {j + 1: {"dur": jb["D"], "cancellable": jb.get("C", True)} for j, jb in enumerate(jobs)}
            base = ManualExecutor(plan, tag="tap")
        else:
            base = H.TapExecutor(Executors.thread_pool(max_workers=p.get("workers", 2), name="p"), "tap")
        E.emit("Cfg", s=cmode or "none")
        ex = PollExecutor(base, poll_fn, cancel_fn if cmode else None, default_interval=interval / 1000.0, name="q")
        role_attr(ex, "_shutdown._lock", "gate")
        role_attr(ex, "_lock", "plock")
        role_attr(ex, "_poll_event", "event")

        def canceller(j, fut, when):
            E.vsleep(max(when - E.now(), 0))
            H.do_cancel(fut, j)

        def sub(j):
            jb = jobs[j - 1]
            E.vsleep(jb.get("S", 0))
            script = [("F", "d%d" % j)] if jb.get("fail") else [("V", None if j == none_job else Val(("r", j)))]
            fn = H.Scripted(j, script, dur=0 if flavour == "manual" else jb["D"])
            fut = H.do_submit(ex, j, fn)
            if fut is not None and jb.get("K") is not None:
                E.spawn("can%d" % j, canceller, j, fut, jb["K"])

        for j in range(len(jobs)):
            E.spawn("sub%d" % (j + 1), sub, j + 1)

        def notifier(t):
            E.vsleep(t)
            E.emit("NotifyCall")
            ex.notify()

        for i, t in enumerate(p.get("notify", [])):
            E.spawn("notif%d" % i, notifier, t)
        E.vsleep(horizon)
        E.emit("End")

    def visible(obj):
        return E.SCHED.roles.get(id(obj)) in ("gate", "plock", "event")

    opts = {"horizon": horizon + 200000, "max_steps": 60000}
    if p.get("visible"):
        opts["visible"] = visible
    return main, opts
