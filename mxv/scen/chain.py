"""Scenario for spec/FutureChain.tla: a chain f_N -> ... -> f_1 -> f_0 of derived futures - what a stack of N map layers
(Executors.with_map(...).with_map(...)) returns for one submission to an executor handing out a plain Future - under concurrent cancel() of the top future, completion of the base, somebody cancelling a future in the
middle of the chain, a callback adder and (optionally) a user callback on the BASE that re-enters cancel() on the top.

params:
  n         number of derived layers (>= 1)
  comp      "value" | "exc" | "never"
  ncan      number of client threads cancelling f_n (0..2)
  xcan      None | layer whose future thread xcan cancels directly
  add       bool: thread add registers done-callback 2 on f_n
  recancel  bool: user callback 9 registered on f_0 before the chain is built cancels f_n
  start     {thread name: start time} (default 0 for all)
  visible   True: only the futures' own locks, yields and thread starts are scheduling points (replay of TLC behaviours)
Threads: main, can1, can2, comp, xcan, add.  Futures are tracked as f = layer index (0 = base).
"""
from .. import engine as E
from .. import harness as H
from .common import Val


def build(p):
    n = p.get("n", 2)
    horizon = p.get("horizon", 1000)
    start = p.get("start") or {}

    def main():
        from concurrent.futures import Future, Executor
        from more_executors import Executors
        S = E.SCHED

        class BaseExec(Executor):
            """hands out the prepared plain future (the underlying work is driven by thread comp)"""
            def submit(self, fn, *a, **k):
                return base

            def shutdown(self, wait=True, **k):
                pass

        class Capture(Executor):
            """passes everything through and remembers the future the layer below returned"""
            def __init__(self, inner):
                self.inner = inner
                self.got = []

            def submit(self, fn, *a, **k):
                f = self.inner.submit(fn, *a, **k)
                self.got.append(f)
                return f

            def shutdown(self, wait=True, **k):
                return self.inner.shutdown(wait, **k)

        E.emit("Cfg", a=n)
        base = Future()
        futs = [base]
        holder = []

        if p.get("recancel"):
            def cb9(f):
                E.emit("Callback", f=0, k=9, a=1 if f.done() else 0)
                if holder:
                    holder[0].cancel()
            E.emit("AddCbCall", f=0, k=9)
            base.add_done_callback(cb9)
            E.emit("AddCbRet", f=0, k=9)
        ex = BaseExec()
        caps = []
        for i in range(1, n + 1):
            layer = Executors.with_map(ex, lambda x: x)
            S.register_owner(layer, "x%d" % i)      # lock roles for the recorded lock programs
            cap = Capture(layer)
            caps.append(cap)
            ex = cap
        top = ex.submit(lambda: None)
        for cap in caps:
            futs.append(cap.got[0])
        assert futs[n] is top
        holder.append(futs[n])
        H.add_cb(futs[n], n, 1)
        for i, f in enumerate(futs):
            S.track(i, f)
            if i >= 1:
                S.role(f._me_lock, "flock%d" % i)

        def wait_start(name):
            E.vsleep(start.get(name, 0))     # (also with 0: the thread's first step of its own, as in the spec)

        def canceller(name):
            wait_start(name)
            H.do_cancel(futs[n], n)

        def completer():
            wait_start("comp")
            if not base.set_running_or_notify_cancel():
                return
            E.vsleep(0)
            if p.get("comp") == "exc":
                base.set_exception(H.UserError("x"))
            else:
                base.set_result(Val("v"))

        def xcanceller():
            wait_start("xcan")
            futs[p["xcan"]].cancel()

        def adder():
            wait_start("add")
            H.add_cb(futs[n], n, 2)

        for k in range(1, p.get("ncan", 1) + 1):
            E.spawn("can%d" % k, canceller, "can%d" % k)
        if p.get("comp") in ("value", "exc"):
            E.spawn("comp", completer)
        if p.get("xcan") is not None:
            E.spawn("xcan", xcanceller)
        if p.get("add"):
            E.spawn("add", adder)
        E.vsleep(horizon)
        E.emit("End")

    def visible(obj):
        r = E.SCHED.roles.get(id(obj))
        return isinstance(r, str) and r.startswith("flock")

    opts = {"horizon": horizon + 100000, "max_steps": 40000}
    if p.get("visible"):
        opts["visible"] = visible
    return main, opts
