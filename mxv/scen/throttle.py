"""Scenarios for ThrottleExecutor (C07; also C03/C06 material).

params:
  count    int | None | {"script": [[from_tick, value|None|"raise"], ...]}  (dynamic count callable)
  block    bool
  flavour  "manual" (ManualExecutor delegate, mirrors spec/Throttle.tla) | "pool"
  jobs     [{S: submit time, D: duration, K: cancel time or None, C: delegate cancellable,
             cbd: a done-callback of the returned future takes this many ticks (slow user callback)}]
  horizon  ticks
"""
from .. import engine as E
from .. import harness as H
from .common import ManualExecutor, Val, role_attr


class CountFn(object):
    def __init__(self, script):
        self.script = script

    def current(self):
        v = self.script[0][1]
        for t, val in self.script:
            if E.now() >= t:
                v = val
        return v

    def __call__(self):
        v = self.current()
        if v == "raise":
            E.emit("CountRaise")
            raise RuntimeError("count callable failed")
        E.emit("CountRet", a=-1 if v is None else v)
        return v


def build(p):
    jobs = p["jobs"]
    horizon = p.get("horizon", 1500)
    count = p.get("count", 1)
    block = bool(p.get("block", False))
    flavour = p.get("flavour", "manual")

    def main():
        from more_executors import Executors, ThrottleExecutor
        dyn = isinstance(count, dict)
        cfn = CountFn(count["script"]) if dyn else None
        if flavour == "manual":
            plan = {j + 1: {"dur": jb["D"], "cancellable": jb.get("C", False), "submit_delay": jb.get("SD", 0)}
                    for j, jb in enumerate(jobs)}
            base = ManualExecutor(plan, tag="tap")
        else:
            base = H.TapExecutor(Executors.thread_pool(max_workers=p.get("workers", 4), name="p"), "tap")
        E.emit("Cfg", a=-2 if dyn else (-1 if count is None else count), b=1 if block else 0)
        ex = ThrottleExecutor(base, cfn if dyn else count, name="t", block=block)
        role_attr(ex, "_shutdown._lock", "gate")
        role_attr(ex, "_lock", "qlock")
        role_attr(ex, "_event", "event")

        def canceller(j, fut, when):
            E.vsleep(max(when - E.now(), 0))
            H.do_cancel(fut, j)

        def sub(j):
            jb = jobs[j - 1]
            E.vsleep(jb["S"])
            fn = H.Scripted(j, [("V", Val(j))], dur=0 if flavour == "manual" else jb["D"])
            fut = H.do_submit(ex, j, fn)
            if fut is not None and jb.get("cbd"):
                fut.add_done_callback(lambda f_, d=jb["cbd"]: E.vsleep(d))     # a slow user callback
            if fut is not None and jb.get("K") is not None:
                E.spawn("can%d" % j, canceller, j, fut, jb["K"])

        for j in range(len(jobs)):
            E.spawn("sub%d" % (j + 1), sub, j + 1)
        if dyn:
            for t, v in count["script"][1:]:
                E.vsleep(max(t - E.now(), 0))
                E.emit("CountChange", a=-1 if v is None else (-3 if v == "raise" else v))
        E.vsleep(max(horizon - E.now(), 0))
        E.emit("End")

    def visible(obj):
        return E.SCHED.roles.get(id(obj)) in ("gate", "qlock", "event")

    opts = {"horizon": horizon + 200000, "max_steps": 40000}
    if p.get("visible"):
        opts["visible"] = visible
    return main, opts
