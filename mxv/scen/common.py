"""Pieces shared by the scenario drivers."""
from concurrent.futures import Executor, Future

from .. import engine as E
from .. import harness as H


class Val(object):
    """A unique result object (identity is what the traces compare)."""
    __slots__ = ("tag",)

    def __init__(self, tag):
        self.tag = tag

    def __repr__(self):
        return "Val(%r)" % (self.tag,)


class ManualExecutor(Executor):
    """Delegate whose work is simulated: submit() returns a plain Future and spawns an `env<sub>` thread that
    sleeps plan[sub]["dur"] ticks (0/None = never) and then runs the callable to obtain the outcome.
    plan[sub]["cancellable"] False = the future is RUNNING from the start (cancel() fails)."""

    def __init__(self, plan, tag="manual"):
        self.plan = plan
        self.tag = tag
        self.futs = {}
        self.weak = {}      # sub -> weak reference to the latest future handed out for it
        self.n = 0
        self.down = False
        self._name = "manual"

    def submit(self, fn, *args, **kwargs):
        if self.down:
            raise RuntimeError("cannot schedule new futures after shutdown")
        sub = getattr(fn, "sub", -1)
        self.n += 1
        k = self.n
        p = self.plan.get(sub, self.plan.get(str(sub), {}))
        if p.get("submit_delay"):
            E.vsleep(p["submit_delay"])     # a delegate whose submit() itself takes time (bounded queue, remote call)
        fut = Future()
        fut._mxv_sub = sub
        import weakref as _weakref
        self.weak[sub] = _weakref.ref(fut)
        retain = not self.plan.get("_noretain")
        if retain:
            self.futs.setdefault(sub, []).append(fut)
        else:
            self.futs.setdefault(sub, []).append(None)   # count attempts only: hold no reference (C12)
        E.emit("DelegateSubmit", f=sub, k=k, s=self.tag)
        if p.get("on_future"):
            p["on_future"](fut)     # e.g. a user's done-callback registered before the layer above registers its own
        if not p.get("cancellable", True):
            fut.set_running_or_notify_cancel()
        if retain and not p.get("cancel_dur"):
            H.tap_cancel(fut, sub, self.tag, k)
        dur = p.get("dur") or 0
        durs = dur if isinstance(dur, (list, tuple)) else [dur]
        d = durs[min(len(self.futs[sub]), len(durs)) - 1]

        box = [fut, fn, args, kwargs]

        def work():
            # (like concurrent.futures' _WorkItem.run this worker must not leave the future reachable from its own
            #  frame: a failing callable's exception keeps the traceback, the traceback keeps this frame)
            E.vsleep(d)
            f, fn_, args_, kwargs_ = box
            del box[:]
            if f._state in ("PENDING", "CANCELLED"):
                # what every executor's worker does with a work item: start it, or acknowledge its cancellation
                if not f.set_running_or_notify_cancel():
                    return
            elif f.cancelled():
                return
            try:
                v = fn_(*args_, **kwargs_)
            except E.SchedAbort:
                raise
            except BaseException as ex:
                f.set_exception(ex)
                f = fn_ = args_ = kwargs_ = None
                E.emit("DelegateDone", f=sub, a=1)
            else:
                f.set_result(v)
                f = fn_ = args_ = kwargs_ = v = None
                E.emit("DelegateDone", f=sub, a=0)

        if p.get("cancel_dur"):
            # a delegate whose cancel() is slow and refuses in the end (a remote cancel that is turned down)
            def slow_refusing_cancel():
                E.vsleep(p["cancel_dur"])
                return False

            fut.cancel = slow_refusing_cancel
        elif not d:
            # no worker will ever look at this item: acknowledge a cancellation at once (as a draining queue would)
            inner_cancel = fut.cancel

            def cancel_and_ack():
                r = inner_cancel()
                if r and fut._state == "CANCELLED":
                    try:
                        fut.set_running_or_notify_cancel()
                    except RuntimeError:
                        pass        # a concurrent cancel() of the harness acknowledged it first
                return r

            fut.cancel = cancel_and_ack
        if d:
            name = "env%d" % sub if len(self.futs[sub]) == 1 else "env%d_%d" % (sub, len(self.futs[sub]))
            E.spawn(name, work)
        return fut

    def shutdown(self, wait=True, **kw):
        E.emit("DelegateShutdown", s=self.tag, a=1 if wait else 0, b=1 if kw.get("cancel_futures") else 0, c=len(kw))
        self.down = True


def role_attr(obj, path, name):
    """Give a primitive found at a (private) attribute path a role name, if the path still exists.
    Only used to steer replays; a missing path degrades the replay, never the verdict."""
    cur = obj
    try:
        for p in path.split("."):
            cur = getattr(cur, p)
    except AttributeError:
        return None
    E.SCHED.role(cur, name)
    return cur
