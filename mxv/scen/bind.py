"""Scenarios for Executors.bind / flat_bind and name propagation (C19): paired programs.

params (one generated program, see spec/BindObs.tla and spec/Bind.tla):
  base      "sync" | "pool"      workers: pool size
  basename  0 none given | 1 the base executor is created with name=NAMES[1]
  layers    [{"type": map|flat_map|retry|poll|throttle|timeout|cos, "name": 0 | 2 (explicit name NAMES[2])}, ...]
  bindpos   0..len(layers): layers[:bindpos] are applied to the executor before bind, the rest to the bound callable
  flat      0 bind | 1 flat_bind (forms: 1 executor chain with the identity flat_map inserted at bindpos,
                                         2 bind(fn).with_flat_map(identity), 3 flat_bind(fn))
  kind      1 plain function | 2 functools.partial | 3 callable object | 4 function returning a future
  derive_junk  0 | 1 | 2: after bind and after every later layer a variant is derived from the object (with_map; 2: also
            with_retry) and thrown away
  subs      [{"script": "EV", "args": [...], "kwargs": {...}, "inner": "done" | "later"}]   one submission each
            script: outcome of fn per invocation for this submission (V value, E retryable exception, F other)

Every form is built from scratch with the public API only (Executors.*, with_*, bind, flat_bind) on its own base
executor and its own recording callable.  The final outcome of every submission is reduced to a canonical term
(which object, through which tagging layers, nested in a future or not) and encoded as the integer the
specification computes (Bind!Enc); thread names are read from the scheduler's thread table right after the
with_* call that created them.
"""
import functools

from .. import engine as E
from .. import harness as H

NAMES = {1: "nB7", 2: "mQ4"}
THREAD_PREFIX = {"retry": "RetryExecutor-", "poll": "PollExecutor-", "throttle": "ThrottleExecutor-",
                 "timeout": "TimeoutExecutor-", "pool": "ThreadPoolExecutor-"}


class Val(object):
    __slots__ = ("sub", "k")

    def __init__(self, sub, k):
        self.sub, self.k = sub, k

    def __repr__(self):
        return "Val(%d,%d)" % (self.sub, self.k)


class Recorder(object):
    """The user's function of one form: called as fn(sub, *args, **kwargs); records every invocation and answers
    from the submission's script."""

    def __init__(self, form, subs, kind, prefix=()):
        self.form = form
        self.subs = subs
        self.kind = kind
        self.prefix = tuple(prefix)
        self.n = {}
        self.last = {}
        self.args_ok = {}
        self.helpers = 0

    def invoke(self, *args, **kwargs):
        from concurrent.futures import Future
        args = tuple(args)
        if args[:len(self.prefix)] != self.prefix or len(args) <= len(self.prefix):
            raise AssertionError("recorder called with %r" % (args,))
        args = args[len(self.prefix):]
        sub = args[0]
        spec = self.subs[sub - 1]
        k = self.n[sub] = self.n.get(sub, 0) + 1
        ok = list(args[1:]) == list(spec.get("args", ())) and dict(kwargs) == dict(spec.get("kwargs", {}))
        self.args_ok[sub] = self.args_ok.get(sub, True) and ok
        script = spec.get("script", "V")
        o = script[min(k, len(script)) - 1]
        E.emit("Invoke", f=sub, k=k, a=self.form, s=o)
        E.upoint()
        if o == "V":
            res = ("v", Val(sub, k))
        else:
            res = ("e", H.UserError("s%d.%d" % (sub, k)) if o == "E" else H.OtherError("s%d.%d" % (sub, k)))
        self.last[sub] = res[1]
        if self.kind != 4:
            if res[0] == "v":
                return res[1]
            raise res[1]
        fut = Future()

        def resolve():
            if res[0] == "v":
                fut.set_result(res[1])
            else:
                fut.set_exception(res[1])

        if spec.get("inner", "done") == "later":
            self.helpers += 1

            def later():
                E.vsleep(50)
                resolve()

            E.spawn("inner%d_%d_%d" % (self.form, sub, k), later)
        else:
            resolve()
        return fut


class CallableObject(object):
    def __init__(self, rec):
        self.rec = rec

    def __call__(self, *args, **kwargs):
        return self.rec.invoke(*args, **kwargs)


class FalsyCallable(CallableObject):
    """A callable container that is currently empty: falsy, and a callable like any other."""

    def __len__(self):
        return 0


def make_fn(rec):
    if rec.kind == 2:
        rec.prefix = (77,)
        return functools.partial(rec.invoke, 77)
    if rec.kind == 3:
        obj = FalsyCallable(rec) if getattr(rec, "falsy", False) else CallableObject(rec)
        if getattr(rec, "attrs", False):
            # a decorator-style callable object carrying attributes a wrapper might also use
            obj._fn = obj.fn = obj._BoundCallable__fn_ = (lambda *a, **k: "WRONG-FUNCTION")
            obj._executor = obj.executor = None
            obj._name = "from-callable"
        return obj

    def fn(*args, **kwargs):
        return rec.invoke(*args, **kwargs)

    return fn


def is_future(x):
    return callable(getattr(x, "add_done_callback", None)) and callable(getattr(x, "result", None))


def enc(term):
    n = 0
    for d in term:
        n = n * 16 + d
    return n


def name_id(thread_name):
    for i, nm in NAMES.items():
        if nm in thread_name:
            return i
    return 0 if "default" in thread_name else 9


def build(p):
    layers = p.get("layers", [])
    bindpos = p.get("bindpos", 0)
    flat = 1 if p.get("flat") else 0
    kind = p.get("kind", 1)
    subs = p.get("subs") or [{"script": "V"}]
    basekind = p.get("base", "pool")
    basename = p.get("basename", 0)
    horizon = p.get("horizon", 30000)
    forms = [1, 2, 3] if flat else [1, 2]

    def main():
        from more_executors import Executors
        from more_executors.futures import f_return

        E.emit("Cfg", k=kind, a=len(layers), b=bindpos, c=flat, s=basekind)
        E.emit("Layer", k=0, a=basename, s=basekind)
        for i, L in enumerate(layers):
            E.emit("Layer", k=i + 1, a=L.get("name", 0), s=L["type"])

        def snap():
            return set(E.SCHED.threads.keys())

        def new_names(before):
            return [r.name for t, r in list(E.SCHED.threads.items()) if t not in before]

        def tagger(i):
            return lambda x: ("t", i, x)

        def add_layer(obj, i, L, created, after_bind):
            kw = {}
            if L.get("name"):
                kw["name"] = NAMES[L["name"]]
            t = L["type"]
            before = snap()
            if t == "map":
                out = obj.with_map(tagger(i), **kw)
            elif t == "flat_map":
                out = obj.with_flat_map(lambda x: f_return(("t", i, x)), **kw)
            elif t == "retry":
                out = obj.with_retry(max_attempts=3, sleep=0.1, exponent=1.0, exception_base=H.UserError, **kw)
            elif t == "poll":
                def poll(descriptors):
                    for d in descriptors:
                        d.yield_result(("t", i, d.result))
                out = obj.with_poll(poll, default_interval=0.05, **kw)
            elif t == "throttle":
                out = obj.with_throttle(2, **kw)
            elif t == "timeout":
                out = obj.with_timeout(60.0, **kw)
            elif t == "cos":
                out = obj.with_cancel_on_shutdown(**kw)
            else:
                raise ValueError(t)
            created.append((i, t, 1 if after_bind else 0, new_names(before)))
            return out

        def wait_done(futs):
            H.wait_all(futs, horizon)

        def term_of_exc(e, rec, sub):
            if e is rec.last.get(sub):
                return [2] if isinstance(e, H.UserError) else [3]
            if isinstance(e, TypeError) and "did not return a Future" in str(e):
                return [4]
            return [6]

        def term_of_value(v, rec, sub, depth=0):
            if depth > 8:
                return [6]
            if isinstance(v, tuple) and len(v) == 3 and v[0] == "t":
                return term_of_value(v[2], rec, sub, depth + 1) + [8 + v[1]]
            if is_future(v):
                wait_done([v])
                if not v.done() or v.cancelled():
                    return [6, 5]
                ex = v.exception()
                if ex is not None:
                    return term_of_exc(ex, rec, sub) + [5]
                return term_of_value(v.result(), rec, sub, depth + 1) + [5]
            if v is rec.last.get(sub) and rec.args_ok.get(sub):
                return [1]
            return [6]

        def run_form(form):
            rec = Recorder(form, subs, kind)
            rec.attrs = bool(p.get("attrs"))
            rec.falsy = bool(p.get("falsy"))
            fn = make_fn(rec)
            created = []
            kw = {"name": NAMES[basename]} if basename else {}
            if basekind == "sync":
                base = Executors.sync(**kw)
            else:
                base = Executors.thread_pool(max_workers=p.get("workers", 2), **kw)
            obj = base
            for i in range(bindpos):
                obj = add_layer(obj, i + 1, layers[i], created, False)
            if form == 1:
                if flat:
                    obj = obj.with_flat_map(lambda f: f)
            elif form == 2:
                obj = obj.bind(fn)
                if flat:
                    obj = obj.with_flat_map(lambda f: f)
            else:
                obj = obj.flat_bind(fn)
            def junk(o):
                # a variant derived from the same object and thrown away: deriving never changes what it is derived from
                if p.get("derive_junk"):
                    o.with_map(lambda x: ("junk", x))
                    o.with_retry(max_attempts=2, sleep=0.0, exception_base=H.UserError) if p["derive_junk"] == 2 else None

            junk(obj)
            for i in range(bindpos, len(layers)):
                obj = add_layer(obj, i + 1, layers[i], created, form != 1)
                junk(obj)
            before = snap()
            futs = {}
            for s, spec in enumerate(subs):
                sub = s + 1
                args, kwargs = list(spec.get("args", ())), dict(spec.get("kwargs", {}))
                E.emit("SubmitCall", f=sub, a=form)
                E.upoint()
                try:
                    if form == 1:
                        futs[sub] = obj.submit(fn, sub, *args, **kwargs)
                    else:
                        futs[sub] = obj(sub, *args, **kwargs)
                except E.SchedAbort:
                    raise
                except BaseException as ex:  # noqa
                    futs[sub] = ex
                E.emit("SubmitRet", f=sub, a=form)
            wait_done([f for f in futs.values() if is_future(f)])
            outcomes = {}
            for sub in sorted(futs):
                f = futs[sub]
                if not is_future(f):
                    term = [7, 1 if isinstance(f, TypeError) else 2]
                elif not f.done():
                    term = [6, 6]
                elif f.cancelled():
                    term = [6, 7]
                elif f.exception() is not None:
                    term = term_of_exc(f.exception(), rec, sub)
                else:
                    term = term_of_value(f.result(), rec, sub)
                outcomes[sub] = term
            pool_threads = [n for n in new_names(before) if n.startswith(THREAD_PREFIX["pool"])]
            if basekind == "pool":
                created.insert(0, (0, "pool", 0, pool_threads))
            for sub in sorted(outcomes):
                E.emit("FormOutcome", a=form, f=sub, b=enc(outcomes[sub]), c=rec.n.get(sub, 0))
                if flat and kind == 4:
                    E.emit("Flattened", a=form, f=sub, b=0 if 5 in outcomes[sub] else 1)
            return created

        created = {}
        for form in forms:
            created[form] = run_form(form)
        E.emit("FormsDone")
        for form in forms:
            for (i, t, ab, names) in created[form]:
                for nm in names:
                    ok = nm.startswith(THREAD_PREFIX.get(t, "\0"))
                    E.emit("ThreadNamed", f=form, k=i, s=t, a=name_id(nm), b=ab, c=1 if ok else 0)
        E.emit("End")

    return main, {"horizon": 10 ** 7, "max_steps": 1000000}
