"""Scenarios for f_proxy / f_nocancel (C17).

params:
  cases    list of independent cases, each with its own input future and wrapper:
             {id, kind: 1 f_proxy | 2 f_nocancel | 3 f_nocancel(f_proxy(f)) | 4 f_proxy(f_proxy(f), timeout),
              twin: True = the operations of the (single) caller are also applied, in the same order, to ONE plain
                    copy of the value kept for the whole case (instead of a fresh copy per operation): sequences
                    of reads and mutations of the same result object,
              state: 1 resolved | 2 failed | 3 pending, resolved by thread comp<id> after D ticks |
                     4 pending for ever | 5 pending, failed by comp<id> after D ticks,
              tmo: timeout in ticks given to f_proxy, or None, D: ticks, val: index into POOL,
              exc: name of the exception class f fails with,
              callers: [{name, S: start tick, ops: [[opname, [operand POOL indices / literals]], ...]}],
              cancels: [{name, S, n}]}           (cancel() calls on the wrapper)
  horizon  ticks
  visible  True = the only primitive that is a scheduling point is the wrapper's condition (the timed wait of
           result(timeout)); otherwise threads switch only when they sleep / end: the granularity of
           spec/Proxy.tla, used for spec -> code replay

For every operation instance the harness applies the same operation to the wrapper and to a plain fresh copy
of the value f resolves with, and records the comparison code in OpRet.b (see spec/ProxyObs.tla).
"""
import copy
import math
import operator
from decimal import Decimal
from fractions import Fraction

from .. import engine as E
from .. import harness as H
from .common import role_attr


# ------------------------------------------------------------------------------- values with custom dunders
class Boom(Exception):
    pass


class Num(object):
    """Answers every operator with a tagged record of (operator, own value, operands)."""

    def __init__(self, v):
        self.v = v

    def __repr__(self):
        return "Num(%r)" % (self.v,)

    def __eq__(self, o):
        return isinstance(o, Num) and repr(o.v) == repr(self.v)

    def __hash__(self):
        return 7

    def _t(self, tag, *a):
        return Num((tag, self.v) + a)


def _num_op(tag):
    def m(self, *a):
        return self._t(tag, *a)
    return m


for _n in ("add", "sub", "mul", "truediv", "floordiv", "mod", "divmod", "pow", "lshift", "rshift", "and", "xor",
           "or", "neg", "pos", "abs", "invert", "getitem"):
    setattr(Num, "__%s__" % _n, _num_op(_n))
Num.__len__ = lambda self: 3
Num.__int__ = lambda self: 41
Num.__float__ = lambda self: 41.5
Num.__complex__ = lambda self: 4 + 1j
Num.__round__ = lambda self, *nd: ("round", self.v) + nd
Num.__trunc__ = lambda self: 40
Num.__floor__ = lambda self: 39
Num.__ceil__ = lambda self: 42
Num.__iter__ = lambda self: iter([self.v, "x"])
Num.__contains__ = lambda self, x: x == self.v
Num.twice = lambda self, x=1: ("twice", self.v, x)
Num.field = "num-field"


class Grumpy(object):
    """Every operator raises Boom."""

    def __repr__(self):
        return "Grumpy()"

    def __getattr__(self, name):
        if name.startswith("__"):
            raise AttributeError(name)
        raise Boom(name)


def _boom(self, *a):
    raise Boom()


for _n in ("add", "sub", "mul", "truediv", "floordiv", "mod", "divmod", "pow", "lshift", "rshift", "and", "xor",
           "or", "neg", "pos", "abs", "invert", "getitem", "setitem", "delitem", "len", "iter", "contains", "int",
           "float", "complex", "round", "trunc", "floor", "ceil"):
    setattr(Grumpy, "__%s__" % _n, _boom)


class Ref(object):
    """Only reflected operators: the left operand has to answer NotImplemented for these to be reached."""

    def __repr__(self):
        return "Ref()"


def _ref_op(tag):
    def m(self, other):
        return (tag, other)
    return m


for _n in ("radd", "rsub", "rmul", "rtruediv", "rfloordiv", "rmod", "rdivmod", "rpow", "rlshift", "rrshift",
           "rand", "rxor", "ror"):
    setattr(Ref, "__%s__" % _n, _ref_op(_n))


class Box(object):
    """A container with item access, attributes, methods and properties."""

    def __init__(self, items):
        self.items = dict(items)
        self.label = "box"
        self._hidden = ("hidden", len(self.items))      # a "private" attribute is an attribute like any other

    def _peek(self, k=None):
        return ("peek", k, sorted(self.items, key=repr))

    def __repr__(self):
        return "Box(%r, %r)" % (sorted(self.items.items(), key=repr), self.label)

    def __len__(self):
        return len(self.items)

    def __getitem__(self, k):
        return self.items[k]

    def __setitem__(self, k, v):
        self.items[k] = v

    def __delitem__(self, k):
        del self.items[k]

    def __iter__(self):
        return iter(sorted(self.items, key=repr))

    def __contains__(self, k):
        return k in self.items

    def put(self, k, v=None):
        self.items[k] = v
        return len(self.items)

    def fail(self, *a):
        raise Boom("fail")

    def relabel(self, v=None):
        self.label = v          # rebinds a plain attribute
        return v

    @property
    def size(self):
        return len(self.items)

    @property
    def broken(self):
        raise AttributeError("broken property")

    @property
    def angry(self):
        raise Boom("angry property")


import collections

Point = collections.namedtuple("Point", ["x", "y"])      # its public API starts with ONE underscore (_asdict, _replace ...)


# ------------------------------------------------------------------------------- the operand / value pool
POOL = [
    ("int", lambda: 0), ("int", lambda: 1), ("int", lambda: -1), ("int", lambda: 2), ("int", lambda: 7),
    ("int", lambda: -13), ("int", lambda: 255), ("int", lambda: 2 ** 40), ("int", lambda: 10 ** 20),
    ("bool", lambda: True), ("bool", lambda: False),
    ("float", lambda: 0.0), ("float", lambda: -0.0), ("float", lambda: 1.5), ("float", lambda: -2.25),
    ("float", lambda: 1e308), ("float", lambda: float("inf")), ("float", lambda: float("-inf")),
    ("float", lambda: float("nan")), ("float", lambda: 3.0),
    ("complex", lambda: 1 + 2j), ("complex", lambda: 0j),
    ("str", lambda: ""), ("str", lambda: "abc"), ("str", lambda: "Hello %s"), ("str", lambda: "%d-%d"),
    ("str", lambda: "12"), ("str", lambda: "1.5"), ("str", lambda: "a,b"),
    ("bytes", lambda: b""), ("bytes", lambda: b"xyz"), ("bytearray", lambda: bytearray(b"qr")),
    ("list", lambda: []), ("list", lambda: [1, 2, 3]), ("list", lambda: ["a", [1], None]),
    ("tuple", lambda: ()), ("tuple", lambda: (1, 2)), ("tuple", lambda: (0, "x", 2.5)),
    ("dict", lambda: {}), ("dict", lambda: {"a": 1, 2: "b"}), ("dict", lambda: {1: [1]}),
    ("set", lambda: set()), ("set", lambda: {1, 2, 3}), ("frozenset", lambda: frozenset([2, 3])),
    ("NoneType", lambda: None), ("range", lambda: range(4)), ("slice", lambda: slice(0, 2)),
    ("Fraction", lambda: Fraction(1, 3)), ("Fraction", lambda: Fraction(-7, 2)),
    ("Decimal", lambda: Decimal("1.5")), ("Decimal", lambda: Decimal("0")),
    ("Num", lambda: Num(3)), ("Num", lambda: Num("n")), ("Grumpy", lambda: Grumpy()), ("Ref", lambda: Ref()),
    ("Box", lambda: Box({"a": 1, 2: "b"})), ("Box", lambda: Box({})),
    ("attr", lambda: "real"), ("attr", lambda: "upper"), ("attr", lambda: "append"), ("attr", lambda: "keys"),
    ("attr", lambda: "label"), ("attr", lambda: "size"), ("attr", lambda: "broken"), ("attr", lambda: "angry"),
    ("attr", lambda: "field"), ("attr", lambda: "no_such_attribute"), ("attr", lambda: "count"),
    ("attr", lambda: "twice"), ("attr", lambda: "put"), ("attr", lambda: "fail"), ("attr", lambda: "bit_length"),
    ("attr", lambda: "imag"), ("attr", lambda: "items"), ("attr", lambda: "pop"), ("attr", lambda: "copy"),
    ("attr", lambda: "_private"), ("attr", lambda: "split"), ("attr", lambda: "conjugate"),
    # (appended: indices above are referred to by number)
    ("Point", lambda: Point(3, "y")), ("Point", lambda: Point(0, None)),
    ("attr", lambda: "_asdict"), ("attr", lambda: "_fields"), ("attr", lambda: "_replace"), ("attr", lambda: "_hidden"),
    ("attr", lambda: "_peek"), ("attr", lambda: "x"),
]
ATTR_IDX = [i for i, (t, _) in enumerate(POOL) if t == "attr"]
VALUE_IDX = [i for i, (t, _) in enumerate(POOL) if t not in ("attr", "slice", "Ref")]
OPERAND_IDX = [i for i, (t, _) in enumerate(POOL) if t != "attr"]
DUNDERS = ["__index__", "__enter__", "__exit__", "__radd__", "__rsub__", "__matmul__", "__foo__", "__bytes__",
           "__fspath__", "__await__", "__length_hint__", "__reversed__", "__copy__", "__deepcopy__", "__iadd__",
           "__next__", "__call__", "__aiter__", "__missing__", "__set_name__", "__"]


def make(spec):
    """spec: int = POOL index | ["lit", x] a JSON literal"""
    if isinstance(spec, (list, tuple)):
        return copy.deepcopy(spec[1])
    return POOL[spec][1]()


def type_of(spec):
    if isinstance(spec, (list, tuple)):
        return type(spec[1]).__name__
    return POOL[spec][0]


def _big(x):
    if isinstance(x, bool):
        return False
    if isinstance(x, (int, Fraction, Decimal)):
        return abs(x) > 1000
    return False


_SEQ = (str, bytes, bytearray, list, tuple)


def harmless(opname, value, operands):
    """False for operand combinations whose *plain* evaluation is astronomically expensive (10**20 ** 10**20):
    they are no use for a differential check.  Decided on the plain values only."""
    if opname in ("pow", "pow3", "lshift", "round2"):
        if operands and _big(operands[0]):
            return False
    if opname == "mul":
        o = operands[0]
        if (isinstance(value, _SEQ) and _big(o)) or (isinstance(o, _SEQ) and _big(value)):
            return False
    if opname == "call" and len(operands) > 1 and _big(operands[1]):
        return False
    return True


# ------------------------------------------------------------------------------- operations
def _setitem(t, k, v):
    t[k] = v


def _delitem(t, k):
    del t[k]


def _call(t, name, *a):
    return getattr(t, name)(*a)


# class 1: everything ProxyFuture forwards to the result
FORWARDED = {
    "len": (0, len), "getitem": (1, operator.getitem), "setitem": (2, _setitem), "delitem": (1, _delitem),
    "iter": (0, iter), "contains": (1, lambda t, x: x in t),
    "add": (1, operator.add), "sub": (1, operator.sub), "mul": (1, operator.mul), "truediv": (1, operator.truediv),
    "floordiv": (1, operator.floordiv), "mod": (1, operator.mod), "divmod": (1, divmod), "pow": (1, pow),
    "pow3": (2, pow), "lshift": (1, operator.lshift), "rshift": (1, operator.rshift), "and": (1, operator.and_),
    "xor": (1, operator.xor), "or": (1, operator.or_),
    "neg": (0, operator.neg), "pos": (0, operator.pos), "abs": (0, abs), "invert": (0, operator.invert),
    "complex": (0, complex), "int": (0, int), "float": (0, float), "round": (0, round), "round2": (1, round),
    "trunc": (0, math.trunc), "floor": (0, math.floor), "ceil": (0, math.ceil),
    "getattr": (1, getattr), "call": (2, _call), "call0": (1, _call),
    "div": (1, lambda t, x: t.__div__(x)),   # the python 2 name: reachable only as an explicit method call
}
MUTATING = ("setitem", "delitem", "call", "call0")
# class 2: answered by the wrapper itself, never by the result
NONFORWARDED = {
    "bool": (0, bool), "not": (0, operator.not_), "repr": (0, repr), "str": (0, str),
    "eq": (1, operator.eq), "ne": (1, operator.ne), "eqself": (0, lambda t: t == t), "hash": (0, hash),
    "dictkey": (0, lambda t: {t: 1}[t]), "inlist": (1, lambda t, x: t in [x, t]), "format": (0, format),
    "nonzero": (0, lambda t: t.__nonzero__()), "dunder": (1, getattr), "hasdunder": (1, hasattr),
    "is_none": (0, lambda t: t is None),
}


def op_class(name):
    return 1 if name in FORWARDED else 2


def op_fn(name):
    return (FORWARDED.get(name) or NONFORWARDED[name])[1]


def op_arity(name):
    return (FORWARDED.get(name) or NONFORWARDED[name])[0]


# ------------------------------------------------------------------------------- comparing outcomes
def norm(x, depth=0):
    """A printable normal form in which two separately computed, equal outcomes coincide."""
    if depth > 6:
        return "..."
    if isinstance(x, (list, tuple)):
        return (type(x).__name__, [norm(y, depth + 1) for y in x])
    if isinstance(x, dict):
        return ("dict", sorted(((norm(k, depth + 1), norm(v, depth + 1)) for k, v in x.items()), key=repr))
    if isinstance(x, (set, frozenset)):
        return (type(x).__name__, sorted((norm(y, depth + 1) for y in x), key=repr))
    if hasattr(x, "__next__"):
        out = []
        try:
            for i, y in enumerate(x):
                if i >= 64:
                    break
                out.append(norm(y, depth + 1))
        except Exception as e:  # noqa
            out.append(("raised", type(e).__name__))
        return ("iterator", type(x).__name__, out)
    if callable(x) and hasattr(x, "__self__") and hasattr(x, "__name__"):
        return ("method", x.__name__, norm(x.__self__, depth + 1))
    if isinstance(x, Num):
        return ("Num", norm(x.v, depth + 1))
    if isinstance(x, int) and not isinstance(x, bool):
        return ("int", hex(x))                      # repr() of an int is limited to 4300 digits
    if isinstance(x, Fraction):
        return ("Fraction", hex(x.numerator), hex(x.denominator))
    try:
        return (type(x).__name__, repr(x))
    except ValueError:
        return (type(x).__name__, "<no printable form>")


def outcome(fn, target, args):
    try:
        return ("v", fn(target, *args))
    except E.SchedAbort:
        raise
    except BaseException as e:  # noqa
        return ("e", e)


EXCS = {"UserError": lambda: H.UserError("boom"), "AttributeError": lambda: AttributeError("attr-boom"),
        "TypeError": lambda: TypeError("type-boom"), "KeyError": lambda: KeyError("key-boom"),
        "TimeoutError": lambda: TimeoutError("own-timeout"), "StopIteration": lambda: StopIteration("stop-boom"),
        "Boom": lambda: Boom("boom")}


def build(p):
    cases = p["cases"]
    horizon = p.get("horizon", 2000)

    def main():
        from concurrent.futures import Future
        from more_executors.futures import f_proxy, f_nocancel
        ctx = {}
        for cs in cases:
            cid = cs["id"]
            state, kind, tmo = cs["state"], cs.get("kind", 1), cs.get("tmo")
            E.emit("Cfg", f=cid, a=state, b=-1 if tmo is None else tmo, c=kind)
            f = Future()
            H.tap_cancel(f, cid, "input")
            c = {"f": f, "exc": None, "valspec": cs.get("val", 1)}
            if state in (2, 5):
                c["exc"] = EXCS[cs.get("exc", "UserError")]()
            if state == 1:
                f.set_result(make(c["valspec"]))
            elif state == 2:
                f.set_exception(c["exc"])
            try:
                if kind == 1:
                    w = f_proxy(f) if tmo is None else f_proxy(f, timeout=tmo / 1000.0)
                elif kind == 2:
                    w = f_nocancel(f)
                elif kind == 3:
                    w = f_nocancel(f_proxy(f))
                else:
                    w = f_proxy(f_proxy(f)) if tmo is None else f_proxy(f_proxy(f), timeout=tmo / 1000.0)
            except E.SchedAbort:
                raise
            except BaseException as ex:     # wrapping a future never raises, whatever state the future is in
                E.emit("WrapRaise", f=cid, s=type(ex).__name__)
                cs["callers"], cs["cancels"] = [], []
                ctx[cid] = c
                continue
            E.SCHED.track(cid, w)
            role_attr(w, "_condition", "wcond")     # replay steering only: the one blocking primitive of the model
            c["w"] = w
            ctx[cid] = c

        def apply_op(cs, c, k, opname, operand_specs):
            cid = cs["id"]
            cls, fn = op_class(opname), op_fn(opname)
            args = [make(s) for s in operand_specs]
            f, w = c["f"], c["w"]
            E.emit("OpCall", f=cid, k=k, c=cls, s=opname)
            E.upoint()
            got = outcome(fn, w, args)
            done = getattr(f, "_state", "PENDING") != "PENDING"
            code = -1
            if cls == 1:
                code = 0
                value_known = cs["state"] in (1, 3)
                if got[0] == "e" and c["exc"] is not None and got[1] is c["exc"]:
                    code = 3
                elif value_known and done:
                    if cs.get("twin"):
                        if "twin" not in c:
                            c["twin"] = make(c["valspec"])
                        plain = c["twin"]
                    else:
                        plain = make(c["valspec"])
                    want = outcome(fn, plain, [make(s) for s in operand_specs])
                    if got[0] == "v" and want[0] == "v":
                        same = norm(got[1]) == norm(want[1])
                        if opname in MUTATING or cs.get("twin"):
                            same = same and norm(f.result()) == norm(plain)
                        code = 1 if same else 0
                    elif got[0] == "e" and want[0] == "e":
                        code = 2 if type(got[1]) is type(want[1]) else 0
                        if code == 2 and (opname in MUTATING or cs.get("twin")) and norm(f.result()) != norm(plain):
                            code = 0
                # a TimeoutError that is not what the plain value gives: the contract decides from the times
                # whether the configured timeout really had expired before the owner resolved f
                if code == 0 and got[0] == "e" and isinstance(got[1], TimeoutError):
                    code = 4
            E.emit("OpRet", f=cid, k=k, a=1 if got[0] == "v" else 2, b=code, c=1 if done else 0,
                   s=type(got[1]).__name__ if got[0] == "e" else "")

        def caller(cs, spec, base_k):
            E.vsleep(spec.get("S", 0))
            c = ctx[cs["id"]]
            for i, (opname, operand_specs) in enumerate(spec["ops"]):
                apply_op(cs, c, base_k + i, opname, operand_specs)
                gap = spec.get("gap")
                if gap:
                    E.vsleep(gap)

        def completer(cs):
            c = ctx[cs["id"]]
            E.vsleep(cs.get("D", 0))
            fail = cs["state"] == 5
            if cs["state"] == 6:
                # the owner of f cancels it (directly on the input future, not through the wrapper)
                E.emit("InputSet", f=cs["id"], a=2)
                E.upoint()
                from concurrent.futures import Future as _F
                _F.cancel(c["f"])
                c["f"].set_running_or_notify_cancel()
                return
            E.emit("InputSet", f=cs["id"], a=1 if fail else 0)
            E.upoint()
            if fail:
                c["f"].set_exception(c["exc"])
            else:
                c["f"].set_result(make(c["valspec"]))

        def canceller(cs, spec):
            E.vsleep(spec.get("S", 0))
            for _ in range(spec.get("n", 1)):
                H.do_cancel(ctx[cs["id"]]["w"], cs["id"])

        for cs in cases:
            k = 1
            for spec in cs.get("callers", ()):
                E.spawn(spec["name"], caller, cs, spec, spec.get("k", k))
                k += len(spec["ops"])
            if cs["state"] in (3, 5, 6):
                E.spawn("comp%d" % cs["id"], completer, cs)
            for spec in cs.get("cancels", ()):
                E.spawn(spec["name"], canceller, cs, spec)
        E.vsleep(horizon)
        E.emit("End")

    opts = {"horizon": horizon + 100000, "max_steps": 60000}
    if p.get("visible"):
        opts["visible"] = lambda obj: E.SCHED.roles.get(id(obj)) == "wcond"
    return main, opts
