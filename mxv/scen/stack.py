"""Generic scenario: an executor stack built with the public Executors / with_* API, with a recording tap
under every layer, several client threads, optional cancels / callbacks / shutdown / probes.
Serves C01, C06, C11, C18, C04, C03, C02.

params:
  base     "sync" | "pool" (workers) | "manual"
  workers  int
  layers   bottom -> top, each {"t": ...}:
             {"t":"map", "fn": "tag"|"raise"|"none"|None, "efn": "tag"|"raise"|"reraise"|"none"|None}   ("none": returns None)
             {"t":"flat_map", "fn": "tag"|"raise"|"nonfuture"|"later"|None}      ("later": returns a pending future
                                                    that an env thread resolves 50 ticks later)
             {"t":"retry", "max": n, "sleep": ticks}
             {"t":"poll", "mode": "first"|"second"|"raise1"}   (resolve on first / second poll; 1st poll raises)
             {"t":"throttle", "count": n|None, "block": bool}
             {"t":"timeout", "T": ticks}
             {"t":"cos"}
  subs     [{S: time, script: ["V"|"E"|"F",...], dur: ticks, nargs, nkw, kwnames: [...], K: [cancel times],
             xcancel: {tap: i, at: t}  (somebody else cancels the future tap i returned),
             cb: bool, thread: client index, nested: bool (callable submits a probe to the same executor),
             nested_cb: bool (a done-callback submits to the same executor), wait: bool (a client blocks in result()),
             fault: {site, k}}]
  shutdown {"at": t, "wait": bool, "repeat": n, "threads": n, "cancel_futures": None (not passed) | bool} | None
  probe    time at which a fresh submission probes liveness (C18) | None
  names    {"base": name | None, "layers": {index: name}}
  horizon
Events: Layer(k=index, s=type, a,b,c = parameters) for every layer, Sub(f, xs=script codes, a=dur), then the
client operations (harness.do_*), Invoke/InvokeEnd, FnCall/FnEnd(site, k=layer), DelegateSubmit at taps
(s="tap<i>", i = index of the layer ABOVE the tap), DelegateShutdown, CancelArrived, Observed(f, state, a,
xs = outcome term), End.
"""
from concurrent.futures import Future

from .. import engine as E
from .. import harness as H
from .common import ManualExecutor, Val

CODES = {"V": 0, "E": 1, "F": 2, "B": 2}
LTYPES = {"map": 1, "flat_map": 2, "retry": 3, "poll": 4, "throttle": 5, "timeout": 6, "cos": 7}


class Tag(object):
    """Result of a tagging user function: (layer index, inner value)."""
    __slots__ = ("layer", "inner", "kind")

    def __init__(self, layer, inner, kind="g"):
        self.layer = layer
        self.inner = inner
        self.kind = kind


class LayerError(Exception):
    def __init__(self, layer, site):
        Exception.__init__(self, "layer %d %s" % (layer, site))
        self.layer = layer
        self.site = site


def term_of(v, s):
    """Structural encoding of an outcome value: [1000+layer for each tag applied, outermost first ..., base id]."""
    out = []
    while isinstance(v, Tag):
        out.append((1000 if v.kind == "g" else 2000 if v.kind == "e" else 3000) + v.layer)
        v = v.inner
    if isinstance(v, Future):
        out.append(-7)  # a nested future: never a legal outcome
        return out
    if v is None:
        out.append(-5)  # a user function answered None: a value like any other
        return out
    if isinstance(v, LayerError):
        out.append(-(100 + v.layer))
        return out
    if isinstance(v, TypeError):
        out.append(-99)
        return out
    if isinstance(v, BaseException):
        out.append(s.ident(v, "val"))
        return out
    out.append(s.ident_val(v))
    return out


def build(p):
    layers = p.get("layers", [])
    subs = p["subs"]
    horizon = p.get("horizon", 6000)
    base_kind = p.get("base", "pool")
    workers = p.get("workers", 2)
    names = p.get("names") or {}
    shutdown = p.get("shutdown")
    nclients = max([sb.get("thread", 0) for sb in subs] + [0]) + 1

    def main():
        from more_executors import Executors
        s = E.SCHED
        state = {"futs": {}, "ex": None, "poll_seen": {}}

        # ---- base
        bname = names.get("base")
        if base_kind == "sync":
            ex = Executors.sync(**({"name": bname} if bname else {}))
        elif base_kind == "pool":
            ex = Executors.thread_pool(max_workers=workers, name=bname or "p")
        else:
            plan = {i + 1: {"dur": sb.get("dur", 100), "cancellable": True} for i, sb in enumerate(subs)}
            ex = ManualExecutor(plan, tag="tap0")
        E.emit("Base", s=base_kind, a=workers)
        taps = []

        def mk_fn(i, mode, kind):
            if mode is None:
                return None

            def fn(x):
                E.emit("FnCall", k=i, s=kind + ":" + mode)
                E.upoint()
                if mode == "raise":
                    raise LayerError(i, kind)
                if mode == "reraise":
                    raise x
                if mode == "none":
                    return None
                return Tag(i, x, "g" if kind == "fn" else "e")

            return fn

        ly_dur = {i: ly.get("fn_dur", 0) for i, ly in enumerate(layers, start=1)}

        def sub_of(x):
            while isinstance(x, Tag):
                x = x.inner
            t = getattr(x, "tag", None)
            return t[0] if isinstance(t, tuple) and isinstance(t[0], int) else -1

        def mk_flat_fn(i, mode):
            if mode is None:
                return None

            def fn(x):
                E.emit("FnCall", k=i, s="ffn:" + mode)
                E.upoint()
                if mode == "raise":
                    raise LayerError(i, "ffn")
                if mode == "nonfuture":
                    return Tag(i, x)
                f = Future()
                if mode == "later":
                    j = sub_of(x)
                    if ly_dur.get(i):
                        E.vsleep(ly_dur[i])       # the future-returning function itself takes (virtual) time
                    E.emit("InnerCreated", f=j, k=i)
                    H.tap_cancel(f, j, "inner", i)

                    def later():
                        E.vsleep(50)
                        if f.set_running_or_notify_cancel():
                            E.emit("InnerRun", f=j, k=i)     # the flat-mapped inner work starts
                            f.set_result(Tag(i, x))

                    E.spawn("env_inner%d_%d" % (i, j), later)
                else:
                    f.set_result(Tag(i, x))
                return f

            return fn

        def mk_poll(i, mode):
            calls = [0]

            def poll_fn(descriptors):
                calls[0] += 1
                E.emit("FnCall", k=i, s="poll", a=len(descriptors), b=calls[0])
                E.upoint()
                if mode == "raise1" and calls[0] == 1 and descriptors:
                    raise LayerError(i, "poll")
                for d in descriptors:
                    seen = state["poll_seen"].get(id(d), 0) + 1
                    state["poll_seen"][id(d)] = seen
                    if mode == "never" or (mode == "second" and seen < 2):
                        continue
                    d.yield_result(Tag(i, d.result, "p"))
                return 0.2

            return poll_fn

        # ---- layers (built with the public Executors.with_* entry points over a tap of the layer below)
        for i, ly in enumerate(layers, start=1):
            t = ly["t"]
            nm = (names.get("layers") or {}).get(str(i)) or "L%d" % i
            tap = H.TapExecutor(ex, "tap%d" % i)
            taps.append(tap)
            main_param = {"retry": ly.get("max", 3), "throttle": -1 if ly.get("count", 2) is None else ly.get("count", 2),
                          "timeout": ly.get("T", 10 ** 6)}.get(t, -1)
            E.emit("Layer", k=i, s=t, a=main_param, b=ly.get("sleep", -1),
                   c=7 if ly.get("policy") else (1 if ly.get("block") else 0),
                   xs=[{"tag": 1, "raise": 2, "reraise": 3, "nonfuture": 4, "later": 5, "none": 6, None: 0}[ly.get("fn")],
                       {"tag": 1, "raise": 2, "reraise": 3, "fail_future": 4, "nonfuture": 5, "none": 6, None: 0}[ly.get("efn")],
                       {"first": 1, "second": 2, "raise1": 3, "never": 4, None: 0}[ly.get("mode")]])
            if t == "map":
                ex = Executors.with_map(tap, mk_fn(i, ly.get("fn"), "fn"), error_fn=mk_fn(i, ly.get("efn"), "efn"),
                                        name=nm)
            elif t == "flat_map":
                fefn = None
                if ly.get("efn") == "fail_future":
                    def fefn(exc, i=i):
                        # answered from inside the `except` of the failing stage: returns a future that already
                        # failed with an exception of its own
                        E.emit("FnCall", k=i, s="fefn:fail_future")
                        f = Future()
                        f.set_exception(LayerError(i, "fefn"))
                        return f
                elif ly.get("efn") == "nonfuture":
                    def fefn(exc, i=i):
                        # "recovers" with a plain value: the same TypeError as for a map function that returns no future
                        E.emit("FnCall", k=i, s="fefn:nonfuture")
                        return Tag(i, 0)
                ex = Executors.with_flat_map(tap, mk_flat_fn(i, ly.get("fn")), error_fn=fefn, name=nm)
            elif t == "retry" and ly.get("policy"):
                from more_executors import ExceptionRetryPolicy

                class Faulty(ExceptionRetryPolicy):
                    def should_retry(self, attempt, future):
                        if ly["policy"] == "raise_should":
                            E.emit("FnCall", k=i, s="policy:should_retry")
                            raise LayerError(i, "should_retry")
                        return ExceptionRetryPolicy.should_retry(self, attempt, future)

                    def sleep_time(self, attempt, future):
                        if ly["policy"] == "raise_sleep":
                            E.emit("FnCall", k=i, s="policy:sleep_time")
                            raise LayerError(i, "sleep_time")
                        return ExceptionRetryPolicy.sleep_time(self, attempt, future)

                ex = Executors.with_retry(tap, retry_policy=Faulty(max_attempts=ly.get("max", 3), sleep=ly.get("sleep", 100) / 1000.0,
                                                                   exponent=1, max_sleep=10, exception_base=H.UserError), name=nm)
            elif t == "retry":
                ex = Executors.with_retry(tap, max_attempts=ly.get("max", 3), sleep=ly.get("sleep", 100) / 1000.0,
                                          exponent=1, max_sleep=10, exception_base=H.UserError, name=nm)
            elif t == "poll":
                cfn = None
                if ly.get("cancel_fn") == "false_then_true":
                    ncf = [0]

                    def cfn(res, ncf=ncf):
                        ncf[0] += 1
                        E.emit("FnCall", k=i, s="cancel_fn", a=ncf[0])
                        return ncf[0] > 1
                ex = Executors.with_poll(tap, mk_poll(i, ly.get("mode", "first")), cfn, default_interval=0.2, name=nm)
            elif t == "throttle" and ly.get("count_fn"):
                def count_fn(i=i, ncalls=[0], ly=ly):
                    ncalls[0] += 1
                    if ncalls[0] >= 2 and ncalls[0] % 2 == 0:
                        E.emit("FnCall", k=i, s="count:raise")
                        raise LayerError(i, "count")
                    return ly.get("count", 2)

                ex = Executors.with_throttle(tap, count_fn, block=bool(ly.get("block")), name=nm)
            elif t == "throttle":
                ex = Executors.with_throttle(tap, ly.get("count", 2), block=bool(ly.get("block")), name=nm)
            elif t == "timeout":
                ex = Executors.with_timeout(tap, ly.get("T", 10 ** 6) / 1000.0, name=nm)
            elif t == "cos":
                ex = Executors.with_cancel_on_shutdown(tap, name=nm)
            elif t == "asyncio":
                # (top layer only: it returns asyncio futures, which no other layer accepts; the loop is never run -
                #  only the executor's own duties are observed: refusal after shutdown, propagation of shutdown)
                import asyncio as _aio
                loop = _aio.new_event_loop()
                state["loop"] = loop
                ex = Executors.with_asyncio(tap, loop=loop, name=nm)
            else:
                raise ValueError(t)
        state["ex"] = ex
        top = ex
        built = [None] + [t._d for t in taps[1:]] + [ex] if taps else [None]
        # lock roles for the recorded lock programs (C04): every executor of the stack names the locks created on
        # its behalf
        E.SCHED.register_owner(taps[0]._d if taps else ex, "x0")
        for idx in range(1, len(built)):
            E.SCHED.register_owner(built[idx], "x%d" % idx)
        for (idx, path, rname) in p.get("roles", []):
            from .common import role_attr
            role_attr(built[idx], path, rname)

        for i, sb in enumerate(subs, start=1):
            E.emit("Sub", f=i, xs=[CODES[o] for o in sb["script"]], a=sb.get("dur", 0))

        def canceller(j, fut, when, n):
            E.vsleep(max(when - E.now(), 0))
            H.do_cancel(fut, j)

        def xcanceller(j, tapi, when):
            # somebody outside the stack cancels the future that tap `tapi` returned for submission j
            from concurrent.futures import Future as _F
            E.vsleep(max(when - E.now(), 0))
            if tapi < 1 or tapi > len(taps):
                return
            cands = [f for f in taps[tapi - 1].futs if getattr(f, "_mxv_sub", None) == j]
            if not cands:
                E.emit("ExternalCancel", f=j, c=tapi, a=-1)
                return
            inner = cands[-1]
            was_done = inner.done()
            r = type(inner).cancel(inner) if not isinstance(inner, _F) or True else False
            E.emit("ExternalCancel", f=j, c=tapi, a=1 if (r and not was_done) else 0)

        def mk_callable(j, sb):
            script = []
            for k, o in enumerate(sb["script"]):
                script.append(("V", Val((j, k + 1))) if o == "V" else (o, "x%d_%d" % (j, k + 1)))
            hook = None
            if sb.get("nested"):
                def hook(k):
                    pf = H.do_submit(top, 100 + j, H.Scripted(100 + j, [("V", Val((100 + j, 1)))]))
                    state["futs"][100 + j] = pf
            return H.Scripted(j, script, dur=0 if base_kind == "manual" else sb.get("dur", 0), hook=hook)

        def client(ci):
            mine = [(j, sb) for j, sb in enumerate(subs, start=1) if sb.get("thread", 0) == ci]
            mine.sort(key=lambda x: x[1].get("S", 0))
            for j, sb in mine:
                E.vsleep(max(sb.get("S", 0) - E.now(), 0))
                fn = mk_callable(j, sb)
                args = [Val(("arg", j, a)) for a in range(sb.get("nargs", 0))]
                kwargs = {nm: Val(("kw", j, nm)) for nm in sb.get("kwnames", [])}
                E.emit("Args", f=j, xs=[s.ident_val(a) for a in args], a=len(kwargs))
                fut = H.do_submit(top, j, fn, *args, **kwargs)
                if fut is None:
                    continue
                state["futs"][j] = fut
                def bad_cb(f_):
                    E.emit("FnCall", k=0, s="cb:raise")
                    raise LayerError(0, "callback")
                if sb.get("cb_raise") == "first":
                    fut.add_done_callback(bad_cb)      # a raising callback registered BEFORE the others
                if sb.get("cb") or sb.get("cb_raise") == "first":
                    H.add_cb(fut, j, 1)
                if sb.get("cb_raise") and sb.get("cb_raise") != "first":
                    fut.add_done_callback(bad_cb)
                if sb.get("cb_shutdown"):
                    # a done-callback (running on whichever thread completes the future - often an executor's own
                    # worker thread) calls shutdown(wait=True) once somebody else's shutdown() has returned: a further
                    # shutdown() is harmless from any thread
                    def scb(f_):
                        waited = 0
                        while not state.get("shut_returned") and waited < 3000:
                            E.vsleep(10)
                            waited += 10
                        if state.get("shut_returned"):
                            H.do_shutdown(top, "top", True)
                    fut.add_done_callback(scb)
                if sb.get("nested_cb"):
                    def ncb(f_, j=j):
                        pf = H.do_submit(top, 200 + j, H.Scripted(200 + j, [("V", Val((200 + j, 1)))]))
                        state["futs"][200 + j] = pf
                    fut.add_done_callback(ncb)
                if sb.get("wait"):
                    E.spawn("wait%d" % j, lambda f=fut, j=j: H.do_result(f, j))
                for n, when in enumerate(sb.get("K", []) or []):
                    E.spawn("can%d_%d" % (j, n), canceller, j, fut, when, n)
                if sb.get("xcancel"):
                    E.spawn("xcan%d" % j, xcanceller, j, sb["xcancel"]["tap"], sb["xcancel"]["at"])

        ths = [E.spawn("client%d" % ci, client, ci) for ci in range(nclients)]

        def shutter():
            E.vsleep(shutdown["at"])
            for r in range(shutdown.get("repeat", 1)):
                kw = {}
                if shutdown.get("cancel_futures") is not None:
                    kw["cancel_futures"] = bool(shutdown["cancel_futures"])
                H.do_shutdown(top, "top", shutdown.get("wait", True), **kw)
                state["shut_returned"] = True

        if shutdown:
            E.spawn("sh", shutter)
            for extra in range(1, shutdown.get("threads", 1)):
                E.spawn("sh%d" % (extra + 1), shutter)     # several threads call shutdown() at the same instant
        if p.get("probe") is not None:
            def prober():
                E.vsleep(p["probe"])
                pf = H.do_submit(top, 99, H.Scripted(99, [("V", Val((99, 1)))]))
                state["futs"][99] = pf
            E.spawn("probe", prober)
        E.vsleep(horizon)
        # final outcome terms (structural), one event per tracked future
        for j, fut in sorted(state["futs"].items()):
            if fut is None:
                continue
            st = fut._state
            if st == "FINISHED":
                exc = fut._exception
                if exc is not None:
                    lay = getattr(exc, "layer", -1)
                    E.emit("Final", f=j, s=st, a=1, xs=[s.ident(exc, "val")], k=lay,
                           b={"TypeError": 1, "LayerError": 2, "UserError": 3, "OtherError": 4, "AbortOutcome": 4}.get(type(exc).__name__, 9))
                else:
                    E.emit("Final", f=j, s=st, a=0, xs=term_of(fut._result, s))
            else:
                E.emit("Final", f=j, s=st, a=-1)
        E.emit("End")
        if state.get("loop") is not None:
            state["loop"].close()

    opts = {"horizon": horizon + 400000, "max_steps": 60000}
    if p.get("roles"):
        rn = set(r[2] for r in p["roles"])
        opts["visible"] = lambda obj: E.SCHED.roles.get(id(obj)) in rn
    return main, opts
