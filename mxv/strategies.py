"""Scheduling strategies.  A strategy has choose(sched, enabled) -> TRec.  All are functions of a seed."""
import random


class First(object):
    """Deterministic: lowest thread id first (run-to-completion flavour)."""

    def choose(self, s, enabled):
        return enabled[0]


class Sticky(object):
    """Keep running the current thread while it is enabled, else lowest tid (minimal preemption)."""

    def __init__(self):
        self.last = None

    def choose(self, s, enabled):
        for r in enabled:
            if r.name == self.last:
                return r
        self.last = enabled[0].name
        return enabled[0]


class Random(object):
    def __init__(self, seed, stick=0.0):
        self.rng = random.Random(seed)
        self.stick = stick
        self.last = None

    def choose(self, s, enabled):
        if self.stick and self.last is not None and self.rng.random() < self.stick:
            for r in enabled:
                if r.name == self.last:
                    return r
        r = self.rng.choice(enabled)
        self.last = r.name
        return r


class PCT(object):
    """Priority-based scheduling with d-1 priority change points (Burckhardt et al.)."""

    def __init__(self, seed, depth=3, est_steps=300):
        self.rng = random.Random(seed)
        self.change = sorted(self.rng.randrange(1, max(est_steps, 2)) for _ in range(max(depth - 1, 0)))
        self.low = 0
        self.n = 0

    def on_new_thread(self, s, rec):
        rec.prio = self.rng.random() + 1.0

    def choose(self, s, enabled):
        self.n += 1
        best = max(enabled, key=lambda r: r.prio)
        while self.change and self.change[0] <= self.n:
            self.change.pop(0)
            self.low -= 1
            best.prio = self.low
            best = max(enabled, key=lambda r: r.prio)
        return best


class Replay(object):
    """Follow a recorded schedule (thread names); after it ends / on mismatch use the fallback."""

    def __init__(self, schedule, fallback=None, align_start=False):
        self.schedule = list(schedule)
        self.i = 0
        self.fallback = fallback or First()
        self.mismatch = 0
        self.align_start = align_start
        self.first_mismatch = None

    def on_new_thread(self, s, rec):
        if hasattr(self.fallback, "on_new_thread"):
            self.fallback.on_new_thread(s, rec)

    def choose(self, s, enabled):
        if self.align_start:
            # alignment: new threads run to their first visible operation, and a thread that had to park on
            # an un-modelled primitive resumes as soon as it can - neither is a step of the specification
            for r in enabled:
                if r.op[0] == "start":
                    return r
            vis = s.visible
            if vis is not None:
                for r in enabled:
                    if r.op[0] in ("acquire", "evwait", "evwait_enter", "evset", "evclear", "cvwait", "join") and (
                            r.op[1] is None or not vis(r.op[1])):
                        return r
        if self.i < len(self.schedule):
            want = self.schedule[self.i]
            self.i += 1
            for r in enabled:
                if r.name == want:
                    return r
            self.mismatch += 1
            if self.first_mismatch is None:
                self.first_mismatch = (self.i - 1, want, [r.name for r in enabled])
        return self.fallback.choose(s, enabled)


class Placement(object):
    """Placement sweep: threads in `hold` (name -> step index) are kept back until the global step counter
    reaches their index (unless nothing else can run), then run with top priority.  Everything else follows
    `base`.  Deterministic for a deterministic base."""

    def __init__(self, hold, base=None, run_len=None):
        self.hold = dict(hold)
        self.base = base or Sticky()
        self.run_len = run_len or {}
        self.ran = {}

    def on_new_thread(self, s, rec):
        if hasattr(self.base, "on_new_thread"):
            self.base.on_new_thread(s, rec)

    def _held(self, s, r):
        k = self.hold.get(r.name)
        if k is None:
            return False
        if r.op[0] == "start":
            return False
        return s.steps < k

    def choose(self, s, enabled):
        # a held thread whose time has come runs first (for run_len steps if given, else until it blocks/ends)
        for r in enabled:
            k = self.hold.get(r.name)
            if k is not None and r.op[0] != "start" and s.steps >= k:
                lim = self.run_len.get(r.name)
                if lim is None or self.ran.get(r.name, 0) < lim:
                    self.ran[r.name] = self.ran.get(r.name, 0) + 1
                    return r
        # a thread that is going to be held first runs to its first scheduling point (otherwise the base strategy may
        # let everybody else finish before the held thread has even started, and every placement collapses into one)
        for r in enabled:
            if r.name in self.hold and r.op[0] == "start":
                return r
        free = [r for r in enabled if not self._held(s, r)]
        if free:
            return self.base.choose(s, free)
        return self.base.choose(s, enabled)


class Named(object):
    """Follow a list of (thread name | None) priorities: always run the first listed thread that is enabled."""

    def __init__(self, order, base=None):
        self.order = list(order)
        self.base = base or First()

    def choose(self, s, enabled):
        for n in self.order:
            for r in enabled:
                if r.name == n:
                    return r
        return self.base.choose(s, enabled)


class PreemptAt(object):
    """One directed preemption: thread `first` runs whenever it can until it has been granted `m` steps, then thread
    `then` runs whenever it can (until it blocks or ends), everything else - and `first` afterwards - follows `base`.
    Sweeping m over the steps of an operation places the other thread's whole operation at every point inside it."""

    def __init__(self, first, m, then, base=None):
        self.first, self.m, self.then = first, m, then
        self.base = base or Sticky()

    def choose(self, s, enabled):
        by = {r.name: r for r in enabled}
        f = by.get(self.first)
        if f is not None and f.steps < self.m:
            return f
        fr = s.by_name.get(self.first)
        if fr is not None and fr.steps >= self.m:
            t = by.get(self.then)
            if t is not None:
                return t
        rest = [r for r in enabled if r.name != self.first] if (fr is not None and fr.steps >= self.m and
                                                                 s.by_name.get(self.then) is not None and
                                                                 s.by_name[self.then].state != "finished") else enabled
        return self.base.choose(s, rest or enabled)


class Phases(object):
    """Directed schedule with a bounded number of preemptions: phases = [[thread, quota(, from_time)], ...]; in each phase the
    named thread runs whenever it is enabled until it has been granted `quota` steps in that phase (or it ends);
    when it cannot run, the base strategy picks among the OTHER threads that are not named in a later phase."""

    def __init__(self, phases, base=None):
        self.phases = [list(p) for p in phases]
        self.i = 0
        self.used = 0
        self.base = base or Sticky()

    def choose(self, s, enabled):
        while self.i < len(self.phases):
            name, quota = self.phases[self.i][:2]
            if len(self.phases[self.i]) > 2 and s.now < self.phases[self.i][2]:
                # [thread, quota, from_time]: the phase (and everything after it) starts at that virtual time;
                # until then everybody runs as the base strategy decides
                return self.base.choose(s, enabled)
            rec = s.by_name.get(name)
            if self.used >= quota or (rec is not None and rec.state == "finished"):
                self.i += 1
                self.used = 0
                continue
            for r in enabled:
                if r.name == name:
                    self.used += 1
                    return r
            later = set(p[0] for p in self.phases[self.i:])
            rest = [r for r in enabled if r.name not in later]
            return self.base.choose(s, rest or enabled)
        return self.base.choose(s, enabled)


class Steer(object):
    """Steer the real code towards a candidate lock cycle found by TLC on recorded lock programs
    (spec/LockCases.tla).  gates = [[held role, wanted role], ...]: a thread about to acquire a lock of the wanted
    role while it owns a lock of the held role is parked - although it could go on - while the other threads run
    (and while virtual time advances to the next timer, for at most `patience` ticks), so that another thread can
    take the wanted lock and come for the held one.  If that happens both are really blocked on each other and the
    execution ends in a deadlock that the engine reports; if it does not, the parked thread is let go and nothing is
    claimed.  Everything else is decided by the base strategy (the one of the execution the cycle came from)."""

    def __init__(self, gates, patience=600, base=None, max_steps=3000):
        self.gates = [tuple(g) for g in gates]
        self.patience = patience
        self.base = base or Sticky()
        self.max_steps = max_steps
        self.parked = {}        # tid -> (lock ordinal, time, step)
        self.let_go = set()     # (tid, lock ordinal)
        self.parks = 0

    def _gate(self, s, r):
        op = r.op
        if not op or op == "aborted" or op[0] != "acquire" or not r.held:
            return None
        lock = op[1]
        lid = getattr(lock, "_lid", None)
        if lid is None or (r.tid, lid) in self.let_go or lock._owner is not None:
            return None
        want = s.lock_role(lock)
        for (h, w) in self.gates:
            if w == want and any(s.lock_role(l) == h for l in r.held):
                return lid
        return None

    def held_back(self, s, r):
        lid = self._gate(s, r)
        if lid is None:
            self.parked.pop(r.tid, None)
            return False
        ent = self.parked.get(r.tid)
        if ent is None or ent[0] != lid:
            ent = (lid, s.now, s.steps)
            self.parked[r.tid] = ent
            self.parks += 1
        if s.now - ent[1] > self.patience or s.steps - ent[2] > self.max_steps:
            self.let_go.add((r.tid, lid))
            self.parked.pop(r.tid, None)
            return False
        return True

    def patience_until(self, s):
        return min([e[1] + self.patience for e in self.parked.values()] or [s.now])

    def give_up(self, s):
        for tid, ent in list(self.parked.items()):
            self.let_go.add((tid, ent[0]))
        self.parked.clear()

    def choose(self, s, enabled):
        return self.base.choose(s, enabled)

    def on_new_thread(self, s, rec):
        if hasattr(self.base, "on_new_thread"):
            self.base.on_new_thread(s, rec)


def make(spec):
    """Build a strategy from a JSON-able spec."""
    k = spec[0]
    if k == "first":
        return First()
    if k == "sticky":
        return Sticky()
    if k == "random":
        return Random(spec[1], *(spec[2:3]))
    if k == "pct":
        return PCT(spec[1], *spec[2:4])
    if k == "replay":
        fb = make(spec[2]) if len(spec) > 2 and spec[2] else None
        return Replay(spec[1], fb, align_start=(len(spec) > 3 and spec[3]))
    if k == "placement":
        return Placement(spec[1], make(spec[2]) if len(spec) > 2 and spec[2] else None,
                         spec[3] if len(spec) > 3 else None)
    if k == "phases":
        return Phases(spec[1], make(spec[2]) if len(spec) > 2 and spec[2] else None)
    if k == "preempt":
        return PreemptAt(spec[1], spec[2], spec[3], make(spec[4]) if len(spec) > 4 and spec[4] else None)
    if k == "steer":
        return Steer(spec[1], spec[2] if len(spec) > 2 and spec[2] else 600,
                     make(spec[3]) if len(spec) > 3 and spec[3] else None)
    if k == "named":
        return Named(spec[1], make(spec[2]) if len(spec) > 2 and spec[2] else None)
    raise ValueError(spec)
