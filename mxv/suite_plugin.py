"""pytest plugin: record API-level traces of the repository's OWN test suite (real threads, real time) for validation
against spec/ApiObs.tla.   Loaded with  -p mxv.suite_plugin  (PYTHONPATH=/verif), output directory MXV_SUITE_OUT.

Nothing in the repository is edited: the plugin wraps, at class level and only inside the test process,
  * cancel() and add_done_callback() of concurrent.futures.Future and of the library's _Future,
  * submit() / submit_retry() / submit_timeout() and shutdown() of every executor class of more_executors (and of
    ThreadPoolExecutor), wrapping the submitted callable so that each invocation is recorded.
Events are appended under one global lock, which gives the total order the contract relies on (every clause of ApiObs
speaks about the ORDER of events only, never about durations, so real-time scheduling cannot make it flaky):
  SubmitCall(c = executor id, k = token) / SubmitRet(f, k = token, c) / SubmitRaise(k, c, s = exception type)
  Invoke(k = token)                      the callable handed over with that token starts running
  CancelCall(f) / CancelRet(f, a) / CancelRaise(f, s)
  AddCbRet(f, k = callback id) / Callback(f, k, a = 1 iff f.done())
  ShutdownCall(c) / ShutdownRet(c)
  Final(f, s = state)                    state of every future still alive at the end of the test
  End
One trace per test, written as JSON lines to MXV_SUITE_OUT/traces.jsonl.
"""
import functools
import itertools
import json
import os
import threading
import weakref

_LOCK = threading.Lock()
_TRACE = []
_IDS = weakref.WeakKeyDictionary()
_EXIDS = weakref.WeakKeyDictionary()
_COUNTER = itertools.count(1)
_TOKENS = itertools.count(1)
_CBIDS = itertools.count(1)
_TLS = threading.local()
_STATE = {"on": False, "test": None, "out": None, "ntests": 0}
FIELDS = {"ev": "", "thr": "", "r": "", "t": 0, "f": -1, "k": -1, "a": -1, "b": -1, "c": -1, "s": "", "xs": []}


def emit(ev, **kw):
    if not _STATE["on"]:
        return
    kw["ev"] = ev
    kw["thr"] = threading.current_thread().name[:40]
    with _LOCK:
        if len(_TRACE) < MAX_EVENTS:      # (a prefix of a history is a history: the clauses are safety properties)
            _TRACE.append(kw)


def fid(fut):
    with _LOCK:
        n = _IDS.get(fut)
        if n is None:
            n = _IDS[fut] = next(_COUNTER)
        return n


def xid(ex):
    with _LOCK:
        try:
            n = _EXIDS.get(ex)
            if n is None:
                n = _EXIDS[ex] = next(_COUNTER)
            return n
        except TypeError:
            return 0


def _wrap_cancel(cls):
    orig = cls.__dict__["cancel"]

    @functools.wraps(orig)
    def cancel(self):
        if not _STATE["on"]:
            return orig(self)
        f = fid(self)
        # only the outermost cancel() of a future per thread is an API call (the library's own cancel() calls the
        # stdlib one on the same object)
        depth = getattr(_TLS, "cancel", None)
        if depth is None:
            depth = _TLS.cancel = {}
        if depth.get(f):
            return orig(self)
        depth[f] = 1
        emit("CancelCall", f=f)
        try:
            r = orig(self)
        except BaseException as e:
            emit("CancelRaise", f=f, s=type(e).__name__)
            raise
        finally:
            depth.pop(f, None)
        emit("CancelRet", f=f, a=1 if r else 0)
        return r

    cls.cancel = cancel


def _wrap_add_cb(cls):
    orig = cls.__dict__["add_done_callback"]

    @functools.wraps(orig)
    def add_done_callback(self, fn):
        if not _STATE["on"]:
            return orig(self, fn)
        f = fid(self)
        k = next(_CBIDS)

        def recorded(fut):
            emit("Callback", f=f, k=k, a=1 if fut.done() else 0)
            return fn(fut)

        r = orig(self, recorded)
        emit("AddCbRet", f=f, k=k)
        return r

    cls.add_done_callback = add_done_callback


class _Invoked(object):
    """The submitted callable, recording each invocation.  Equal to (and hashing like) the callable it wraps, so tests
    that compare what reached a mocked delegate still see the callable they submitted."""

    def __init__(self, fn, tok):
        self._mxv_fn = fn
        self._mxv_tok = tok

    def __call__(self, *a, **k):
        emit("Invoke", k=self._mxv_tok)
        return self._mxv_fn(*a, **k)

    def __eq__(self, other):
        if isinstance(other, _Invoked):
            other = other._mxv_fn
        return self._mxv_fn == other

    def __ne__(self, other):
        return not self.__eq__(other)

    def __hash__(self):
        return hash(self._mxv_fn)

    def __getattr__(self, name):
        return getattr(self._mxv_fn, name)


MAX_EVENTS = 20000


def _wrap_submit(cls, name, fn_index):
    orig = cls.__dict__[name]

    @functools.wraps(orig)
    def submit(self, *args, **kwargs):
        if not _STATE["on"] or len(args) <= fn_index or not callable(args[fn_index]):
            return orig(self, *args, **kwargs)
        tok = next(_TOKENS)
        c = xid(self)
        args = args[:fn_index] + (_Invoked(args[fn_index], tok),) + args[fn_index + 1:]
        emit("SubmitCall", c=c, k=tok, s=cls.__name__)
        try:
            fut = orig(self, *args, **kwargs)
        except BaseException as e:
            emit("SubmitRaise", c=c, k=tok, s=type(e).__name__)
            raise
        emit("SubmitRet", f=fid(fut), c=c, k=tok)
        return fut

    setattr(cls, name, submit)


def _wrap_shutdown(cls):
    orig = cls.__dict__["shutdown"]

    @functools.wraps(orig)
    def shutdown(self, *args, **kwargs):
        if not _STATE["on"]:
            return orig(self, *args, **kwargs)
        c = xid(self)
        emit("ShutdownCall", c=c)
        r = orig(self, *args, **kwargs)
        emit("ShutdownRet", c=c)
        return r

    cls.shutdown = shutdown


def install():
    import concurrent.futures as cf
    from concurrent.futures import Future, ThreadPoolExecutor
    import importlib
    import pkgutil
    import more_executors._impl as impl
    from more_executors._impl.common import _Future

    for cls in (Future, _Future):
        _wrap_cancel(cls)
        _wrap_add_cb(cls)
    seen = set()
    classes = [ThreadPoolExecutor]
    for m in pkgutil.walk_packages(impl.__path__, impl.__name__ + "."):
        if "asyncio" in m.name or "metrics" in m.name:
            continue
        try:
            mod = importlib.import_module(m.name)
        except Exception:
            continue
        for obj in vars(mod).values():
            if isinstance(obj, type) and issubclass(obj, cf.Executor) and obj.__module__ == mod.__name__:
                classes.append(obj)
    for cls in classes:
        if cls in seen:
            continue
        seen.add(cls)
        if "submit" in cls.__dict__:
            _wrap_submit(cls, "submit", 0)
        for nm in ("submit_retry", "submit_timeout"):
            if nm in cls.__dict__:
                _wrap_submit(cls, nm, 1)
        if "shutdown" in cls.__dict__:
            _wrap_shutdown(cls)


# ------------------------------------------------------------------------------------------- pytest hooks
def pytest_configure(config):
    out = os.environ.get("MXV_SUITE_OUT")
    if not out:
        return
    os.makedirs(out, exist_ok=True)
    _STATE["out"] = open(os.path.join(out, "traces.jsonl"), "w")
    install()


def pytest_runtest_setup(item):
    if _STATE["out"] is None:
        return
    with _LOCK:
        del _TRACE[:]
    _STATE["test"] = item.nodeid
    _STATE["on"] = True


def pytest_runtest_teardown(item, nextitem):
    if _STATE["out"] is None or not _STATE["on"]:
        return
    with _LOCK:
        futs = list(_IDS.items())
    for fut, n in futs:
        try:
            emit("Final", f=n, s=fut._state)
        except Exception:
            pass
    with _LOCK:
        truncated = len(_TRACE) >= MAX_EVENTS
    if not truncated:
        emit("End")
    _STATE["on"] = False
    with _LOCK:
        tr = list(_TRACE)
        del _TRACE[:]
    if len(tr) > 2:
        _STATE["out"].write(json.dumps({"test": item.nodeid, "truncated": truncated, "trace": tr}) + "\n")
        _STATE["out"].flush()
        _STATE["ntests"] += 1


def pytest_unconfigure(config):
    if _STATE["out"] is not None:
        _STATE["out"].close()
