"""Lock programs recorded from real executions, for spec/LockCases.tla (C04).

The engine logs (thread, "a" | "r", lock ordinal, lock role).  For every acquisition made while the thread holds
other locks we keep the *pattern* (held locks in acquisition order, wanted lock); a pattern becomes the mini-program
  acquire held[0] .. acquire held[n-1], acquire wanted, release wanted, release held[n-1] .. held[0]
and a case is a pair of programs from two different threads of the same execution that share at least two locks.
Cases are produced at two levels: lock *roles* (one class per executor of the stack / creating object / site:
generalises over submissions) and lock *instances* (exact, within one execution)."""
import json


def patterns(locks, level):
    """-> {thread: set of (held tuple, wanted)} ; level "role" | "inst"."""
    held = {}
    out = {}
    for (thr, op, lid, role) in locks:
        key = role if level == "role" else "%s#%d" % (role, lid)
        h = held.setdefault(thr, [])
        if op == "a":
            if h and key not in h:
                out.setdefault(thr, set()).add((tuple(h), key))
            h.append(key)
        else:
            if key in h:
                # remove the innermost occurrence
                for i in range(len(h) - 1, -1, -1):
                    if h[i] == key:
                        del h[i]
                        break
    return out


def program(pat):
    held, want = pat
    seq = list(held) + [want]
    return [["a", l] for l in seq] + [["r", l] for l in reversed(seq)]


def _canon_inst(p1, p2):
    """Rename lock instances to role#k in order of first appearance: equal shapes from different executions collapse."""
    names = {}
    counts = {}

    def nm(x):
        if x not in names:
            role = x.rsplit("#", 1)[0]
            counts[role] = counts.get(role, 0) + 1
            names[x] = "%s#%d" % (role, counts[role])
        return names[x]

    q1 = (tuple(nm(x) for x in p1[0]), nm(p1[1]))
    q2 = (tuple(nm(x) for x in p2[0]), nm(p2[1]))
    return q1, q2


def cases_of(locks, limit=400):
    """-> list of {"level", "pats": [pat1, pat2], "threads": [t1, t2]} for one execution (deduplicated)."""
    out = {}
    for level in ("role", "inst"):
        pats = patterns(locks, level)
        thrs = sorted(pats)
        for i, t1 in enumerate(thrs):
            for t2 in thrs[i + 1:]:
                for p1 in pats[t1]:
                    s1 = set(p1[0]) | {p1[1]}
                    for p2 in pats[t2]:
                        if len(s1 & (set(p2[0]) | {p2[1]})) < 2:
                            continue
                        a, b, ta, tb = p1, p2, t1, t2
                        if level == "inst":
                            a, b = _canon_inst(a, b)
                        if (a, ta) > (b, tb) and level == "role":
                            a, b, ta, tb = b, a, tb, ta
                        key = (level, a, b)
                        if key not in out:
                            out[key] = {"level": level, "pats": [[list(a[0]), a[1]], [list(b[0]), b[1]]],
                                        "threads": [ta, tb]}
                        if len(out) >= limit:
                            return list(out.values())
    return list(out.values())


def case_key(c):
    return json.dumps([c["level"], c["pats"]], sort_keys=True)


def role_of(lockname):
    return lockname.rsplit("#", 1)[0] if "#" in lockname.split("@")[-1] else lockname


def gates_of(case, pos):
    """From the positions at which TLC found the programs stuck: [(held role, wanted role), ...] per thread."""
    gates = []
    for pat, k in zip(case["pats"], pos):
        prog = program((tuple(pat[0]), pat[1]))
        if k > len(prog) or prog[k - 1][0] != "a":
            continue
        want = prog[k - 1][1]
        for h in [op[1] for op in prog[:k - 1] if op[0] == "a"]:
            gates.append([role_of(h), role_of(want)])
    return gates


def shape_of(progs):
    """Canonical form of a case for TLC: programs ordered, locks renamed l1, l2, .. in order of first appearance.
    -> (shape, swapped)"""
    def ren(ps):
        names = {}
        out = []
        for p in ps:
            q = []
            for op, l in p:
                if l not in names:
                    names[l] = "l%d" % (len(names) + 1)
                q.append([op, names[l]])
            out.append(q)
        return out
    a = ren(progs)
    b = ren(list(reversed(progs)))
    if json.dumps(b) < json.dumps(a):
        return b, True
    return a, False
