"""./check <id> --replay <file>: re-execute a recorded violating execution from its schedule and re-validate it."""
import json

from . import core, tlc


def run(prop, path):
    blob = json.load(open(path))
    task = dict(blob["task"])
    sched = blob.get("schedule") or []
    task["strat"] = ["replay", sched, ["sticky"], False]
    r = core.run_task(task)
    if not r["ok"]:
        print("MACHINERY-ERROR: replay failed to run: %s" % (str(r["failure"])[:500],))
        return 2
    verdicts, _ = tlc.validate_traces(blob["trace_module"], [r["trace"]])
    v, step = verdicts[0]
    same = [(e["ev"], e["thr"], e["f"], e["a"]) for e in r["trace"]] == [(e["ev"], e["thr"], e["f"], e["a"]) for e in blob["trace"]]
    print("replayed %d steps, schedule mismatches %s, trace identical to the recorded one: %s" % (
        len(sched), r.get("mismatch"), same))
    ev = r["trace"][step - 1] if 0 < step <= len(r["trace"]) else None
    if v != "ok":
        print("clause %s fails at event %d: %s" % (v, step, json.dumps(ev)))
        print("VIOLATION property=%s replay=%s" % (prop, path))
        return 1
    print("verdict ok (recorded verdict was %s)" % blob.get("clause"))
    return 0
